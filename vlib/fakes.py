"""In-memory transport for running the real aioslsk network code without sockets.

``FakeNet`` replaces ``asyncio.open_connection`` / ``asyncio.start_server`` *as seen from*
``aioslsk.network.connection`` (module attribute swap from outside, no source hook).  The real
``DataConnection`` / ``PeerConnection`` / ``ServerConnection`` / ``ListeningConnection`` code then
runs unmodified on real ``asyncio.StreamReader`` objects and a small fake ``StreamWriter``.

The harness side of a connection is an ``Endpoint``: ``feed(bytes)``, ``feed_eof()``,
``set_exception(exc)``; what the client wrote is in ``written`` / ``frames()``.
"""
from __future__ import annotations

import asyncio
import struct
from typing import Callable, Optional


class FakeWriter:
    def __init__(self, endpoint: 'Endpoint', peername, sockname):
        self.ep = endpoint
        self._closing = False
        self._closed_fut: Optional[asyncio.Future] = None
        self._peername = peername
        self._sockname = sockname
        self.drain_mode = 'ok'       # 'ok' | 'hang' | 'raise'
        self.transport = self

    # StreamWriter API used by aioslsk
    def write(self, data: bytes):
        if self._closing:
            if self.ep.write_after_close_raises:
                raise ConnectionResetError('write on closed transport')
            return
        if self.ep.write_error is not None:
            raise self.ep.write_error
        self.ep._client_wrote(bytes(data))

    async def drain(self):
        if self.ep.drain_error is not None:
            raise self.ep.drain_error
        if self.ep.drain_hang:
            await asyncio.get_running_loop().create_future()
        if self._closing:
            raise ConnectionResetError('Connection lost')
        await asyncio.sleep(0)

    def close(self):
        if not self._closing:
            self._closing = True
            self.ep._client_closed()

    def is_closing(self):
        return self._closing

    async def wait_closed(self):
        if self.ep.wait_closed_hang:
            await asyncio.get_running_loop().create_future()
        await asyncio.sleep(0)

    def get_extra_info(self, name, default=None):
        if name == 'peername':
            return self._peername
        if name == 'sockname':
            return self._sockname
        return default

    def can_write_eof(self):
        return True

    def write_eof(self):
        self.ep._client_wrote_eof()


class Endpoint:
    """The remote side of one fake TCP connection."""

    def __init__(self, net: 'FakeNet', peername=('10.0.0.9', 40000), sockname=('10.0.0.1', 50000), label=''):
        self.net = net
        self.label = label
        loop = asyncio.get_event_loop()
        self.reader = asyncio.StreamReader(loop=loop)      # what the client reads
        self.writer = FakeWriter(self, peername, sockname)  # what the client writes to
        self.written = bytearray()
        self.write_log = []           # (virtual time, bytes)
        self.client_closed = False
        self.client_eof = False
        self.remote_closed = False
        self.write_error: Optional[Exception] = None
        self.drain_error: Optional[Exception] = None
        self.drain_hang = False
        self.wait_closed_hang = False
        self.write_after_close_raises = False
        self.on_data: Optional[Callable[[bytes], None]] = None   # e.g. linked peer
        self.on_close: Optional[Callable[[], None]] = None
        self.peer: Optional['Endpoint'] = None

    # harness -> client
    def feed(self, data: bytes):
        if not self.remote_closed and not self.client_closed:
            self.reader.feed_data(data)

    def feed_eof(self):
        if not self.remote_closed:
            self.remote_closed = True
            if not self.client_closed:
                self.reader.feed_eof()

    def set_exception(self, exc: Exception):
        self.remote_closed = True
        self.reader.set_exception(exc)

    # client -> harness
    def _client_wrote(self, data: bytes):
        self.written += data
        self.write_log.append((asyncio.get_event_loop().time(), data))
        if self.on_data:
            self.on_data(data)

    def _client_wrote_eof(self):
        self.client_eof = True

    def _client_closed(self):
        self.client_closed = True
        # closing the transport wakes a pending read with EOF (as a real transport does
        # through connection_lost)
        try:
            self.reader.feed_eof()
        except Exception:
            pass
        if self.on_close:
            self.on_close()

    def frames(self, obfuscated: bool = False) -> list[bytes]:
        """Split what the client wrote into frames (length-prefixed, optionally de-obfuscated)."""
        return split_frames(bytes(self.written), obfuscated)

    def take_written(self) -> bytes:
        b = bytes(self.written)
        self.written.clear()
        return b


def split_frames(buf: bytes, obfuscated: bool = False) -> list[bytes]:
    from aioslsk.protocol import obfuscation
    out = []
    pos = 0
    while pos < len(buf):
        if obfuscated:
            if pos + 8 > len(buf):
                break
            (ln,) = struct.unpack('<I', obfuscation.decode(buf[pos:pos + 8]))
            end = pos + 8 + ln
            if end > len(buf):
                break
            out.append(obfuscation.decode(buf[pos:end]))
            pos = end
        else:
            if pos + 4 > len(buf):
                break
            (ln,) = struct.unpack('<I', buf[pos:pos + 4])
            end = pos + 4 + ln
            if end > len(buf):
                break
            out.append(buf[pos:end])
            pos = end
    return out


class FakeServer:
    def __init__(self, net, cb, host, port):
        self.net, self.cb, self.host, self.port = net, cb, host, port
        self._serving = True

    def is_serving(self):
        return self._serving

    def close(self):
        self._serving = False
        self.net.listeners.pop(self.port, None)

    async def wait_closed(self):
        await asyncio.sleep(0)


class _AsyncioProxy:
    """Looks like the asyncio module, except for open_connection/start_server."""

    def __init__(self, net):
        object.__setattr__(self, '_net', net)

    def __getattr__(self, name):
        net = object.__getattribute__(self, '_net')
        if name == 'open_connection':
            return net._open_connection
        if name == 'start_server':
            return net._start_server
        return getattr(asyncio, name)


class FakeNet:
    """Connection broker.

    ``connect_handler(host, port) -> Endpoint | Exception | 'hang' | awaitable of those`` decides
    the outcome of each outgoing connect; default: ConnectionRefusedError.
    ``listeners[port]`` are the servers started by the client; ``incoming(port)`` connects to one.
    """

    def __init__(self):
        self.listeners: dict[int, FakeServer] = {}
        self.connect_handler: Optional[Callable] = None
        self.outgoing: list[tuple[str, int, Optional[Endpoint]]] = []
        self.bind_error_ports: set[int] = set()
        self._saved = None
        self.accept_tasks = []

    def install(self):
        import aioslsk.network.connection as conn
        self._saved = (conn, conn.asyncio)
        conn.asyncio = _AsyncioProxy(self)
        return self

    def uninstall(self):
        if self._saved:
            conn, a = self._saved
            conn.asyncio = a
            self._saved = None

    async def _open_connection(self, host, port, **kw):
        res = None
        if self.connect_handler is not None:
            res = self.connect_handler(host, port)
            if asyncio.iscoroutine(res) or isinstance(res, asyncio.Future):
                res = await res
        if res is None:
            res = ConnectionRefusedError(f'{host}:{port} refused')
        if res == 'hang':
            self.outgoing.append((host, port, None))
            await asyncio.get_running_loop().create_future()
        if isinstance(res, BaseException):
            self.outgoing.append((host, port, None))
            raise res
        assert isinstance(res, Endpoint)
        self.outgoing.append((host, port, res))
        return res.reader, res.writer

    async def _start_server(self, cb, host, port, **kw):
        if port in self.bind_error_ports or port in self.listeners:
            raise OSError(98, 'Address already in use')
        srv = FakeServer(self, cb, host, port)
        self.listeners[port] = srv
        return srv

    def incoming(self, port: int, peername=('10.0.0.7', 41000)) -> Endpoint:
        """A remote peer connects to one of the client's listening ports."""
        srv = self.listeners[port]
        ep = Endpoint(self, peername=peername, sockname=('10.0.0.1', port))
        t = asyncio.get_event_loop().create_task(srv.cb(ep.reader, ep.writer))
        self.accept_tasks.append(t)
        return ep


def link(a: Endpoint, b: Endpoint):
    """Join two endpoints (two real clients talking to each other): what client A writes is what
    client B reads and vice versa; a close on one side is an EOF on the other."""
    a.peer, b.peer = b, a
    a.on_data = lambda d: b.feed(d)
    b.on_data = lambda d: a.feed(d)
    a.on_close = lambda: b.feed_eof()
    b.on_close = lambda: a.feed_eof()
