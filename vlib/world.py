"""A real SoulSeekClient wired to a FakeNet and a scripted server under the virtual-time loop."""
from __future__ import annotations

import asyncio
import tempfile
from pathlib import Path
from typing import Optional

from . import vloop, fakes


def make_settings(username='me', tmp: Optional[Path] = None, **over):
    from aioslsk.settings import (Settings, CredentialsSettings, NetworkSettings, ServerSettings, ReconnectSettings,
                                  ListeningSettings, UpnpSettings, SharesSettings, PeerSettings)
    tmp = Path(tmp or tempfile.mkdtemp(prefix='verif_'))
    dl = tmp / 'downloads'
    dl.mkdir(parents=True, exist_ok=True)
    s = Settings(
        credentials=CredentialsSettings(username=username, password='pw'),
        network=NetworkSettings(
            server=ServerSettings(hostname='server.test', port=2416, reconnect=ReconnectSettings(auto=over.pop('reconnect', False), timeout=10)),
            listening=ListeningSettings(port=over.pop('port', 60000), obfuscated_port=over.pop('obfuscated_port', 60001)),
            upnp=UpnpSettings(enabled=False),
            peer=PeerSettings(obfuscate=over.pop('obfuscate', False)),
        ),
        shares=SharesSettings(scan_on_start=False, download=str(dl), directories=over.pop('directories', [])),
    )
    if 'connect_mode' in over:
        s.network.peer.connect_mode = over.pop('connect_mode')
    for k, v in over.items():
        obj = s
        parts = k.split('.')
        for p in parts[:-1]:
            obj = getattr(obj, p)
        setattr(obj, parts[-1], v)
    return s


class World:
    def __init__(self, settings=None, start_time: float = 1000.0, **over):
        self.loop = vloop.new_loop(start_time)
        self.net = fakes.FakeNet().install()
        self.tmp = Path(tempfile.mkdtemp(prefix='verif_'))
        self.settings = settings or make_settings(tmp=self.tmp, **over)
        import aioslsk.network.rate_limiter as rl
        import aioslsk.transfer.manager as tm
        import aioslsk.transfer.model as tmod
        import aioslsk.user.manager as um
        mods = [rl, tm, tmod, um]
        self._undo_time = vloop.patch_time(self.loop, mods)
        from aioslsk.client import SoulSeekClient
        self.client = SoulSeekClient(self.settings)
        self.server_eps: list[fakes.Endpoint] = []
        self.server_accept = True      # False: refuse server connects
        self.peer_connect = None       # callable(host, port) -> Endpoint | Exception | 'hang'
        self.net.connect_handler = self._on_connect
        self.events = []
        self.closed = False

    # -- connection broker
    def _on_connect(self, host, port):
        srv = self.settings.network.server
        if (host, port) == (srv.hostname, srv.port):
            if not self.server_accept:
                return ConnectionRefusedError('server down')
            ep = fakes.Endpoint(self.net, peername=(host, port), sockname=('10.0.0.1', 50001), label='server')
            self.server_eps.append(ep)
            return ep
        if self.peer_connect:
            return self.peer_connect(host, port)
        return None

    @property
    def server(self) -> fakes.Endpoint:
        return self.server_eps[-1]

    # -- life cycle
    def run(self, coro, **kw):
        return self.loop.run_coro(coro, **kw)

    def settle(self, rounds: int = 30):
        self.loop.run_ready(rounds)

    def start(self, connect=True):
        self.run(self.client.start(connect=connect))

    def login(self, success=True, ip='1.2.3.4', settle=True):
        from aioslsk.protocol.messages import Login
        t = self.loop.create_task(self.client.login())
        self.loop.run_ready(10)
        if success:
            resp = Login.Response(success=True, greeting='hi', ip=ip, md5hash='x', privileged=False)
        else:
            resp = Login.Response(success=False, reason='INVALIDPASS')
        self.server.feed(resp.serialize())
        self.loop.run_ready(40)
        if settle:
            self.loop.run_ready(40)
        if t.done():
            return t.result()
        return t

    def record_events(self, *types):
        # the event bus holds listeners weakly: keep a strong reference to the recorder
        self._recorders = getattr(self, '_recorders', [])

        def rec(e):
            self.events.append(e)
        self._recorders.append(rec)
        for ty in types:
            self.client.events.register(ty, rec)

    # -- server side
    def server_send(self, *msgs):
        for m in msgs:
            self.server.feed(m if isinstance(m, (bytes, bytearray)) else m.serialize())

    def server_received(self, clear=False):
        """Messages the client sent to the server (parsed with the real parser)."""
        from aioslsk.protocol.messages import ServerMessage
        out = []
        for fr in self.server.frames():
            try:
                out.append(ServerMessage.deserialize_request(fr))
            except Exception as e:  # noqa
                out.append(('undecodable', fr))
        if clear:
            self.server.written.clear()
        return out

    def stop(self):
        try:
            self.run(self.client.stop())
        finally:
            self.close()

    def close(self):
        if self.closed:
            return
        self.closed = True
        self._undo_time()
        self.net.uninstall()
        vloop.close_loop(self.loop)
        import shutil
        shutil.rmtree(self.tmp, ignore_errors=True)
