"""Virtual-time asyncio event loop for deterministic, zero-wall-time runs of the real code.

* ``VLoop`` is a SelectorEventLoop whose ``time()`` is a counter.  Its selector never blocks:
  when the loop would sleep until the next timer, the virtual clock jumps there instead.
* ``run_until_idle()`` runs until no ready handle and no timer remains (or a step budget ends).
* ``patch_time(modules)`` points ``time.monotonic``/``time.time`` used by modules under test
  at the loop's clock.
* An inline executor makes ``run_in_executor`` (aiofiles, shares scanner) run synchronously,
  so that the clock cannot jump while a thread works.  Thread interleavings are therefore not
  explored.
"""
from __future__ import annotations

import asyncio
import concurrent.futures
import selectors
import types


class _VSelector(selectors.SelectSelector):
    def __init__(self, loop_ref):
        super().__init__()
        self._loop_ref = loop_ref

    def select(self, timeout=None):
        loop = self._loop_ref()
        events = super().select(0)
        if events:
            return events
        if timeout is None:
            # nothing scheduled at all: the loop would block forever
            loop._idle = True
            return []
        if timeout > 0:
            loop._vtime += timeout
        return []


class InlineExecutor(concurrent.futures.ThreadPoolExecutor):
    def __init__(self):
        super().__init__(max_workers=1)

    def submit(self, fn, *args, **kwargs):
        f = concurrent.futures.Future()
        try:
            f.set_result(fn(*args, **kwargs))
        except BaseException as e:  # noqa
            f.set_exception(e)
        return f


class VLoop(asyncio.SelectorEventLoop):
    def __init__(self, start: float = 1000.0):
        self._vtime = start
        self._idle = False
        import weakref
        super().__init__(selector=_VSelector(weakref.ref(self)))
        self.set_default_executor(InlineExecutor())
        self.unhandled = []   # contexts passed to the exception handler
        self.set_exception_handler(lambda loop, ctx: self.unhandled.append(ctx))

    def time(self):
        return self._vtime

    def advance(self, dt: float):
        """Let virtual time pass (timers due are run by the next run_* call)."""
        self._vtime += dt

    # --- driving -------------------------------------------------------------------------
    _mode = None       # None | 'idle' | 'rounds'
    _until = None
    _rounds = 0
    _budget = 0

    def _next_timer(self):
        return min((h._when for h in self._scheduled if not h._cancelled), default=None)

    def _run_once(self):
        if self._mode == 'idle':
            self._budget -= 1
            if self._budget < 0:
                self._stopping = True
                self._exhausted = True
                return
            if not self._ready:
                nxt = self._next_timer()
                if nxt is None:
                    if self._until is not None and self._vtime < self._until and getattr(self, '_advance_to_until', False):
                        self._vtime = self._until
                    self._stopping = True
                    return
                if self._until is not None and nxt > self._until:
                    if self._vtime < self._until:
                        self._vtime = self._until
                    self._stopping = True
                    return
        elif self._mode == 'rounds':
            if self._rounds <= 0:
                self._stopping = True
                return
            self._rounds -= 1
            if not self._ready:
                # do not let time pass: only run what is due now
                nxt = self._next_timer()
                if nxt is None or nxt > self._vtime:
                    return
        super()._run_once()

    def run_until_idle(self, max_iters: int = 200000, until: float | None = None):
        """Run until there is nothing ready and no timer left (or the clock reaches ``until``)."""
        self._mode, self._until, self._budget, self._exhausted = 'idle', until, max_iters, False
        try:
            self.run_forever()
        finally:
            self._mode = None
        if self._exhausted:
            raise RuntimeError('run_until_idle: iteration budget exhausted (livelock?)')

    def run_ready(self, rounds: int = 1):
        """Run ``rounds`` loop iterations at the current instant (virtual time does not pass)."""
        self._mode, self._rounds = 'rounds', rounds
        try:
            self.run_forever()
        finally:
            self._mode = None

    def run_for(self, dt: float, max_iters: int = 200000):
        """Let exactly ``dt`` of virtual time pass (running whatever becomes due)."""
        self._advance_to_until = True
        try:
            self.run_until_idle(max_iters=max_iters, until=self._vtime + dt)
        finally:
            self._advance_to_until = False

    def run_coro(self, coro, timeout_virtual: float = 1e7, max_iters: int = 2000000):
        """Run a coroutine to completion under virtual time."""
        t = self.create_task(coro)
        t.add_done_callback(lambda _t: self.stop())
        self._mode, self._until, self._budget, self._exhausted = 'idle', self._vtime + timeout_virtual, max_iters, False
        try:
            self.run_forever()
        finally:
            self._mode = None
        if not t.done():
            t.cancel()
            self.run_ready(3)
            raise RuntimeError('run_coro: coroutine did not finish (deadlock, virtual timeout or budget)')
        return t.result()


def new_loop(start: float = 1000.0) -> VLoop:
    loop = VLoop(start)
    asyncio.set_event_loop(loop)
    return loop


def close_loop(loop: VLoop):
    try:
        pending = [t for t in asyncio.all_tasks(loop) if not t.done()]
        for t in pending:
            t.cancel()
        if pending:
            loop.run_ready(3)
    except Exception:
        pass
    try:
        loop.close()
    finally:
        asyncio.set_event_loop(None)


def patch_time(loop: VLoop, modules):
    """Replace the ``time`` module seen by each given module with one reading the loop clock."""
    import time as _time
    fake = types.SimpleNamespace(**{k: getattr(_time, k) for k in dir(_time) if not k.startswith('__')})
    fake.monotonic = loop.time
    fake.time = loop.time
    fake.perf_counter = loop.time
    saved = []
    for m in modules:
        if hasattr(m, 'time'):
            saved.append((m, m.time))
            m.time = fake

    def undo():
        for m, t in saved:
            m.time = t
    return undo
