"""Shared machinery of the aioslsk verification checks.

Everything a per-property check needs that is not specific to the property:

* locating the implementation under test (``REPO``; default ``/repo``, development
  override ``VERIF_REPO``) and the Coq work tree (``COQ``; default ``/verif/coq``,
  override ``VERIF_WORK`` which receives an rsync'ed copy so that a scratch worktree of the
  repository can be checked without disturbing the main build);
* running the fail-closed translators and (re)building selected ``.vo`` targets under a
  file lock and a shell timeout;
* evaluating generated ``cases.v`` files with ``coqc`` (``vm_compute``) in parallel;
* reading the theorem list of a ``Props.v`` and the ``Print Assumptions`` of each theorem;
* the VIOLATION / KNOWN-FINDING / no-failing-input-found protocol, replay files and
  evidence files.
"""
from __future__ import annotations

import fcntl
import hashlib
import json
import os
import random
import re
import shutil
import subprocess
import sys
import time
from concurrent.futures import ThreadPoolExecutor
from dataclasses import dataclass, field
from pathlib import Path
from typing import Any, Callable, Iterable, Optional, Sequence

VERIF = Path(__file__).resolve().parent.parent
REPO = Path(os.environ.get('VERIF_REPO', '/repo')).resolve()
SRC = REPO / 'src'
_WORK = os.environ.get('VERIF_WORK')
COQ = Path(_WORK).resolve() / 'coq' if _WORK else VERIF / 'coq'
SCRATCH = (Path(_WORK).resolve() if _WORK else VERIF / 'build') / 'scratch'
EVIDENCE_DIR = Path(os.environ.get('VERIF_EVIDENCE_DIR', VERIF / 'evidence'))
REPLAY_DIR = Path(os.environ.get('VERIF_REPLAY_DIR', VERIF / 'replays'))
KNOWN_FINDINGS = VERIF / 'known_findings.json'
NPROC = int(os.environ.get('VERIF_JOBS', str(os.cpu_count() or 4)))

# Axioms of the standard library a theorem may depend on (must be named in the trusted base).
ALLOWED_AXIOMS = {
    # none needed so far; names are compared against the "Axioms:" section of Print Assumptions
}

TRUSTED_BASE_COMMON = [
    'Coq 8.16.1 kernel incl. vm_compute (no native_compute)',
    'no axioms declared; Print Assumptions of every property theorem is checked on each run',
    'fail-closed Python-ast translators in /verif/translate (model text regenerated from /repo on every run)',
    'correspondence harness (/verif/vlib, /verif/checks): generators, fakes, virtual-time loop, canonicalisation, coqc evaluation of cases',
]


def log(*a):
    print(*a, file=sys.stderr, flush=True)


# --------------------------------------------------------------------------------------
# implementation under test
# --------------------------------------------------------------------------------------

def use_impl():
    """Make ``import aioslsk`` resolve to REPO/src (not to an installed copy)."""
    p = str(SRC)
    if sys.path[0] != p:
        if p in sys.path:
            sys.path.remove(p)
        sys.path.insert(0, p)
    for name in list(sys.modules):
        if name == 'aioslsk' or name.startswith('aioslsk.'):
            mod = sys.modules[name]
            f = getattr(mod, '__file__', '') or ''
            if not f.startswith(p):
                del sys.modules[name]
    import aioslsk  # noqa
    assert str(Path(aioslsk.__file__).resolve()).startswith(p), aioslsk.__file__
    import logging
    logging.disable(logging.CRITICAL)


# --------------------------------------------------------------------------------------
# Coq side
# --------------------------------------------------------------------------------------

class BrokenTie(Exception):
    """A translator refused the source (outside the accepted subset) or a proof/build broke."""

    def __init__(self, obligation: str, detail: str):
        super().__init__(f'{obligation}: {detail}')
        self.obligation = obligation
        self.detail = detail


def _lock():
    COQ.mkdir(parents=True, exist_ok=True)
    f = open(COQ / '.lock', 'w')
    fcntl.flock(f, fcntl.LOCK_EX)
    return f


def sync_work():
    """With VERIF_WORK set, mirror /verif/coq (sources and compiled files) into the work tree."""
    if _WORK:
        COQ.parent.mkdir(parents=True, exist_ok=True)
        r = subprocess.run(['rsync', '-a', '--exclude', '.lock', str(VERIF / 'coq') + '/', str(COQ) + '/'])
        if r.returncode not in (0, 24):   # 24 = a source file vanished while copying (concurrent build)
            raise BrokenTie('sync_work', f'rsync exit {r.returncode}')


def write_if_changed(path: Path, text: str) -> bool:
    path.parent.mkdir(parents=True, exist_ok=True)
    if path.exists() and path.read_text() == text:
        return False
    tmp = path.with_suffix(path.suffix + '.tmp')
    tmp.write_text(text)
    os.replace(tmp, path)
    return True


def coq_project_text() -> str:
    lines = ['-Q theories Slsk', '-Q gen SlskGen', '-arg -w', '-arg -notation-overridden,-deprecated-hint-without-locality,-deprecated-instance-without-locality', '']
    for sub in ('gen', 'theories'):
        for p in sorted((COQ / sub).rglob('*.v')):
            lines.append(str(p.relative_to(COQ)))
    return '\n'.join(lines) + '\n'


def ensure_makefile():
    txt = coq_project_text()
    changed = write_if_changed(COQ / '_CoqProject', txt)
    if changed or not (COQ / 'Makefile').exists():
        subprocess.run(['coq_makefile', '-f', '_CoqProject', '-o', 'Makefile'], cwd=COQ, check=True,
                       stdout=subprocess.DEVNULL, stderr=subprocess.DEVNULL)


def run_translators(names: Sequence[str]) -> None:
    """Regenerate coq/gen/*.v from REPO. Raises BrokenTie when a translator refuses."""
    sys.path.insert(0, str(VERIF))
    import importlib
    for n in names:
        mod = importlib.import_module(f'translate.{n}')
        try:
            outputs = mod.translate(SRC)
        except Exception as e:  # fail closed
            raise BrokenTie(f'translator:{n}', f'{type(e).__name__}: {e}')
        for fname, text in outputs.items():
            write_if_changed(COQ / 'gen' / fname, text)


def coq_make(targets: Sequence[str], timeout: int = 1500) -> tuple[bool, str]:
    """Build the given .vo targets (paths relative to coq/). Returns (ok, log)."""
    ensure_makefile()
    cmd = ['timeout', str(timeout), 'make', f'-j{NPROC}', '--no-print-directory'] + list(targets)
    p = subprocess.run(cmd, cwd=COQ, stdout=subprocess.PIPE, stderr=subprocess.STDOUT, text=True)
    return p.returncode == 0, p.stdout


def build(translators: Sequence[str], targets: Sequence[str], timeout: int = 1500) -> None:
    """translators -> gen, then make targets; raises BrokenTie naming what broke."""
    lk = _lock()
    try:
        sync_work()
        run_translators(translators)
        ok, out = coq_make(targets, timeout)
        if not ok:
            m = re.search(r'File "([^"]+)", line (\d+)[^\n]*\n(Error:?[^\n]*(?:\n[^\n]+){0,12})', out)
            if m:
                f = m.group(1)
                thm = _enclosing_statement(COQ / f.lstrip('./'), int(m.group(2)))
                raise BrokenTie(f'coq:{f}:{m.group(2)}' + (f' ({thm})' if thm else ''), m.group(3)[:1500])
            raise BrokenTie('coq:make', out[-1500:])
    finally:
        lk.close()


def _enclosing_statement(path: Path, line: int) -> str:
    try:
        lines = path.read_text().splitlines()
    except Exception:
        return ''
    for i in range(min(line, len(lines)) - 1, -1, -1):
        m = re.match(r'\s*(?:Local\s+|Global\s+)?(Theorem|Lemma|Corollary|Example|Definition|Fixpoint|Fact|Remark|Proposition)\s+([A-Za-z0-9_\']+)', lines[i])
        if m:
            return m.group(2)
    return ''


def coqc_flags() -> list[str]:
    return ['-Q', str(COQ / 'theories'), 'Slsk', '-Q', str(COQ / 'gen'), 'SlskGen',
            '-w', '-notation-overridden,-deprecated-hint-without-locality']


def coq_eval(name: str, text: str, timeout: int = 300) -> str:
    """Compile one generated .v file in the scratch dir; return coqc's stdout. Raises BrokenTie."""
    d = SCRATCH / f'{name}_{os.getpid()}'
    if d.exists():
        shutil.rmtree(d)
    d.mkdir(parents=True)
    f = d / 'cases.v'
    f.write_text(text)
    p = subprocess.run(['timeout', str(timeout), 'coqc'] + coqc_flags() + ['-Q', str(d), 'Cases', str(f)],
                       stdout=subprocess.PIPE, stderr=subprocess.PIPE, text=True, cwd=d)
    if p.returncode != 0:
        raise BrokenTie(f'coqeval:{name}', (p.stderr or p.stdout)[-1500:])
    out = p.stdout
    shutil.rmtree(d, ignore_errors=True)
    return out


def coq_eval_many(name: str, texts: Sequence[str], timeout: int = 300) -> list[str]:
    with ThreadPoolExecutor(max_workers=NPROC) as ex:
        futs = [ex.submit(coq_eval, f'{name}_{i}', t, timeout) for i, t in enumerate(texts)]
        return [f.result() for f in futs]


def parse_eval(out: str) -> list[str]:
    """Split coqc output into the printed values of successive `Eval`s (whitespace-normalised)."""
    vals = []
    for chunk in re.split(r'(?m)^\s*= ', out)[1:]:
        chunk = re.split(r'(?m)^\s*: ', chunk)[0]
        vals.append(' '.join(chunk.split()))
    return vals


def parse_coq_list(s: str) -> list[str]:
    """'[a; b; c]' (flat) -> ['a','b','c'] with %nat/%Z/%N suffixes removed."""
    s = s.strip()
    assert s.startswith('[') and s.endswith(']'), s
    body = s[1:-1].strip()
    if not body:
        return []
    return [re.sub(r'%(nat|Z|N|positive)', '', x).strip() for x in body.split(';')]


# Coq literal helpers -------------------------------------------------------------------

def zlit(n: int) -> str:
    return f'({n})%Z' if n < 0 else f'{n}%Z'


def nlit(n: int) -> str:
    assert n >= 0
    return f'{n}%N'


def natlit(n: int) -> str:
    assert 0 <= n < 5000, 'nat literal too large'
    return f'{n}%nat'


def blit(b: bool) -> str:
    return 'true' if b else 'false'


def listlit(xs: Iterable[str]) -> str:
    return '[' + '; '.join(xs) + ']'


def byteslit(bs: bytes) -> str:
    return '[' + ';'.join(str(b) for b in bs) + ']%N'


def optlit(x: Optional[str]) -> str:
    return 'None' if x is None else f'(Some {x})'


# theorem list / assumptions --------------------------------------------------------------

THM_RE = re.compile(r'(?m)^\s*Theorem\s+([A-Za-z0-9_\']+)')


def props_theorems(prop: str) -> list[str]:
    f = COQ / 'theories' / prop / 'Props.v'
    return THM_RE.findall(f.read_text())


FORBIDDEN = re.compile(r'\b(Admitted|admit|Axiom|Axioms|Parameter|Parameters|Conjecture|Conjectures|Admit Obligations|'
                       r'Unset Guard Checking|Unset Positivity Checking|Unset Universe Checking|bypass_check|'
                       r'type-in-type|impredicative-set|native_compute)\b')


def dep_closure(prop: str) -> list[Path]:
    """The .v files theories/<prop>/Props.v transitively Requires (Slsk.* and SlskGen.* only)."""
    seen: dict[Path, None] = {}
    todo = [COQ / 'theories' / prop / 'Props.v']
    while todo:
        f = todo.pop()
        if f in seen or not f.exists():
            continue
        seen[f] = None
        txt = _strip_comments(f.read_text())
        for m in re.finditer(r'(?:From\s+(\S+)\s+)?Require\s+(?:Import\s+|Export\s+)?(.*?)\.(?=\s|$)', txt, re.S):
            frm, names = m.group(1), m.group(2).split()
            for n in names:
                parts = n.split('.')
                if parts[0] in ('Slsk', 'SlskGen'):
                    frm2, parts = parts[0], parts[1:]
                elif frm:
                    frm2 = frm
                else:
                    continue
                base = COQ / ('theories' if frm2 == 'Slsk' else 'gen')
                todo.append(base.joinpath(*parts).with_suffix('.v'))
    return list(seen)


def lint_sources(dirs: Sequence[Path], files: Optional[Sequence[Path]] = None) -> list[str]:
    """No Admitted/Axiom/... anywhere in the given files or directories (comments are stripped
    first); Variable/Hypothesis only inside sections."""
    bad = []
    allfiles = list(files or [])
    for d in dirs:
        allfiles += sorted(d.rglob('*.v'))
    for d in [None]:
        for p in allfiles:
            txt = p.read_text()
            txt = _strip_comments(txt)
            for m in FORBIDDEN.finditer(txt):
                bad.append(f'{p.relative_to(COQ)}: {m.group(0)}')
            depth = 0
            for m in re.finditer(r'(?m)^\s*(Section|End|Module|Variable|Variables|Hypothesis|Hypotheses|Context)\b\s*([A-Za-z0-9_]*)', txt):
                k = m.group(1)
                if k == 'Section':
                    depth += 1
                elif k == 'End':
                    depth = max(0, depth - 1)  # Module End also decrements; Modules are counted too
                elif k == 'Module':
                    depth += 1
                elif depth == 0:
                    bad.append(f'{p.relative_to(COQ)}: {k} outside a section')
    return bad


def _strip_comments(t: str) -> str:
    out = []
    depth = 0
    i = 0
    n = len(t)
    while i < n:
        if t.startswith('(*', i):
            depth += 1
            i += 2
        elif t.startswith('*)', i) and depth:
            depth -= 1
            i += 2
        else:
            if depth == 0:
                out.append(t[i])
            i += 1
    return ''.join(out)


def print_assumptions(prop: str, theorems: Sequence[str]) -> dict[str, list[str]]:
    """theorem -> list of axioms ([] = closed under the global context)."""
    body = [f'Require Import Slsk.{prop}.Props.']
    for t in theorems:
        body.append(f'Print Assumptions {t}.')
    out = coq_eval(f'assum_{prop}', '\n'.join(body) + '\n')
    res: dict[str, list[str]] = {}
    parts = re.split(r'(?=Closed under the global context|Axioms:|Section Variables:)', out)
    parts = [p for p in parts if p.strip()]
    # one block per theorem, in order (a "Section Variables:" block may precede "Axioms:")
    blocks = []
    cur = ''
    for p in parts:
        if p.startswith('Closed under') or (p.startswith('Axioms:') and not cur.startswith('Section Variables:')) or p.startswith('Section Variables:'):
            if cur:
                blocks.append(cur)
            cur = p
        else:
            cur += p
    if cur:
        blocks.append(cur)
    if len(blocks) != len(theorems):
        raise BrokenTie(f'assumptions:{prop}', f'expected {len(theorems)} blocks, got {len(blocks)}: {out[:800]}')
    for t, b in zip(theorems, blocks):
        if b.startswith('Closed under'):
            res[t] = []
        else:
            res[t] = [ln.split(':')[0].strip() for ln in b.splitlines()[1:] if re.match(r'^\S', ln) and ':' in ln]
    return res


# --------------------------------------------------------------------------------------
# verdict protocol
# --------------------------------------------------------------------------------------

def load_known(prop: Optional[str] = None) -> dict:
    """Known findings: the committed per-property files findings/<prop>.json (merged for readers
    into known_findings.json by tools/mkmanifest.py).  Only read at run time, never written."""
    known, fixed = [], []
    files = [VERIF / 'findings' / f'{prop}.json'] if prop else sorted((VERIF / 'findings').glob('C*.json'))
    for f in files:
        if f.exists():
            d = json.loads(f.read_text())
            for k in d.get('known', []):
                known.append(dict(k, property=f.stem))
            for k in d.get('fixed', []):
                fixed.append(dict(k, property=f.stem))
    return {'known': known, 'fixed': fixed}


@dataclass
class Finding:
    """A concrete failing input/history on the implementation."""
    key: str                 # stable identifier of the witness class (matched against known_findings)
    what: str                # one line: what fails
    witness: Any             # input / history / schedule (JSON-able)
    observed: Any = None
    expected: Any = None


@dataclass
class Run:
    prop: str
    tier: str
    seed: int
    t0: float = field(default_factory=time.time)
    findings: list = field(default_factory=list)
    broken: list = field(default_factory=list)      # (obligation, detail)
    cov: dict = field(default_factory=dict)
    samples: list = field(default_factory=list)
    seen: set = field(default_factory=set)
    evaluations: int = 0
    distinct_nontrivial: int = 0
    dist: dict = field(default_factory=dict)
    assumptions: list = field(default_factory=list)
    trusted: list = field(default_factory=list)
    obligations: list = field(default_factory=list)
    discharged: list = field(default_factory=list)
    rule: str = ''
    notes: list = field(default_factory=list)

    def __post_init__(self):
        self.rng = random.Random(self.seed * 1000003 + int(hashlib.sha256(self.prop.encode()).hexdigest()[:8], 16))

    # coverage accounting ------------------------------------------------------------
    def case(self, obj: Any, nontrivial: bool = True, kind: str = ''):
        """Count one explored case; distinctness by canonical JSON."""
        self.evaluations += 1
        if kind:
            self.dist[kind] = self.dist.get(kind, 0) + 1
        if nontrivial:
            h = hashlib.sha1(json.dumps(obj, sort_keys=True, default=str).encode()).digest()[:10]
            if h not in self.seen:
                self.seen.add(h)
                self.distinct_nontrivial += 1
                if len(self.samples) < 6 or (self.distinct_nontrivial % 997 == 0 and len(self.samples) < 12):
                    self.samples.append(obj)

    def count(self, kind: str, n: int = 1):
        self.dist[kind] = self.dist.get(kind, 0) + n

    def add_broken(self, obligation: str, detail: str):
        log(f'[{self.prop}] BROKEN {obligation}: {detail[:400]}')
        self.broken.append((obligation, detail))

    def add_finding(self, f: Finding):
        if not any(g.key == f.key for g in self.findings):
            log(f'[{self.prop}] finding {f.key}: {f.what}')
            self.findings.append(f)

    def known_witnesses(self) -> list:
        """(key, witness, is_fixed) of every listed finding of this property, for replay on each run."""
        k = load_known(self.prop)
        return ([(e['key'], e.get('witness'), False) for e in k['known']] +
                [(e['key'], e.get('witness'), True) for e in k['fixed']])

    # L1 -----------------------------------------------------------------------------
    def prove(self, translators: Sequence[str], extra_targets: Sequence[str] = ()) -> bool:
        """Regenerate, build Props.vo of this property, check assumptions. Records broken obligations."""
        targets = [f'theories/{self.prop}/Props.vo'] + list(extra_targets)
        try:
            build(translators, targets)
        except BrokenTie as e:
            try:
                self.obligations = props_theorems(self.prop)
            except Exception:
                pass
            self.add_broken(e.obligation, e.detail)
            return False
        lint = lint_sources([COQ / 'theories' / self.prop], dep_closure(self.prop))
        thms = props_theorems(self.prop)
        self.obligations = thms
        if lint:
            self.add_broken('lint', '; '.join(lint[:10]))
            return False
        try:
            ass = print_assumptions(self.prop, thms)
        except BrokenTie as e:
            self.add_broken(e.obligation, e.detail)
            return False
        ok = True
        if self.tier == 'thorough':
            ok = self.coqchk() and ok
        for t in thms:
            extra = [a for a in ass[t] if a not in ALLOWED_AXIOMS]
            if extra:
                self.add_broken(f'assumptions:{t}', 'depends on ' + ', '.join(extra))
                ok = False
            else:
                self.discharged.append(t)
        return ok

    def coqchk(self) -> bool:
        """Thorough tier: re-check the compiled closure of Props.vo with the independent checker and
        read its axiom summary."""
        p = subprocess.run(['timeout', '1500', 'coqchk', '-silent', '-o', '-Q', str(COQ / 'theories'), 'Slsk',
                            '-Q', str(COQ / 'gen'), 'SlskGen', f'Slsk.{self.prop}.Props'],
                           stdout=subprocess.PIPE, stderr=subprocess.STDOUT, text=True, cwd=COQ)
        out = p.stdout
        m = re.search(r'\* Axioms:(.*?)\n\s*\n\* ', out, re.S)
        axioms = [a.strip() for a in (m.group(1).strip().splitlines() if m else ['?'])]
        axioms = [a for a in axioms if a and a != '<none>']
        self.cov['coqchk'] = {'exit': p.returncode, 'axioms': axioms}
        if p.returncode != 0:
            self.add_broken('coqchk', out[-800:])
            return False
        bad = [a for a in axioms if a not in ALLOWED_AXIOMS]
        if bad:
            self.add_broken('coqchk:axioms', ', '.join(bad))
            return False
        return True

    # verdict ------------------------------------------------------------------------
    def finish(self, level: str = 'proof') -> int:
        known = load_known(self.prop)
        known_keys = {k['key']: k for k in known.get('known', []) if k.get('property') == self.prop}
        rc = 0
        lines = []
        REPLAY_DIR.mkdir(parents=True, exist_ok=True)
        new_findings = []
        for f in self.findings:
            if f.key in known_keys:
                lines.append(f'KNOWN-FINDING: property={self.prop} {f.key}: {f.what}')
            else:
                new_findings.append(f)
        nviol = 0
        for f in new_findings:
            path = REPLAY_DIR / f'{self.prop}_{_slug(f.key)}.json'
            path.write_text(json.dumps({
                'property': self.prop, 'kind': 'counterexample', 'key': f.key, 'what': f.what,
                'witness': f.witness, 'observed': f.observed, 'expected': f.expected,
                'seed': self.seed, 'tier': self.tier,
                'broken_obligations': [b[0] for b in self.broken],
                'cmd': f'./check {self.prop} --replay {path}'}, indent=1, default=str))
            lines.append(f'VIOLATION property={self.prop} replay={path}')
            nviol += 1
            rc = 1
        if self.broken and not new_findings:
            # A broken obligation explained entirely by listed known findings is still broken:
            # the property is no longer shown to hold beyond them.
            path = REPLAY_DIR / f'{self.prop}_broken_obligation.json'
            path.write_text(json.dumps({
                'property': self.prop, 'kind': 'broken-obligation',
                'obligations': [{'name': b[0], 'detail': b[1]} for b in self.broken],
                'seed': self.seed, 'tier': self.tier,
                'note': 'the theorem / correspondence named here no longer checks against the current source; '
                        'the directed search found no concrete failing input'}, indent=1))
            lines.append(f'VIOLATION property={self.prop} replay={path} no-failing-input-found')
            nviol += 1
            rc = 1
        self.write_evidence(level, nviol)
        for ln in lines:
            print(ln, flush=True)
        if rc == 0:
            print(f'OK property={self.prop} tier={self.tier} obligations={len(self.discharged)}/{len(self.obligations)} '
                  f'evaluations={self.evaluations} distinct={self.distinct_nontrivial} wall={time.time()-self.t0:.1f}s', flush=True)
        return rc

    def write_evidence(self, level: str, nviol: int):
        EVIDENCE_DIR.mkdir(parents=True, exist_ok=True)
        cov = {
            'obligations': len(self.obligations),
            'discharged': len(self.discharged),
            'obligation_names': self.obligations,
            'discharged_names': self.discharged,
            'checker_cmd': f'cd {COQ} && make theories/{self.prop}/Props.vo  (coqc 8.16.1, full .vo build) + Print Assumptions per theorem',
            'trusted_base': TRUSTED_BASE_COMMON + self.trusted,
            'evaluations': self.evaluations,
            'distinct_nontrivial': self.distinct_nontrivial,
            'rule': self.rule,
            'samples': self.samples[:12] if self.samples else [{'obligations': self.obligations[:5]}],
            'input_distribution': self.dist,
            'broken_obligations': [b[0] for b in self.broken],
            'findings': [{'key': f.key, 'what': f.what} for f in self.findings],
            'notes': self.notes,
        }
        cov.update(self.cov)
        ev = {
            'property_id': self.prop, 'tier': self.tier, 'seed': self.seed, 'level': level,
            'coverage': cov, 'assumptions': self.assumptions,
            'wall_s': round(time.time() - self.t0, 2), 'violations': nviol,
        }
        (EVIDENCE_DIR / f'{self.prop}.json').write_text(json.dumps(ev, indent=1, default=str))


def _slug(s: str) -> str:
    return re.sub(r'[^A-Za-z0-9_.-]+', '_', s)[:80]


def shrink_list(xs: list, fails: Callable[[list], bool], max_steps: int = 400) -> list:
    """Delta-debugging over a list: smallest sub-list (by removal of chunks) that still fails."""
    xs = list(xs)
    n = 2
    steps = 0
    while len(xs) >= 2 and steps < max_steps:
        chunk = max(1, len(xs) // n)
        reduced = False
        for i in range(0, len(xs), chunk):
            cand = xs[:i] + xs[i + chunk:]
            steps += 1
            if cand and fails(cand):
                xs = cand
                n = max(n - 1, 2)
                reduced = True
                break
        if not reduced:
            if chunk == 1:
                break
            n = min(n * 2, len(xs))
    return xs
