"""C02 — hostile bytes never crash or desynchronise a reader.

L1  theories/C02/Props.v (framing for any bodies / keys / segmentation, reader machine, decoder
    progress and loop bound) on top of C01's decoder over the schema table regenerated from /repo
L2  correspondence through the REAL DataConnection._message_reader_loop / _read / _read_message /
    decode_message_data on vlib.fakes transports: streams mixing valid frames (C01's generator) and
    malformed ones, cut into random segments, on server / peer / distributed / awaiting-init
    connections, obfuscated or not, ending open / with EOF / with a partial frame + EOF; the
    delivered message sequence, what is left in the buffer, and the final (closed, reader alive)
    flags are compared with the model machine `rrun` (vm_compute)
L3  monitors = the property text: each frame that decodes in isolation is delivered exactly once and
    in order, nothing else is; the reader task is alive unless the connection is closed; no
    exception escapes into the loop's exception handler; a bad first frame on an accepted
    connection closes that connection only (real Network.on_peer_accepted via vlib.world.World);
    every message class delivered twice to a fully wired client leaves every reader alive
    (hypothesis handlers_never_cancel of C02_reader_liveness; it failed for WishlistInterval before the F07 repair, whose witness is replayed on every run).
"""
from __future__ import annotations

import json
import struct
import zlib

from vlib import common, vloop, fakes
from vlib.common import Run, Finding, BrokenTie, coq_eval_many, parse_eval, parse_coq_list
from checks import c01_lib as L
from checks.c01 import ref_obf_encode

KINDS = {
    'server': ('server', 'response'),
    'peer': ('peer', 'request'),
    'distributed': ('distributed', 'request'),
    'init': ('peer_init', 'request'),
}
F07_KEY = 'F07-reader-task-cancelled-by-handler:WishlistInterval.Response:second-delivery'


# ----------------------------------------------------------------------------------------
# frame bodies

def table_msgs(lay: dict, kind: str) -> list:
    fam, d = KINDS[kind]
    return [m for m in lay['messages'] if m['family'] == fam and m['dir'] == d]


def valid_body(rng, lay: dict, kind: str):
    m = rng.choice(table_msgs(lay, kind))
    vals = L.gen_message(rng, lay, m, rng.choice(['full', 'none', 'mixed', 'edge']))
    return L.make_obj(lay, m, vals).serialize()[4:], m


def gen_body(rng, lay: dict, kind: str):
    """-> (label, body bytes (everything after the 4-byte length prefix))"""
    msgs = table_msgs(lay, kind)
    r = rng.random()
    if r < 0.45:
        return 'valid', valid_body(rng, lay, kind)[0]
    style = rng.choice(['random', 'truncated', 'bitflip', 'unknown-id', 'short', 'count-lie', 'bad-string', 'corrupt-zlib', 'trailing', 'empty'])
    if style == 'random':
        return style, bytes(rng.randrange(256) for _ in range(rng.choice([4, 5, 8, 13, 40])))
    if style == 'short':
        return style, bytes(rng.randrange(256) for _ in range(rng.randrange(1, 4)))
    if style == 'empty':
        return style, b''
    body, m = valid_body(rng, lay, kind)
    idw = m['id_width']
    if style == 'truncated':
        return style, body[:rng.randrange(0, len(body))] if len(body) > 0 else body
    if style == 'bitflip':
        b = bytearray(body)
        for _ in range(rng.randrange(1, 4)):
            i = rng.randrange(len(b))
            b[i] ^= 1 << rng.randrange(8)
        return style, bytes(b)
    if style == 'unknown-id':
        known = {x['id'] for x in msgs}
        i = rng.choice([x for x in (0xff, 0xfe, 200, 77, 0x7fffffff % (256 ** idw)) if x not in known] or [0xfd])
        return style, i.to_bytes(idw, 'little') + body[idw:]
    if style == 'count-lie':
        b = bytearray(body)
        if len(b) >= idw + 4:
            pos = idw + 4 * rng.randrange(0, max(1, (len(b) - idw) // 4))
            pos = min(pos, len(b) - 4)
            b[pos:pos + 4] = rng.choice([b'\xff\xff\xff\xff', b'\x00\x00\x00\x80', b'\xff\xff\x00\x00', struct.pack('<I', len(b))])
        return style, bytes(b)
    if style == 'bad-string':
        cands = [x for x in msgs if x['fields'] and x['fields'][0]['type'] == 'string']
        if not cands:
            return 'random', bytes(rng.randrange(256) for _ in range(9))
        x = rng.choice(cands)
        bad = rng.choice([b'\xff\xfe', b'\x81', b'\x8d\x90', b'\xc3', b'\xe2\x82', b'\xed\xa0\x80', b'\xf4\x90\x80\x80', b'caf\xe9', b'\x80\x9f\xa0'])
        rest = body[idw:] if rng.random() < 0.5 else b''
        return style, x['id'].to_bytes(x['id_width'], 'little') + struct.pack('<I', len(bad)) + bad + rest
    if style == 'corrupt-zlib':
        cz = [x for x in msgs if x['compressed']]
        if not cz:
            return 'random', bytes(rng.randrange(256) for _ in range(12))
        x = rng.choice(cz)
        vals = L.gen_message(rng, lay, x, 'mixed')
        good = L.make_obj(lay, x, vals).serialize()[4:]
        payload = bytearray(good[x['id_width']:])
        how = rng.choice(['flip', 'cut', 'garbage', 'ok-other'])
        if how == 'flip' and payload:
            payload[rng.randrange(len(payload))] ^= 0x55
        elif how == 'cut':
            payload = payload[:rng.randrange(len(payload))]
        elif how == 'garbage':
            payload = bytearray(rng.randrange(256) for _ in range(10))
        else:
            payload = bytearray(zlib.compress(bytes(rng.randrange(256) for _ in range(rng.choice([0, 3, 20])))))
        return style, good[:x['id_width']] + bytes(payload)
    if style == 'trailing':
        return style, body + bytes(rng.randrange(256) for _ in range(rng.randrange(1, 6)))
    raise AssertionError(style)


def segment(rng, stream: bytes) -> list:
    style = rng.choice(['once', 'bytes', 'random', 'random', 'halves'])
    if style == 'once' or len(stream) < 2:
        return [stream] if stream else []
    if style == 'bytes' and len(stream) <= 120:
        return [stream[i:i + 1] for i in range(len(stream))]
    if style == 'halves':
        k = rng.randrange(1, len(stream))
        return [stream[:k], stream[k:]]
    cuts = sorted(set(rng.randrange(1, len(stream)) for _ in range(rng.randrange(1, 12))))
    out, p = [], 0
    for c in cuts + [len(stream)]:
        out.append(stream[p:c])
        p = c
    return [c for c in out if c]


# ----------------------------------------------------------------------------------------
# the real reader

class StubNetwork:
    """Stands for Network: records what the connection reports.  `raise_every` makes the message
    callback raise an Exception for every k-th message (the reader must log and go on)."""

    def __init__(self, raise_every=0):
        self.msgs = []
        self.states = []
        self.raise_every = raise_every

    async def on_message_received(self, message, connection):
        self.msgs.append(message)
        if self.raise_every and len(self.msgs) % self.raise_every == 0:
            raise RuntimeError('handler failed')

    async def on_state_changed(self, state, connection, close_reason=None):
        self.states.append((state.name, getattr(close_reason, 'name', None)))


def run_real(kind: str, obf: bool, chunks: list, ending: str, partial: bytes, raise_every: int, cur_lay: dict):
    """Feed the chunks to a real connection of the given kind; returns the observation dict."""
    from aioslsk.network.connection import ServerConnection, PeerConnection, PeerConnectionState, PeerConnectionType
    loop = vloop.new_loop()
    net = fakes.FakeNet().install()
    try:
        stub = StubNetwork(raise_every)
        ep = fakes.Endpoint(net)
        net.connect_handler = lambda h, p: ep
        if kind == 'server':
            conn = ServerConnection('server.test', 2416, stub, obfuscated=obf)
        else:
            ctype = PeerConnectionType.DISTRIBUTED if kind == 'distributed' else PeerConnectionType.PEER
            conn = PeerConnection('10.0.0.9', 40000, stub, obfuscated=obf, connection_type=ctype)
        loop.run_coro(conn.connect())
        if kind in ('server', 'init'):
            loop.call_soon(conn.start_reader_task)
        else:
            loop.call_soon(conn.set_connection_state, PeerConnectionState.ESTABLISHED)
        loop.run_ready(5)
        eff_obf = bool(conn.obfuscated)
        for c in chunks:
            ep.feed(c)
            loop.run_ready(60)
        loop.run_ready(60)
        leftover = len(ep.reader._buffer)
        if ending in ('eof', 'partial-eof'):
            if ending == 'partial-eof':
                ep.feed(partial)
                loop.run_ready(20)
            ep.feed_eof()
            loop.run_ready(80)
        task = conn._reader_task
        fam, d = KINDS[kind]
        byname = L.msg_by_name(cur_lay)
        delivered = []
        for msg in stub.msgs:
            name = type(msg).__qualname__
            m = byname.get(name)
            delivered.append((name, L.obj_vals(cur_lay, m, msg) if m else None))
        return {'delivered': delivered, 'objs': list(stub.msgs), 'leftover': leftover,
                'reader_alive': task is not None and not task.done(),
                'closed': conn.state.name == 'CLOSED', 'state': conn.state.name, 'writer_closed': ep.client_closed,
                'unhandled': [str(c.get('exception') or c.get('message')) for c in loop.unhandled], 'eff_obf': eff_obf,
                'states': stub.states}
    finally:
        net.uninstall()
        vloop.close_loop(loop)


class BudgetExceeded(KeyboardInterrupt):
    """Raised by the CPU-time budget (ITIMER_VIRTUAL): derives from KeyboardInterrupt so that neither the library's
    `except Exception` clauses nor asyncio's task machinery swallow it."""


class cpu_budget:
    """`with cpu_budget(seconds):` -- the block may use that much CPU time of this process; beyond it BudgetExceeded
    is raised inside whatever Python code is running (a parser spinning on a lying element count).  CPU time, not
    wall time: a loaded machine cannot trip it."""

    def __init__(self, seconds: float):
        self.seconds = seconds

    def __enter__(self):
        import signal

        def on_alarm(signum, frame):
            raise BudgetExceeded(f'more than {self.seconds} s of CPU time')
        self._old = signal.signal(signal.SIGVTALRM, on_alarm)
        signal.setitimer(signal.ITIMER_VIRTUAL, self.seconds)
        return self

    def __exit__(self, *exc):
        import signal
        signal.setitimer(signal.ITIMER_VIRTUAL, 0)
        signal.signal(signal.SIGVTALRM, self._old)
        return False


def termination_probes(run: Run, lay: dict) -> bool:
    """"Whatever bytes a server or peer sends, parsing terminates": for every class with an array (or string) field of
    every reader table, frames whose element count / string length lies (0xFFFFFFFF, 0x7FFFFFFF, 2^24) with next to
    nothing behind it are decoded under a CPU budget.  Returns False when a parser did not terminate (the in-process
    stream scenarios are then skipped: they would hang on the same input)."""
    ok = True
    for kind in KINDS:
        for m in table_msgs(lay, kind):
            pos = next((i for i, f in enumerate(m['fields']) if isinstance(f['type'], dict) or f['type'] in ('string', 'bytearr')), None)
            if pos is None or m['compressed']:
                continue
            vals = L.gen_message(run.rng, lay, m, 'full')
            body = L.make_obj(lay, m, vals).serialize()[4:]
            # bytes of the fields in front of the first counted field: re-encode the message with that field emptied
            idw = m['id_width']
            for lie in (0xFFFFFFFF, 1 << 24):
                # overwrite every aligned-looking uint32 position once: one of them is the count
                for off in range(idw, min(len(body) - 3, idw + 20)):
                    frame_body = body[:off] + struct.pack('<I', lie) + body[off + 4:off + 6]
                    plain = struct.pack('<I', len(frame_body)) + frame_body
                    try:
                        with cpu_budget(4.0):
                            isolated_decode(kind, plain)
                    except BudgetExceeded:
                        run.add_finding(Finding(f'parsing-does-not-terminate:{m["name"]}',
                                                f'{kind} connection: a {len(plain)}-byte {m["name"]} frame whose count/length field says {lie:#x} keeps the parser busy for more than '
                                                '4 s of CPU time (the loop runs inside the event loop: every connection starves)',
                                                {'scenario': 'termination', 'kind': kind, 'plain': plain.hex(), 'class': m['name']},
                                                observed='no result within the CPU budget', expected='a message or a rejection, in time linear in the frame length'))
                        return False
                    run.case({'termination': [kind, m['name'], lie, off]}, kind='termination-probe')
    return ok


def isolated_decode(kind: str, plain: bytes):
    """The frame decoded on its own by the connection's deserializer (oracle of `decodable`)."""
    import aioslsk.protocol.messages as M
    fam, d = KINDS[kind]
    cls = {'server': M.ServerMessage, 'peer': M.PeerMessage, 'distributed': M.DistributedMessage, 'peer_init': M.PeerInitializationMessage}[fam]
    fn = cls.deserialize_response if d == 'response' else cls.deserialize_request
    try:
        return fn(plain)
    except Exception:
        return None


def gen_scenario(rng, lay: dict, kind: str):
    obf = kind != 'distributed' and rng.random() < 0.5
    nframes = rng.choice([1, 2, 3, 5, 8])
    items = [gen_body(rng, lay, kind) for _ in range(nframes)]
    if rng.random() < 0.5:
        items.append(('valid', valid_body(rng, lay, kind)[0]))     # something decodable behind the garbage
    plains = [struct.pack('<I', len(b)) + b for _, b in items]
    wire = [ref_obf_encode(bytes(rng.randrange(256) for _ in range(4)), p) if obf else p for p in plains]
    stream = b''.join(wire)
    chunks = segment(rng, stream)
    ending = rng.choice(['open', 'open', 'eof', 'partial-eof'])
    partial = b''
    if ending == 'partial-eof':
        extra = struct.pack('<I', 50) + bytes(rng.randrange(256) for _ in range(rng.randrange(0, 30)))
        extra = ref_obf_encode(b'\x01\x02\x03\x04', extra) if obf else extra
        partial = extra[:rng.randrange(1, len(extra))]
    raise_every = rng.choice([0, 0, 1, 2])
    return {'kind': kind, 'obf': obf, 'labels': [l for l, _ in items], 'plains': plains, 'chunks': chunks, 'ending': ending,
            'partial': partial, 'raise_every': raise_every}


def misdecoded_valid(sc: dict):
    """A frame produced by the real serializer from an in-domain message must decode (it is the frame the property
    calls valid) and decode to that message: re-serialising what was decoded gives the frame back."""
    for label, p in zip(sc['labels'], sc['plains']):
        if label in ('valid', 'large-valid'):
            d = isolated_decode(sc['kind'], p)
            try:
                if d is None or d.serialize() != p:
                    return p
            except Exception:
                return p
    return None


def violates(sc: dict, obs: dict) -> bool:
    if misdecoded_valid(sc) is not None:
        return True
    expected = [e for e in (isolated_decode(sc['kind'], p) for p in sc['plains']) if e is not None]
    got = obs['objs']
    if len(got) != len(expected) or any(type(a) is not type(b) or a != b for a, b in zip(got, expected)):
        return True
    if obs['unhandled']:
        return True
    if sc['ending'] == 'open':
        return not obs['reader_alive'] or obs['closed'] or obs['writer_closed']
    return obs['reader_alive'] or not obs['closed'] or not obs['writer_closed']


def shrink_scenario(sc: dict, lay: dict) -> dict:
    """Smallest sub-list of frames (delivered in one chunk, fixed key) on which the property still fails."""
    from vlib.common import shrink_list

    def build(pairs):
        plains = [p for _, p in pairs]
        wire = [ref_obf_encode(b'\x11\x22\x33\x44', p) if sc['obf'] else p for p in plains]
        return dict(sc, plains=plains, labels=[l for l, _ in pairs], chunks=[b''.join(wire)] if wire else [])

    def fails(pairs):
        cand = build(pairs)
        try:
            return violates(cand, run_real(cand['kind'], cand['obf'], cand['chunks'], cand['ending'], cand['partial'], cand['raise_every'], lay))
        except Exception:
            return False
    pairs = list(zip(sc['labels'], sc['plains']))
    try:
        if not fails(pairs):
            return sc
        return build(shrink_list(pairs, fails, max_steps=60))
    except Exception:
        return sc


def directed_scenarios(rng, lay: dict) -> list:
    """Scenarios that every run contains whatever the seed: for every compressed message class a frame with a
    corrupt / truncated / non-zlib payload followed by a valid frame; for every connection kind an
    undecodable frame of each exception family (short id, unknown id, lying count, bad string) followed
    by a valid frame."""
    out = []

    def mk(kind, obf, items, ending='open'):
        plains = [struct.pack('<I', len(b)) + b for _, b in items]
        wire = [ref_obf_encode(bytes(rng.randrange(256) for _ in range(4)), p) if obf else p for p in plains]
        stream = b''.join(wire)
        k = rng.randrange(1, len(stream))
        return {'kind': kind, 'obf': obf, 'labels': [l for l, _ in items], 'plains': plains, 'chunks': [stream[:k], stream[k:]],
                'ending': ending, 'partial': b'', 'raise_every': 0}
    for kind in KINDS:
        for x in [m for m in table_msgs(lay, kind) if m['compressed']]:
            good = L.make_obj(lay, x, L.gen_message(rng, lay, x, 'full')).serialize()[4:]
            idb, payload = good[:x['id_width']], good[x['id_width']:]
            flipped = bytearray(payload)
            flipped[len(flipped) // 2] ^= 0x5a
            for label, body in (('corrupt-zlib-flip', idb + bytes(flipped)), ('corrupt-zlib-cut', idb + payload[:len(payload) // 2]),
                                ('corrupt-zlib-garbage', idb + b'not zlib at all'), ('corrupt-zlib-empty', idb)):
                for obf in ((False, True) if kind != 'distributed' else (False,)):
                    out.append(mk(kind, obf, [(label, body), ('valid', valid_body(rng, lay, kind)[0])]))
        # one valid frame of EVERY class the connection can receive (smallest value: empty bodies, 5-byte frames ...)
        allf = [('valid', L.make_obj(lay, m, L.gen_message(rng, lay, m, 'none')).serialize()[4:]) for m in table_msgs(lay, kind)]
        for obf in ((False, True) if kind != 'distributed' else (False,)):
            for i in range(0, len(allf), 24):
                out.append(mk(kind, obf, allf[i:i + 24]))
        seen = set()
        tries = 0
        while len(seen) < 6 and tries < 400:
            tries += 1
            label, body = gen_body(rng, lay, kind)
            if label in ('valid', 'trailing', 'corrupt-zlib', 'bitflip') or label in seen:
                continue
            seen.add(label)
            out.append(mk(kind, kind != 'distributed' and len(seen) % 2 == 0, [(label, body), ('valid', valid_body(rng, lay, kind)[0])]))
    return out


LARGE = 64 * 1024


def large_scenarios(rng, lay: dict, per_kind: int) -> list:
    """Frames whose body exceeds 64 KiB (a valid message with one huge string / blob field, or hostile filler
    under an unknown id) followed by an ordinary valid frame, delivered in TCP segments far smaller than the
    body, so that any read of `n` bytes returns short; on every connection kind, obfuscated or not."""
    out = []
    for kind in KINDS:
        msgs = table_msgs(lay, kind)
        for j in range(per_kind):
            obf = kind != 'distributed' and j % 2 == 1
            size = rng.choice([LARGE + 1, LARGE + 4096, 70000, 2 * LARGE + 17, 150000])
            items = []
            if j % 3 != 2:
                cands = [m for m in msgs if not m['compressed'] and any(f['type'] in ('string', 'bytearr') and f['cond'] is None and not f['optional']
                                                                       for f in m['fields'])]
                m = rng.choice(cands)
                vals = L.gen_message(rng, lay, m, 'full')
                # the first mandatory string / blob field becomes huge
                for i, f in enumerate(m['fields']):
                    if f['type'] == 'string' and f['cond'] is None and not f['optional']:
                        vals[i] = ''.join(rng.choice('abcdefgh \u00e9') for _ in range(64)) * (size // 64 + 1)
                        break
                    if f['type'] == 'bytearr' and f['cond'] is None and not f['optional']:
                        vals[i] = {'hex': bytes(rng.randrange(256) for _ in range(256)).hex() * (size // 256 + 1)}
                        break
                items.append(('large-valid', L.make_obj(lay, m, vals).serialize()[4:]))
            else:
                idw = msgs[0]['id_width']
                known = {x['id'] for x in msgs}
                uid = next(x for x in (0xfe, 0xfd, 0xfc, 0xfb) if x not in known)
                items.append(('large-unknown-id', uid.to_bytes(idw, 'little') + bytes(rng.randrange(256) for _ in range(97)) * (size // 97 + 1)))
            items.append(('valid', valid_body(rng, lay, kind)[0]))
            if j % 2 == 0:
                items.insert(0, ('valid', valid_body(rng, lay, kind)[0]))
            plains = [struct.pack('<I', len(b)) + b for _, b in items]
            wire = [ref_obf_encode(bytes(rng.randrange(256) for _ in range(4)), p) if obf else p for p in plains]
            stream = b''.join(wire)
            chunks, pos = [], 0
            style = j % 3
            while pos < len(stream):
                n = rng.choice([1460, 1460, 4096, 8192]) if style == 0 else rng.randrange(500, 40000) if style == 1 else rng.choice([LARGE - 1, 30000, 7])
                chunks.append(stream[pos:pos + n])
                pos += n
            out.append({'kind': kind, 'obf': obf, 'labels': [l for l, _ in items], 'plains': plains, 'chunks': chunks,
                        'ending': rng.choice(['open', 'eof']), 'partial': b'', 'raise_every': 0, 'large': True})
    return out


def cross_family_scenarios(rng, lay: dict) -> list:
    """The decoder of one connection must not depend on what OTHER connections received earlier (the model's
    dispatcher is a function of the frame alone).  For every ordered pair of connection kinds (A, B): a frame on
    an A connection whose message code is unknown to A's family but valid in B's, followed by a valid A frame;
    then, on a B connection, valid frames carrying that very code.  The B scenario records the A scenario as
    its `prelude`, so that a replay in a fresh process reproduces the history."""
    out = []
    for a in KINDS:
        ids_a = {m['id'] for m in table_msgs(lay, a)}
        wa = table_msgs(lay, a)[0]['id_width'] if a not in ('distributed',) else 1
        for b in KINDS:
            if a == b:
                continue
            cands = [m for m in table_msgs(lay, b) if m['id'] not in ids_a and m['id'] < 256 ** wa]
            rng.shuffle(cands)
            for m in cands[:2]:
                def mk(kind, items):
                    plains = [struct.pack('<I', len(x)) + x for _, x in items]
                    return {'kind': kind, 'obf': False, 'labels': [l for l, _ in items], 'plains': plains, 'chunks': [b''.join(plains)],
                            'ending': 'open', 'partial': b'', 'raise_every': 0}
                foreign = m['id'].to_bytes(wa, 'little') + bytes(rng.randrange(256) for _ in range(6))
                sa = mk(a, [('code-of-another-family', foreign), ('valid', valid_body(rng, lay, a)[0])])
                vb = L.make_obj(lay, m, L.gen_message(rng, lay, m, 'full')).serialize()[4:]
                sb = mk(b, [('valid', vb), ('valid', valid_body(rng, lay, b)[0])])
                sb['prelude'] = [sa]
                out += [sa, sb]
    return out


def monitor(run: Run, sc: dict, obs: dict, lay: dict):
    """Property text on one real run."""
    expected = [isolated_decode(sc['kind'], p) for p in sc['plains']]
    expected = [e for e in expected if e is not None]
    if violates(sc, obs) and not any(f.key.endswith(':' + sc['kind']) for f in run.findings):
        small = shrink_scenario(sc, lay)
        if small is not sc:
            sc = small
            obs = run_real(sc['kind'], sc['obf'], sc['chunks'], sc['ending'], sc['partial'], sc['raise_every'], lay)
            expected = [e for e in (isolated_decode(sc['kind'], p) for p in sc['plains']) if e is not None]
    wit = scenario_witness(sc)
    got = obs['objs']
    bad_valid = misdecoded_valid(sc)
    if bad_valid is not None:
        d = isolated_decode(sc['kind'], bad_valid)
        run.add_finding(Finding(f'valid-frame-not-decoded-to-its-message:{sc["kind"]}',
                                f'{sc["kind"]} connection: a frame written by the real serializer ' +
                                ('is rejected by the reader' if d is None else f'is delivered as a different {type(d).__qualname__} (re-serialising it gives other bytes)'),
                                wit, observed=None if d is None else d.serialize().hex()[:400], expected=bad_valid.hex()[:400]))
    if len(got) != len(expected) or any(type(a) is not type(b) or a != b for a, b in zip(got, expected)):
        run.add_finding(Finding(f'frames-not-delivered-once-in-order:{sc["kind"]}',
                                f'{sc["kind"]} connection: delivered {len(got)} messages, the stream holds {len(expected)} decodable frames '
                                f'(frame kinds {sc["labels"]})', wit,
                                observed=[type(x).__qualname__ for x in got], expected=[type(x).__qualname__ for x in expected]))
    if obs['unhandled']:
        run.add_finding(Finding(f'exception-escaped-reader:{sc["kind"]}', f'exception reached the event loop handler: {obs["unhandled"][:2]}', wit,
                                observed=obs['unhandled'][:3]))
    if sc['ending'] == 'open':
        if not obs['reader_alive'] or obs['closed'] or obs['writer_closed']:
            run.add_finding(Finding(f'reader-stopped-on-open-connection:{sc["kind"]}',
                                    f'after the stream the reader task is {"alive" if obs["reader_alive"] else "gone"} and the connection is {obs["state"]}',
                                    wit, observed={'reader_alive': obs['reader_alive'], 'state': obs['state']}, expected='reader alive, CONNECTED'))
    else:
        if obs['reader_alive'] or not obs['closed'] or not obs['writer_closed']:
            run.add_finding(Finding(f'eof-not-closed:{sc["kind"]}', f'after EOF: reader alive={obs["reader_alive"]} state={obs["state"]}', wit))


def scenario_witness(sc: dict) -> dict:
    return {'kind': sc['kind'], 'obf': sc['obf'], 'plains': [p.hex() for p in sc['plains']], 'wire': b''.join(sc['chunks']).hex(),
            'chunk_sizes': [len(c) for c in sc['chunks']],
            'ending': sc['ending'], 'partial': sc['partial'].hex(), 'raise_every': sc['raise_every'], 'labels': sc['labels'], 'scenario': 'stream',
            'prelude': [scenario_witness(p) for p in sc.get('prelude', [])]}


def witness_chunks(wit: dict) -> list:
    if 'chunks' in wit:
        return [bytes.fromhex(x) for x in wit['chunks']]
    wire, out, pos = bytes.fromhex(wit['wire']), [], 0
    for n in wit['chunk_sizes']:
        out.append(wire[pos:pos + n])
        pos += n
    return out


# ----------------------------------------------------------------------------------------
# model side

def coq_cases(scs: list, cur: dict) -> list:
    byname = L.msg_by_name(cur)
    shards, rows, zd, size = [], [], [], 0

    def flush():
        nonlocal rows, zd, size
        if rows:
            shards.append(L.CASES_PRELUDE + 'From Slsk Require Import C02.Model.\nFrom SlskGen Require Import ConnGen.\n' +
                          f'Definition zd := zd_of {L.coq_table(zd, none_ok=True)}.\n'
                          'Definition D (fd : family * direction) (bs : bytes) : option (string * list value) :=\n'
                          ' match dispatch zd (table all_schemas (fst fd) (snd fd)) (gen_fam_width (fst fd)) bs with\n'
                          ' | Some (s, m) => Some (sname s, m) | None => None end.\n'
                          'Fixpoint dl_eqb (a b : list (string * list value)) : bool := match a, b with\n'
                          ' | [], [] => true | (n, m) :: a\', (n\', m\') :: b\' => andb (andb (String.eqb n n\') (values_eqb m m\')) (dl_eqb a\' b\') | _, _ => false end.\n'
                          'Definition case := (bool * (family * direction) * hout * list ev * list (string * list value) * (bool * bool * option nat))%type.\n'
                          'Definition cases : list (nat * case) := [\n' + ';\n'.join(rows) + '].\n'
                          'Definition bad (c : case) : bool := let \'(obf, fd, hm, evs, exp, (cl, al, rest)) := c in\n'
                          ' let s := rrun obf (D fd) (fun _ _ => hm) evs in\n'
                          ' negb (andb (andb (dl_eqb (rdelivered s) exp) (andb (Bool.eqb (rclosed s) cl) (Bool.eqb (rrunning s) al)))\n'
                          '            (match rest with Some n => Nat.eqb (List.length (rbuf s)) n | None => true end)).\n'
                          'Eval vm_compute in (indices_where bad cases).\n')
        rows, zd, size = [], [], 0

    for idx, (sc, obs) in enumerate(scs):
        if sc.get('large'):
            continue     # > 64 KiB literals are too heavy for coqc; these runs are judged by the monitor (property text)
        fd = '(reader_table ' + {'server': 'KServer', 'init': 'KAwaitingInit', 'peer': 'KPeer', 'distributed': 'KDistributed'}[sc['kind']] + ')'
        evs = [f'Chunk {L.coq_bytes(c)}' for c in sc['chunks']]
        if sc['ending'] == 'partial-eof':
            evs.append(f'Chunk {L.coq_bytes(sc["partial"])}')
        if sc['ending'] != 'open':
            evs.append('Eof')
        exp = []
        ok = True
        for name, vals in obs['delivered']:
            if name not in byname or vals is None:
                ok = False
                break
            exp.append(f'("{name}"%string, {L.coq_msg(cur, byname[name], vals)})')
        if not ok:
            continue
        rest = 'None' if sc['ending'] != 'open' else f'(Some {obs["leftover"]}%nat)'
        row = (f' ({idx}%nat, ({"true" if obs["eff_obf"] else "false"}, {fd}, {"HRaises" if sc["raise_every"] else "HOk"}, [' + '; '.join(evs) +
               '], [' + '; '.join(exp) + f'], ({"true" if obs["closed"] else "false"}, {"true" if obs["reader_alive"] else "false"}, {rest})))')
        # zlib oracle for the compressed classes of this table
        for p in sc['plains']:
            for m in table_msgs(cur, sc['kind']):
                if m['compressed'] and len(p) >= 4 + m['id_width'] and int.from_bytes(p[4:4 + m['id_width']], 'little') == m['id']:
                    payload = p[4 + m['id_width']:]
                    try:
                        zd.append((payload, zlib.decompress(payload)))
                    except Exception:
                        zd.append((payload, None))
        rows.append(row)
        size += len(row)
        if size > 80000 or len(rows) >= 40:
            flush()
    flush()
    return shards


# ----------------------------------------------------------------------------------------
# full client: accept path, handler hypothesis, F07

class Recorder:
    def __init__(self):
        self.events = []

    def on_event(self, e):
        self.events.append(e)


def accept_scenarios(run: Run, w, lay: dict):
    """Bad / good first frames on accepted connections next to an established one."""
    from aioslsk.protocol.messages import PeerInit, PeerPierceFirewall
    net = w.client.network
    port = w.settings.network.listening.port
    oport = w.settings.network.listening.obfuscated_port
    ep0 = w.net.incoming(port, peername=('10.0.0.50', 41050))
    w.settle(10)
    ep0.feed(PeerInit.Request(username='friend', typ='P', ticket=0).serialize())
    w.settle(30)
    base = [c for c in net.peer_connections]
    if len(base) != 1 or ep0.client_closed:
        run.add_finding(Finding('accept:valid-init-not-established', 'a valid PeerInit on an accepted connection did not establish it',
                                {'scenario': 'accept', 'first': 'PeerInit'}))
        return []
    rows = []
    firsts = [
        ('undecodable-random', b'\x07\x00\x00\x00' + bytes(run.rng.randrange(2, 256) for _ in range(7)), 'FUndecodable'),
        ('unknown-init-id', struct.pack('<I', 5) + b'\x09abcd', 'FUndecodable'),
        ('zero-length', struct.pack('<I', 0), 'FUndecodable'),
        ('truncated-peerinit', (lambda b: struct.pack('<I', len(b) - 4 - 3) + b[4:-3])(PeerInit.Request(username='u', typ='P', ticket=1).serialize()), 'FUndecodable'),
        ('peer-message-instead-of-init', struct.pack('<I', 4) + struct.pack('<I', 4), 'FUndecodable'),
        ('pierce-unknown-ticket', PeerPierceFirewall.Request(ticket=run.rng.randrange(1 << 32)).serialize(), 'FPierceUnknown'),
        ('eof-before-frame', None, 'FEofOrError'),
        ('partial-then-eof', b'\x10\x00\x00', 'FEofOrError'),
        ('valid-peerinit', PeerInit.Request(username='other', typ='P', ticket=0).serialize(), 'FInit'),
        ('valid-peerinit-uint64-ticket', (lambda b: struct.pack('<I', len(b) - 4 + 4) + b[4:] + b'\x00\x00\x00\x00')(PeerInit.Request(username='o2', typ='P', ticket=5).serialize()), 'FInit'),
    ]
    for label, first, outcome in firsts:
        for obf in (False, True):
            before = list(net.peer_connections)
            ep = w.net.incoming(oport if obf else port, peername=('10.0.0.60', 42000 + len(rows)))
            w.settle(10)
            if first is None:
                ep.feed_eof()
            else:
                data = ref_obf_encode(bytes(run.rng.randrange(256) for _ in range(4)), first) if obf else first
                k = run.rng.randrange(1, len(data)) if len(data) > 1 else 1
                ep.feed(data[:k])
                w.settle(5)
                ep.feed(data[k:])
                if label == 'partial-then-eof':
                    ep.feed_eof()
            w.settle(60)
            after = list(net.peer_connections)
            new = [c for c in after if c not in before]
            open_after = bool(new) and not ep.client_closed
            others_same = all(c in after for c in before) and not ep0.client_closed and \
                all(c._reader_task is not None and not c._reader_task.done() for c in before if c.connection_state.name == 'ESTABLISHED')
            wit = {'scenario': 'accept', 'first': label, 'obf': obf, 'bytes': first.hex() if first else None}
            run.case(wit, kind='accept-first-frame')
            expect_open = outcome in ('FInit', 'FPierceKnown')
            if open_after != expect_open:
                run.add_finding(Finding(f'accept:first-frame:{label}', f'accepted connection with first frame {label}: '
                                        f'{"stays open" if open_after else "is closed"}, expected {"open" if expect_open else "closed"}', wit))
            if not others_same:
                run.add_finding(Finding(f'accept:other-connections-affected:{label}', 'a bad first frame on one accepted connection affected another connection', wit))
            if not open_after and (not ep.client_closed or new):
                run.add_finding(Finding(f'accept:not-cleaned-up:{label}', 'rejected accepted connection is still registered or its transport is open', wit))
            rows.append((outcome, open_after, len(after) - len(before)))
            # keep the registry small: close what was established by this scenario
            for c in new:
                w.run(c.disconnect())
    return rows


def coq_accept(rows) -> str:
    body = '; '.join(f'({o}, {"true" if op else "false"}, {n}%nat)' for o, op, n in rows)
    return (L.CASES_PRELUDE + 'From Slsk Require Import C02.Model.\n'
            f'Definition rows : list (first_outcome * bool * nat) := [{body}].\n'
            'Definition bad (r : first_outcome * bool * nat) : bool := let \'(o, op, n) := r in\n'
            ' negb (andb (Bool.eqb (conn_open_after o) op) (Nat.eqb (List.length (accept [] 7%nat o)) n)).\n'
            'Eval vm_compute in (List.length (filter bad rows)).\n')


class Listeners:
    """User-side event listeners of different temper, held strongly (the bus keeps weak references)."""

    def __init__(self, w):
        self.w = w
        self.seen = []
        self.late_seen = []
        self.reentered = 0

    def record(self, e):
        self.seen.append(type(e.message).__qualname__)

    async def suspending(self, e):
        import asyncio
        await asyncio.sleep(0)
        await asyncio.sleep(0)

    async def raising_async(self, e):
        raise RuntimeError('listener failed')

    def raising_sync(self, e):
        raise KeyError('listener failed')

    async def reentrant(self, e):
        # a listener that itself sends on the connection it is called for and emits on the bus
        from aioslsk.protocol.messages import Ping
        from aioslsk.events import PrivilegedUsersEvent
        self.reentered += 1
        e.connection.queue_message(Ping.Request())
        await self.w.client.events.emit(PrivilegedUsersEvent(users=[]))

    def late(self, e):
        self.late_seen.append(type(e.message).__qualname__)


def listener_scenarios(run: Run, w, lay: dict):
    """The reader must survive, and keep the order, whatever the registered listeners do: suspend, raise
    (sync / async), re-enter the connection and the bus, or get registered after the first delivery."""
    from aioslsk.events import MessageReceivedEvent
    ls = Listeners(w)
    bus = w.client.events
    bus.register(MessageReceivedEvent, ls.suspending, priority=1)
    bus.register(MessageReceivedEvent, ls.raising_async, priority=2)
    bus.register(MessageReceivedEvent, ls.raising_sync, priority=3)
    bus.register(MessageReceivedEvent, ls.reentrant, priority=4)
    bus.register(MessageReceivedEvent, ls.record, priority=5)
    msgs = [m for m in table_msgs(lay, 'server') if m['name'] in ('RoomChatMessage.Response', 'PrivilegedUsers.Response', 'GetUserStatus.Response',
                                                                    'RoomTickerAdded.Response', 'ParentMinSpeed.Response', 'AdminMessage.Response')]
    sent = []
    stream = b''
    for i, m in enumerate(msgs):
        data = L.make_obj(lay, m, L.gen_message(run.rng, lay, m, 'full')).serialize()
        sent.append(m['name'])
        stream += data + struct.pack('<I', 3) + b'\xff\xfe\xfd'      # an undecodable frame between the valid ones
    half = len(stream) // 2
    w.server.feed(stream[:half])
    w.settle(80)
    bus.register(MessageReceivedEvent, ls.late, priority=6)
    n_before_late = len(ls.seen)
    w.server.feed(stream[half:])
    w.settle(200)
    alive, state = server_alive(w)
    wit = {'scenario': 'listeners', 'messages': sent}
    run.case(wit, kind='listeners')
    if not alive and state == 'CONNECTED':
        run.add_finding(Finding('reader-task-ended-by-listener', 'with suspending / raising / re-entrant listeners registered the server reader task has ended while the connection is CONNECTED', wit))
    elif state != 'CONNECTED':
        run.add_finding(Finding('connection-closed-by-listener', f'listeners that raise / suspend made the server connection go {state}', wit))
    if ls.seen != sent:
        run.add_finding(Finding('listeners:messages-not-delivered-once-in-order', 'a recording listener behind suspending / raising / re-entrant listeners did not see every message once, in order',
                                wit, observed=ls.seen, expected=sent))
    if ls.late_seen != sent[n_before_late:]:
        run.add_finding(Finding('listeners:late-listener', 'a listener registered between two deliveries does not see exactly the later messages',
                                wit, observed=ls.late_seen, expected=sent[n_before_late:]))
    for f in (ls.suspending, ls.raising_async, ls.raising_sync, ls.reentrant, ls.record, ls.late):
        bus.unregister(MessageReceivedEvent, f)
    return ls


def server_alive(w) -> tuple:
    c = w.client.network.server_connection
    t = c._reader_task
    return (t is not None and not t.done(), c.state.name)


def handler_hypothesis(run: Run, lay: dict, tier: str):
    """Every message class delivered twice to a fully wired client; a reader task that ends while
    its connection stays open refutes the hypothesis handlers_never_cancel of C02_reader_liveness."""
    from vlib.world import World
    from aioslsk.protocol.messages import PeerInit
    w = None
    accept_rows = []

    def fresh():
        nonlocal w
        if w is not None:
            try:
                w.stop()
            except Exception:
                w.close()
        w = World()
        w.start()
        w.login()
        return w

    try:
        fresh()
        # --- known finding first (deterministic witness)
        for key, wit, _fixed in run.known_witnesses():
            if wit and wit.get('scenario') == 'handler':
                check_handler_witness(run, w, lay, wit)
                fresh()
        accept_rows = accept_scenarios(run, w, lay)
        keep_listeners = listener_scenarios(run, w, lay)   # noqa: F841 (strong reference)
        alive, state = server_alive(w)
        if not alive or state != 'CONNECTED':
            fresh()
        # --- server responses
        reps = 2
        for m in table_msgs(lay, 'server'):
            alive, state = server_alive(w)
            if not alive or state != 'CONNECTED':
                fresh()
            for k in range(reps):
                vals = L.gen_message(run.rng, lay, m, 'mixed')
                try:
                    data = L.make_obj(lay, m, vals).serialize()
                except Exception:
                    continue
                w.server.feed(data)
                w.settle(60)
                alive, state = server_alive(w)
                run.case({'handler': m['name'], 'k': k, 'vals': vals}, kind='handler-hypothesis')
                if not alive and state == 'CONNECTED' and not w.server.client_closed:
                    wit = {'scenario': 'handler', 'conn': 'server', 'messages': [m['name']] * (k + 1)}
                    key = F07_KEY if (m['name'] == 'WishlistInterval.Response' and k == 1) else f'reader-task-ended-by-handler:{m["name"]}:delivery-{k + 1}'
                    run.add_finding(Finding(key, f'after delivery {k + 1} of {m["name"]} the server reader task has ended while the connection is still CONNECTED '
                                            '(later server messages are never read)', wit, observed='reader task done, state CONNECTED', expected='reader alive'))
                    fresh()
                    break
        # --- peer and distributed messages over accepted connections
        for kind, typ in (('peer', 'P'), ('distributed', 'D')):
            port = w.settings.network.listening.port
            ep = conn = None
            for m in table_msgs(lay, kind):
                for k in range(reps):
                    if ep is None or ep.client_closed or conn is None or conn.state.name != 'CONNECTED':
                        ep = w.net.incoming(port, peername=('10.0.0.70', 43000 + run.evaluations % 1000))
                        w.settle(10)
                        before = set(map(id, w.client.network.peer_connections))
                        ep.feed(PeerInit.Request(username=f'peer{run.evaluations}', typ=typ, ticket=0).serialize())
                        w.settle(40)
                        conn = next((c for c in w.client.network.peer_connections if c._writer is ep.writer), None)
                        if conn is None:
                            break
                    vals = L.gen_message(run.rng, lay, m, 'mixed')
                    try:
                        data = L.make_obj(lay, m, vals).serialize()
                    except Exception:
                        continue
                    ep.feed(data)
                    w.settle(60)
                    run.case({'handler': m['name'], 'k': k, 'vals': vals}, kind='handler-hypothesis')
                    t = conn._reader_task
                    if conn.state.name == 'CONNECTED' and not ep.client_closed and conn.connection_state.name == 'ESTABLISHED' and (t is None or t.done()):
                        wit = {'scenario': 'handler', 'conn': kind, 'messages': [m['name']] * (k + 1)}
                        run.add_finding(Finding(f'reader-task-ended-by-handler:{m["name"]}:delivery-{k + 1}',
                                                f'after delivery {k + 1} of {m["name"]} the {kind} reader task has ended while the connection is still CONNECTED', wit))
                        ep = None
                        break
    finally:
        if w is not None:
            try:
                w.stop()
            except Exception:
                w.close()
    return accept_rows


def check_handler_witness(run: Run, w, lay: dict, wit: dict) -> bool:
    """Replay {'conn': 'server', 'messages': [names]} on a fresh wired client."""
    byname = L.msg_by_name(lay)
    for i, name in enumerate(wit['messages']):
        m = byname[name]
        vals = L.gen_message(run.rng if run else __import__('random').Random(0), lay, m, 'full')
        w.server.feed(L.make_obj(lay, m, vals).serialize())
        w.settle(60)
    alive, state = server_alive(w)
    bad = (not alive) and state == 'CONNECTED' and not w.server.client_closed
    if bad and run is not None:
        name = wit['messages'][-1]
        k = len(wit['messages'])
        key = F07_KEY if (name == 'WishlistInterval.Response' and k == 2 and set(wit['messages']) == {name}) else f'reader-task-ended-by-handler:{name}:delivery-{k}'
        run.add_finding(Finding(key, f'after delivery {k} of {name} the server reader task has ended (CancelledError raised inside the handler escapes '
                                '`except Exception`) while the connection is still CONNECTED: later server messages are never read',
                                wit, observed='reader task done, state CONNECTED', expected='reader alive'))
    return bad


# ----------------------------------------------------------------------------------------
def run(run: Run):
    run.rule = ('streams of 1..9 frames per connection kind (server / peer / distributed / awaiting-init; obfuscated or not): ~45% valid '
                'frames from the C01 generator, the rest random / truncated / bit-flipped / unknown id / shorter than the id / lying '
                'array-string counts / invalid UTF-8 and cp1252-undefined bytes / corrupt zlib / trailing bytes / empty; random '
                'segmentation (whole, byte by byte, halves, random cuts); ending open, EOF, partial frame + EOF; callbacks that raise; '
                'frames with bodies of 64 KiB+1 .. 150000 bytes (huge valid string/blob field or hostile filler) in 1460..40000-byte segments '
                '(judged by the monitor only). '
                'distinct = distinct (kind, chunks, ending); non-trivial = at least one undecodable and one decodable frame. '
                'Cross-family: for every ordered pair of connection kinds a frame whose code belongs to the other family, then valid frames '
                'with that code on a connection of that family (decoding must not depend on other connections\' history). '
                'Termination probes: lying count / length fields (0xFFFFFFFF, 0x7FFFFFFF, 2^24) at every offset of every class with a counted '
                'field, decoded under a CPU-time budget. Accept path: 10 first-frame shapes x plain/obfuscated port next to an established connection. Handler hypothesis: '
                'every message class twice through a fully wired client.')
    run.trusted += ['asyncio.StreamReader.readexactly semantics (the real one is used in the correspondence runs)',
                    'zlib (oracle)', 'the hypothesis "no handler raises CancelledError" is established by testing, not proof']
    run.assumptions += ['frame length prefix < 2^32 and the frame fits in memory (no model of memory exhaustion)', 'read timeouts not modelled']
    proved = run.prove(['tr_obf', 'tr_messages', 'tr_c02conn'], extra_targets=['theories/C01/Eval.vo'])
    model_ok = (common.COQ / 'theories' / 'C02' / 'Props.vo').exists() and (common.COQ / 'theories' / 'C01' / 'Eval.vo').exists() and \
        not any(b[0].startswith('translator:') for b in run.broken)
    try:
        from translate import tr_c02conn
        tr_c02conn.check_helper_pins(common.SRC)
    except Exception as e:
        run.add_broken('helper-pins (events / tasks / exceptions / connection state / Network glue / F07 site)', f'{type(e).__name__}: {e}')
    # a broken tie (translator, fingerprint, proof, helper pin) triggers the longer directed search
    eff_tier = 'thorough' if run.broken else run.tier
    pin = L.load_pinned()
    play = pin['layout']
    cur = play
    try:
        from translate import tr_messages
        cur = tr_messages.layout(common.SRC)
    except Exception as e:
        model_ok = False

    # --- full client: F07 witness, accept path, handler hypothesis
    accept_rows = handler_hypothesis(run, play, eff_tier)

    # --- reader loop on fake transports
    n = 28 if eff_tier == 'quick' else 200
    scs = []
    todo = [(sc['kind'], sc) for sc in cross_family_scenarios(run.rng, play)]     # first: nothing else has touched process-wide state yet
    todo += [(sc['kind'], sc) for sc in directed_scenarios(run.rng, play)]
    todo += [(sc['kind'], sc) for sc in large_scenarios(run.rng, play, 3 if eff_tier == 'quick' else 12)]
    for kind in KINDS:
        todo += [(kind, None) for _ in range(n)]
    terminates = termination_probes(run, play)
    if not terminates:
        todo = []       # the same hostile inputs would spin inside the harness process
    if True:
        for kind, sc in todo:
            if sc is None:
                sc = gen_scenario(run.rng, play, kind)
            try:
                with cpu_budget(20.0 if not sc.get('large') else 120.0):
                    obs = run_real(kind, sc['obf'], sc['chunks'], sc['ending'], sc['partial'], sc['raise_every'], cur)
                    [isolated_decode(kind, p) for p in sc['plains']]
            except BudgetExceeded:
                run.add_finding(Finding(f'parsing-does-not-terminate:stream:{kind}', f'{kind} connection: the reader did not get through a stream of frame kinds {sc["labels"]} '
                                        'within 20 s of CPU time', scenario_witness(sc), observed='no result within the CPU budget'))
                break
            except Exception as e:
                run.add_finding(Finding(f'reader-harness-exception:{kind}', f'{type(e).__name__}: {e}', scenario_witness(sc)))
                continue
            labels = set(sc['labels'])
            run.case({'kind': kind, 'chunks': [c.hex() for c in sc['chunks']] if not sc.get('large') else [sc['labels'], [len(c) for c in sc['chunks']][:50], sc['plains'][-1].hex()], 'ending': sc['ending']},
                     nontrivial=('valid' in labels and len(labels) > 1), kind=f'{kind}/{"obf" if sc["obf"] else "plain"}/{sc["ending"]}')
            for lb in sc['labels']:
                run.count('frame:' + lb)
            monitor(run, sc, obs, play)
            scs.append((sc, obs))

    # --- L2
    if model_ok:
        texts = coq_cases(scs, cur)
        if accept_rows:
            texts.append(coq_accept(accept_rows))
        try:
            outs = coq_eval_many('c02', texts, timeout=1500)
            nbad = 0
            for out in (outs[:-1] if accept_rows else outs):
                vals = parse_eval(out)
                if len(vals) != 1:
                    run.add_broken('correspondence:C02 reader', f'unexpected coqc output {out[:300]}')
                    continue
                for i in parse_coq_list(vals[0]):
                    nbad += 1
                    sc, obs = scs[int(i)]
                    if nbad <= 2:
                        run.add_broken('correspondence:C02 _message_reader_loop vs rrun',
                                       json.dumps({'scenario': scenario_witness(sc), 'impl': {k: obs[k] for k in ('delivered', 'leftover', 'reader_alive', 'closed')}}, default=str)[:1800])
            if accept_rows:
                v = parse_eval(outs[-1])
                if not v or v[0].replace('%nat', '').strip() != '0':
                    run.add_broken('correspondence:C02 on_peer_accepted vs accept', f'{accept_rows}')
            run.cov['traces_validated_against_impl'] = len(scs) - nbad
        except BrokenTie as e:
            run.add_broken(e.obligation, e.detail)
    elif not run.broken:
        run.add_broken('correspondence:C02', 'model not built')


# ----------------------------------------------------------------------------------------
def replay(rep: dict) -> int:
    wit = rep['witness']
    lay = L.load_pinned()['layout']
    if wit.get('scenario') == 'handler':
        from vlib.world import World
        w = World()
        try:
            w.start()
            w.login()
            bad = check_handler_witness(None, w, lay, wit)
            alive, state = server_alive(w)
            print('messages:', wit['messages'])
            print('server reader alive:', alive, 'connection state:', state)
            return 1 if bad else 0
        finally:
            try:
                w.stop()
            except Exception:
                w.close()
    if wit.get('scenario') == 'termination':
        plain = bytes.fromhex(wit['plain'])
        try:
            with cpu_budget(4.0):
                r = isolated_decode(wit['kind'], plain)
        except BudgetExceeded:
            print(f"{wit['class']} frame {plain.hex()} on a {wit['kind']} connection: the parser is still running after 4 s of CPU time")
            return 1
        print('parser returned:', 'rejected' if r is None else r)
        return 0
    if wit.get('scenario') == 'listeners':
        from vlib.world import World
        r = common.Run(prop='C02', tier='quick', seed=int(rep.get('seed', 0) or 0))
        w = World()
        try:
            w.start()
            w.login()
            ls = listener_scenarios(r, w, lay)
            print('messages sent (an undecodable frame after each):', wit['messages'])
            print('seen by the recording listener:', ls.seen)
            print('seen by the late listener     :', ls.late_seen)
            print('server reader alive / state   :', server_alive(w))
            for f in r.findings:
                print('FAILS:', f.key, '-', f.what)
            return 1 if r.findings else 0
        finally:
            try:
                w.stop()
            except Exception:
                w.close()
    if wit.get('scenario') == 'stream':
        for pw in wit.get('prelude', []):
            run_real(pw['kind'], pw['obf'], witness_chunks(pw), pw['ending'], bytes.fromhex(pw['partial']), pw['raise_every'], lay)
            print('prelude: frames', pw['labels'], 'on a', pw['kind'], 'connection')
        sc = {'kind': wit['kind'], 'obf': wit['obf'], 'plains': [bytes.fromhex(x) for x in wit['plains']],
              'chunks': witness_chunks(wit), 'ending': wit['ending'], 'partial': bytes.fromhex(wit['partial']),
              'raise_every': wit['raise_every'], 'labels': wit['labels']}
        obs = run_real(sc['kind'], sc['obf'], sc['chunks'], sc['ending'], sc['partial'], sc['raise_every'], lay)
        exp = [isolated_decode(sc['kind'], p) for p in sc['plains']]
        exp = [e for e in exp if e is not None]
        print('frame kinds:', sc['labels'])
        print('delivered :', [type(x).__qualname__ for x in obs['objs']])
        print('decodable :', [type(x).__qualname__ for x in exp])
        print('reader alive:', obs['reader_alive'], 'state:', obs['state'], 'unhandled:', obs['unhandled'])
        bad = violates(sc, obs)
        return 1 if bad else 0
    if wit.get('scenario') == 'accept':
        from vlib.world import World
        from aioslsk.protocol.messages import PeerInit
        w = World()
        try:
            w.start()
            w.login()
            net = w.client.network
            port = w.settings.network.listening.obfuscated_port if wit.get('obf') else w.settings.network.listening.port
            ep0 = w.net.incoming(w.settings.network.listening.port, peername=('10.0.0.50', 41050))
            w.settle(10)
            ep0.feed(PeerInit.Request(username='friend', typ='P', ticket=0).serialize())
            w.settle(30)
            before = list(net.peer_connections)
            ep = w.net.incoming(port, peername=('10.0.0.60', 42000))
            w.settle(10)
            if wit.get('bytes') is None:
                ep.feed_eof()
            else:
                first = bytes.fromhex(wit['bytes'])
                ep.feed(ref_obf_encode(b'\x01\x02\x03\x04', first) if wit.get('obf') else first)
                if wit.get('first') == 'partial-then-eof':
                    ep.feed_eof()
            w.settle(60)
            new = [c for c in net.peer_connections if c not in before]
            open_after = bool(new) and not ep.client_closed
            expect_open = wit.get('first', '').startswith('valid-')
            print('first frame:', wit.get('first'), 'obfuscated port:', wit.get('obf'))
            print('transport closed by the client:', ep.client_closed, '| still registered:', bool(new), '| expected open:', expect_open)
            print('other connection untouched:', not ep0.client_closed and all(c in net.peer_connections for c in before))
            bad = open_after != expect_open or ep0.client_closed or (not open_after and (not ep.client_closed or new))
            return 1 if bad else 0
        finally:
            try:
                w.stop()
            except Exception:
                w.close()
    print('unknown witness:', wit)
    return 1
