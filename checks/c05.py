"""C05 — active uploads never exceed the slot limit or one per user; priority holds.

L1  theories/C05/Props.v over gen/PrioGen.v (rank increments, sort direction, slice bound, scan guards,
    processing states regenerated from transfer/manager.py + model.py by translate/tr_prio.py)
L2  correspondence: the real TransferManager (real UserManager/Network/PeerConnection on a fake network,
    virtual time; checks/c05_world.py) is driven through random populations and event orders; after
    every operation the state of every upload (QUEUED / task created / INITIALIZING / UPLOADING / other)
    and, for cycles, the ordered selection are compared with the model (`step`, vm_compute); the order of
    the PeerTransferRequest calls must be the order of the selection
L3  monitor = the property text on the real traces (independent of the model): per cycle the started
    uploads are at most the free slots, one per user, only queued uploads of eligible users, as many as
    possible, and of the highest classes (privileged > friend > online/away > other); at every point
    #INITIALIZING/UPLOADING <= limit unless all of them predate the limit, one per user; and the
    event-loop premise A1 is checked on free-running runs of the real management job.
"""
from __future__ import annotations

from vlib.common import Run, Finding, BrokenTie, coq_eval_many, parse_eval, listlit, shrink_list

K_RAISE = 'F31-limit-raise-does-not-request-cycle'
K_SKIP = 'F32-upload-skipped-by-cycle-is-not-reconsidered'
STATUS = {'UNKNOWN': -1, 'OFFLINE': 0, 'AWAY': 1, 'ONLINE': 2}
ST_COQ = {'UNKNOWN': 'Unknown', 'OFFLINE': 'Offline', 'AWAY': 'Away', 'ONLINE': 'Online'}


# ------------------------------------------------------------------------------------------------
# the property text (monitor)
# ------------------------------------------------------------------------------------------------

def klass(uinfo):
    status, priv, friend = uinfo
    return (1 if priv else 0, 1 if friend else 0, 1 if status in ('ONLINE', 'AWAY') else 0)


def check_cycle(snap):
    """snap: {slots, uploads: [(idx, user, state)], users: {name: (status, priv, friend)}, created: [idx]}.
    Returns a list of (key, text)."""
    out = []
    ups = {i: (u, st) for i, u, st in snap['uploads']}
    users = snap['users']
    # an upload whose initialise task has been created is being initialised, even before its state says so
    processing = [i for i, (u, st) in ups.items() if st in ('INITIALIZING', 'UPLOADING') or i in snap.get('negotiating', [])]
    busy_users = {ups[i][0] for i in processing}
    free = max(0, snap['slots'] - len(processing))
    elig_users = sorted({u for i, (u, st) in ups.items()
                         if st == 'QUEUED' and i not in snap.get('negotiating', []) and users[u][0] != 'OFFLINE' and u not in busy_users})
    S = snap['created']
    if len(S) > free:
        out.append(('cycle-starts-more-than-free-slots', f'{len(S)} uploads started with {free} free slots'))
    for i in S:
        u, st = ups[i]
        if st != 'QUEUED':
            out.append(('non-queued-upload-started', f'upload {i} in state {st} started'))
        if users[u][0] == 'OFFLINE':
            out.append(('offline-user-served', f'upload {i} of offline user {u} started'))
        if u in busy_users:
            out.append(('busy-user-served', f'upload {i} started while user {u} already has an upload in progress'))
    for i in S:
        if i in snap.get('negotiating', []):
            out.append(('upload-negotiation-started-twice', f'upload {i} already has a running initialize-upload task and is started again'))
    S = [i for i in S if i not in snap.get('negotiating', [])]
    su = [ups[i][0] for i in S]
    if len(set(su)) != len(su):
        out.append(('two-uploads-one-user-in-cycle', f'one cycle started two uploads of one user: {su}'))
    if len(set(S)) == len(S) and len(S) < min(free, len(elig_users)):
        out.append(('not-work-conserving', f'{len(S)} started, {free} free slots, {len(elig_users)} eligible users'))
    for i in S:
        for e in elig_users:
            if e not in su and klass(users[e]) > klass(users[ups[i][0]]):
                out.append(('priority-inverted', f'upload {i} of {ups[i][0]} {users[ups[i][0]]} started while '
                                                 f'eligible user {e} {users[e]} of a higher class waits'))
    ks = [klass(users[u]) for u in su]
    if any(ks[j] < ks[j + 1] for j in range(len(ks) - 1)):
        out.append(('request-order-not-by-priority', f'started in order {su} with classes {ks}'))
    return out


def check_state(slots, uploads, old):
    """uploads: [(idx, user, state)]; old: ids that predate the current limit."""
    out = []
    proc = [(i, u) for i, u, st in uploads if st in ('INITIALIZING', 'UPLOADING')]
    if len(proc) > slots and not all(i in old for i, _ in proc):
        out.append(('slots-exceeded', f'{len(proc)} uploads in INITIALIZING/UPLOADING with limit {slots} '
                                      f'(started under this limit: {[i for i, _ in proc if i not in old]})'))
    us = [u for _, u in proc]
    if len(set(us)) != len(us):
        out.append(('two-uploads-one-user', f'users of the uploads in progress: {us}'))
    return out


# ------------------------------------------------------------------------------------------------
# driving the implementation
# ------------------------------------------------------------------------------------------------

def code_of(t):
    st = t.state.VALUE.name
    if st == 'QUEUED':
        return 1 if (t._transfer_task is not None and not t._transfer_task.done()) else 0
    return {'INITIALIZING': 2, 'UPLOADING': 3}.get(st, 4)


class Driver:
    """Executes ops on the real manager; produces per op (model events, selection, codes) and monitor results."""

    def __init__(self, pop, driven=True):
        from checks.c05_world import TW
        self.pop = pop
        self.tw = TW(slots=pop['slots'], connect_mode=pop.get('mode', 'race'), driven=driven, nusers=pop['nusers'])
        self.ts = []           # transfers in creation order; model id = index
        self.old = set()
        self.viol = []         # (key, text, op index)
        self.rows = []         # (events, sel, codes)
        self.info = {n: ['UNKNOWN', False, False] for n in self.tw.names}
        self.answered = {}     # id -> tickets already answered by the peer
        self.order_bad = None
        self.nops = 0
        self.cycles_at_raise = None

    def uname(self, u):
        return f'u{u}'

    def wire_ticket(self, k):
        """Ticket of the latest PeerTransferRequest for upload k that reached the peer, else None."""
        from aioslsk.protocol.messages import PeerTransferRequest
        t = self.ts[k]
        tk = None
        for u, m in self.tw.peer_frames(t.username):
            if isinstance(m, PeerTransferRequest.Request) and m.filename == t.remote_path:
                tk = m.ticket
        return None if tk in self.answered.get(k, ()) else tk

    def snapshot_uploads(self):
        return [(i, t.username, t.state.VALUE.name) for i, t in enumerate(self.ts)]

    def users_now(self):
        """What the server / the user told the client about each user (the inputs of the decision), kept by the harness
        according to the protocol: GetUserStatus carries status and privilege, AddUser only the status, AddPrivilegedUser /
        PrivilegedUsers only the privilege.  NOT read from the client's own user objects."""
        return {n: tuple(self.info[n]) for n in self.tw.names}

    def observe(self, evs, sel):
        codes = [code_of(t) for t in self.ts]
        busy = {i for i, c in enumerate(codes) if c in (1, 2, 3)}
        self.old &= busy
        self.rows.append((evs, sel, codes))
        slots = self.tw.w.settings.transfers.limits.upload_slots
        for key, text in check_state(slots, self.snapshot_uploads(), self.old):
            self.viol.append((key, text, self.nops))
        if self.tw.a1_violations:
            self.viol.append(('A1-first-segment-after-next-cycle', f'{self.tw.a1_violations[:3]}', self.nops))
            self.tw.a1_violations.clear()

    def idle_check(self):
        """Property text, last clause: a queued upload of an eligible user is started while slots are free.  With the real
        management job: if for 0.3 s no cycle ran and none is requested (the job is idle), no slot may be free while an
        eligible user waits."""
        tw = self.tw
        c0 = tw.cycles
        tw.w.loop.run_for(0.3)
        tw.settle(100)
        if tw.cycles != c0 or not tw.tm._management_queue.empty():
            return
        ups = self.snapshot_uploads()
        neg = {i for i, t in enumerate(self.ts) if t._transfer_task is not None and not t._transfer_task.done()}
        users = self.users_now()
        busy = {i for i, u, st in ups if st in ('INITIALIZING', 'UPLOADING') or i in neg}
        busy_users = {u for i, u, st in ups if i in busy}
        free = tw.w.settings.transfers.limits.upload_slots - len(busy)
        waiting = sorted({u for i, u, st in ups if st == 'QUEUED' and i not in neg and users[u][0] != 'OFFLINE' and u not in busy_users})
        # a slot whose upload is INITIALIZING/UPLOADING although no task works on it any more is not in use
        dead = [i for i, u, st in ups if st in ('INITIALIZING', 'UPLOADING') and i not in neg]
        if dead:
            live_users = {u for i, u, st in ups if i in busy and i not in dead}
            blocked = sorted({u for i, u, st in ups if st == 'QUEUED' and i not in neg and users[u][0] != 'OFFLINE' and u not in live_users})
            if blocked and free + len(dead) > 0:
                self.viol.append(('slot-held-by-upload-without-task',
                                  f'upload(s) {dead} are INITIALIZING/UPLOADING with no task running for them; eligible user(s) {blocked} wait '
                                  f'for a slot that is not in use', self.nops))
        if free > 0 and waiting:
            text = f'{free} free slot(s), eligible user(s) {waiting} with a queued upload, management job idle and no cycle requested'
            wait_ids = [id(t) for i, t in enumerate(self.ts) if t.username in waiting and t.state.VALUE.name == 'QUEUED']
            if self.cycles_at_raise is not None and tw.cycles == self.cycles_at_raise:
                self.viol.append((K_RAISE, text + ' since the limit was raised', self.nops))
            elif any(id(t) in tw.last_skipped and t.state.VALUE.name == 'QUEUED' and (t._transfer_task is None or t._transfer_task.done())
                     and not t._state_lock.locked() for t in self.ts):
                self.viol.append((K_SKIP, text + '; the last cycle skipped the upload because its previous task was still finishing / its '
                                                 'state lock was held (a state listener suspended), and nothing requests another cycle', self.nops))
            else:
                self.viol.append(('free-slot-not-used-at-rest', text, self.nops))

    def pre_settle(self):
        """Let the loop run until nothing is ready: first segments of created tasks, connection set-up.
        Returns the model events this corresponds to."""
        tw = self.tw
        starting = [i for i, t in enumerate(self.ts) if code_of(t) == 1]
        n_sent = len(tw.sent)
        created_ids = [self.ts.index(t) for k, t in tw.created if k == 'U' and t in self.ts]
        tw.created.clear()
        tw.settle(200)
        evs = []
        if starting:
            evs.append('FirstAll')
            from aioslsk.protocol.messages import PeerTransferRequest
            sent_ids = []
            for u, m in tw.sent[n_sent:]:
                if isinstance(m, PeerTransferRequest.Request):
                    for i, t in enumerate(self.ts):
                        if t.username == u and t.remote_path == m.filename:
                            sent_ids.append(i)
            if sent_ids != [i for i in created_ids if i in starting] and self.order_bad is None:
                self.order_bad = (created_ids, sent_ids)
            for i in starting:
                if tw.mode[self.ts[i].username] == 'refuse':
                    evs.append(f'Finish {i} FRequeue')
        return evs

    def do(self, op):
        """op is a JSON-able list. Inapplicable ops are no-ops (no model event)."""
        tw = self.tw
        self.nops += 1
        kind = op[0]
        evs = self.pre_settle()
        sel = []
        if kind == 'Q':
            u = op[1]
            if u < len(tw.names):
                t = tw.add_upload(self.uname(u), f'f{len(self.ts)}')
                if self.pop.get('app_listener'):
                    # an application listener on the transfer that awaits something: state changes then suspend
                    # while the state lock is held (the state itself is already changed)
                    import asyncio as _a

                    class _L:
                        async def on_transfer_state_changed(self, transfer, old, new):
                            await _a.sleep(0)
                    t.state_listeners.append(_L())
                self.ts.append(t)
                evs.append(f'Queue {u}')
                tw.settle(30)
        elif kind == 'C':
            snap = {'slots': tw.w.settings.transfers.limits.upload_slots, 'uploads': self.snapshot_uploads(),
                    'users': self.users_now(),
                    'negotiating': [i for i, t in enumerate(self.ts) if t._transfer_task is not None and not t._transfer_task.done()]}
            tw.created.clear()
            tw.cycle()
            sel = [self.ts.index(t) for k, t in tw.created if k == 'U']
            snap['created'] = sel
            for key, text in check_cycle(snap):
                self.viol.append((key, text, self.nops))
            evs.append('Cycle')
        elif kind == 'CC':     # two cycles back to back, inside one loop iteration, nothing in between
            snaps = []

            def snap_now():
                snaps.append({'slots': tw.w.settings.transfers.limits.upload_slots, 'uploads': self.snapshot_uploads(),
                              'users': self.users_now(), 'ncreated': len(tw.created),
                              'negotiating': [i for i, t in enumerate(self.ts) if t._transfer_task is not None and not t._transfer_task.done()]})
            tw.created.clear()
            for _ in range(2):
                tw.w.loop.call_soon(snap_now)
                tw.w.loop.call_soon(tw.tm.manage_transfers)
            tw.w.loop.call_soon(snap_now)
            tw.w.loop.run_ready(1)
            allc = [self.ts.index(t) for k, t in tw.created if k == 'U']
            sel = allc
            for j in range(2):
                sn = snaps[j]
                sn['created'] = allc[sn['ncreated']:snaps[j + 1]['ncreated']]
                for key, text in check_cycle(sn):
                    self.viol.append((key, text, self.nops))
            tw.a1_violations.clear()     # the premise A1 is deliberately not respected by this operation
            evs += ['Cycle', 'Cycle']
        elif kind == 'R':
            pass
        elif kind == 'Reply':
            k, allowed = op[1], op[2]
            if k < len(self.ts) and code_of(self.ts[k]) == 2 and self.wire_ticket(k) is not None:
                from aioslsk.protocol.messages import PeerTransferReply
                from aioslsk.protocol.primitives import uint64
                t = self.ts[k]
                ep = tw.peer_ep(t.username)
                ticket = self.wire_ticket(k)
                self.answered.setdefault(k, set()).add(ticket)
                if allowed:
                    ep.feed(PeerTransferReply.Request(ticket, True).serialize())
                    n_eps = len(tw.eps)
                    tw.settle(200)
                    if len(tw.eps) > n_eps:
                        tw.eps[-1][1].feed(uint64(0).serialize())
                        tw.settle(200)
                    evs.append(f'Finish {k} FStart')
                else:
                    ep.feed(PeerTransferReply.Request(ticket, False, reason='Cancelled').serialize())
                    tw.settle(200)
                    evs.append(f'Finish {k} FFail')
        elif kind == 'Eof':
            k = op[1]
            if k < len(self.ts) and code_of(self.ts[k]) == 3:
                tw.last_ep(self.ts[k].username).feed_eof()
                tw.settle(200)
                evs.append(f'Finish {k} FComplete')
        elif kind in ('A', 'P'):
            k = op[1]
            if k < len(self.ts):
                t = self.ts[k]
                was = code_of(t)
                ok, exc = tw.call(tw.tm.abort(t) if kind == 'A' else tw.tm.pause(t))
                tw.settle(100)
                if ok:
                    evs.append(f'Abort {k}')
                elif was != 4 or exc != 'InvalidStateTransition':
                    self.viol.append(('stop-call-failed', f'{kind} of upload {k} in code {was} raised {exc}', self.nops))
        elif kind == 'RQ':
            k = op[1]
            if k < len(self.ts) and code_of(self.ts[k]) == 4:
                ok, exc = tw.call(tw.tm.queue(self.ts[k]))
                tw.settle(30)
                if ok:
                    evs.append(f'Requeue {k}')
        elif kind == 'S':
            n = op[1]
            how = op[2] if len(op) > 2 else 'field'
            before = tw.w.settings.transfers.limits.upload_slots
            if how == 'limits':        # the limits sub-model is replaced (settings dialog / reload building a new model)
                from aioslsk.settings import TransferLimitSettings
                tw.w.settings.transfers.limits = TransferLimitSettings(upload_slots=n)
            elif how == 'transfers':   # the whole transfers section is replaced
                from aioslsk.settings import TransfersSettings, TransferLimitSettings
                tw.w.settings.transfers = TransfersSettings(limits=TransferLimitSettings(upload_slots=n),
                                                            report_interval=tw.w.settings.transfers.report_interval)
            else:
                tw.w.settings.transfers.limits.upload_slots = n
            if n > before:
                self.cycles_at_raise = tw.cycles
            self.old = {i for i, t in enumerate(self.ts) if code_of(t) in (1, 2, 3)}
            evs.append(f'SetSlots {n}')
        elif kind == 'St':
            u, st, priv = op[1], op[2], op[3]
            if u < len(tw.names):
                tw.set_status(self.uname(u), STATUS[st], priv)
                self.info[self.uname(u)][0:2] = [st, priv]
                evs.append(f'Status {u} {ST_COQ[st]} {"true" if priv else "false"}')
        elif kind == 'AddU':   # the server's reply to a tracking request: the user exists and has this status (no privilege field)
            u, st = op[1], op[2]
            if u < len(tw.names):
                from aioslsk.protocol.messages import AddUser
                from aioslsk.protocol.primitives import UserStats
                tw.w.server_send(AddUser.Response(self.uname(u), exists=True, status=STATUS[st], user_stats=UserStats(1, 2, 3, 4), country_code='BE'))
                tw.settle(60)
                self.info[self.uname(u)][0] = st
                evs.append(f'Status {u} {ST_COQ[st]} {"true" if self.info[self.uname(u)][1] else "false"}')
        elif kind == 'Priv':   # the server announces that user u bought privileges (AddPrivilegedUser; no status message)
            u = op[1]
            if u < len(tw.names):
                from aioslsk.protocol.messages import AddPrivilegedUser
                st = self.info[self.uname(u)][0]
                tw.w.server_send(AddPrivilegedUser.Response(self.uname(u)))
                tw.settle(60)
                self.info[self.uname(u)][1] = True
                evs.append(f'Status {u} {ST_COQ[st]} true')
        elif kind == 'PrivList':   # the server sends the complete list of privileged users (PrivilegedUsers)
            from aioslsk.protocol.messages import PrivilegedUsers
            lst = [x for x in op[1] if x < len(tw.names)]
            tw.w.server_send(PrivilegedUsers.Response(users=[self.uname(x) for x in lst] + ['nobody-we-know']))
            tw.settle(60)
            for x in range(len(tw.names)):
                st = self.info[self.uname(x)][0]
                self.info[self.uname(x)][1] = x in lst
                evs.append(f'Status {x} {ST_COQ[st]} {"true" if x in lst else "false"}')
        elif kind == 'F':
            u, b = op[1], op[2]
            if u < len(tw.names):
                tw.set_friend(self.uname(u), b, replace=(len(op) > 3 and op[3] == 'replace'))
                self.info[self.uname(u)][2] = b
                evs.append(f'Friend {u} {"true" if b else "false"}')
        elif kind == 'Rel':    # the server finally answers the held GetPeerAddress requests for user u
            u = op[1]
            if u < len(tw.names):
                tw.addr_mode[self.uname(u)] = 'auto'
                tw.release_addr(self.uname(u))
                tw.settle(200)
        elif kind == 'T':      # free-running only: let virtual time pass
            tw.w.loop.run_for(op[1])
            tw.settle(100)
        else:
            raise ValueError(op)
        if not tw.driven:
            self.idle_check()
        self.observe(evs, sel)

    def close(self):
        self.tw.close()


def gen_pop(rng):
    n = rng.randrange(1, 6)
    return {'slots': rng.choice([0, 1, 1, 2, 2, 3, 4]), 'nusers': n,
            'mode': rng.choice(['race', 'race', 'fallback']),
            'refuse': [u for u in range(n) if rng.random() < 0.15],
            'hold': [u for u in range(n) if rng.random() < 0.25],
            'app_listener': rng.random() < 0.2}


def gen_prelude(rng, pop):
    ops = []
    for u in range(pop['nusers']):
        if rng.random() < 0.7:   # the others stay UNKNOWN (the server never sends that status)
            ops.append(['St', u, rng.choice(['OFFLINE', 'AWAY', 'ONLINE', 'ONLINE']), rng.random() < 0.3])
        if rng.random() < 0.35:
            ops.append(['F', u, True])
    return ops


def next_op(rng, d: Driver, free_running=False):
    n = len(d.ts)
    codes = [code_of(t) for t in d.ts]
    r = rng.random()
    nu = d.pop['nusers']
    init = [i for i, c in enumerate(codes) if c == 2 and d.wire_ticket(i) is not None]
    upl = [i for i, c in enumerate(codes) if c == 3]
    other = [i for i, c in enumerate(codes) if c == 4]
    if free_running and r < 0.22:
        return ['T', rng.choice([0.0, 0.01, 0.05, 0.06, 0.06, 0.3, 1.0, 31.0])]
    if r < 0.22 or n == 0:
        return ['Q', rng.randrange(nu)]
    if r < 0.43 and not free_running:
        return ['C']
    if r < 0.47 and not free_running:
        return ['CC']
    if r < 0.50:
        return ['R']
    if r < 0.54 and d.pop.get('hold'):
        return ['Rel', rng.choice(d.pop['hold'])]
    if r < 0.64 and init:
        return ['Reply', rng.choice(init), rng.random() < 0.6]
    if r < 0.72 and upl:
        return ['Eof', rng.choice(upl)]
    if r < 0.79:
        return [rng.choice(['A', 'A', 'P']), rng.randrange(n)]
    if r < 0.84 and other:
        return ['RQ', rng.choice(other)]
    if r < 0.90:
        return ['S', rng.choice([0, 1, 2, 3, 4]), rng.choice(['field', 'field', 'limits', 'transfers'])]
    if r < 0.95:
        return ['St', rng.randrange(nu), rng.choice(['OFFLINE', 'AWAY', 'ONLINE']), rng.random() < 0.3]
    if r < 0.975:
        return ['F', rng.randrange(nu), rng.random() < 0.6, rng.choice(['mutate', 'replace'])]
    if r < 0.985:
        return ['Priv', rng.randrange(nu)]
    if r < 0.993:
        return ['AddU', rng.randrange(nu), rng.choice(['ONLINE', 'AWAY'])]
    return ['PrivList', sorted(rng.sample(range(nu), rng.randrange(0, nu + 1)))]


def execute(pop, ops, driven=True):
    d = Driver(pop, driven=driven)
    try:
        for u in pop.get('refuse', []):
            d.tw.mode[d.uname(u)] = 'refuse'
        for u in pop.get('hold', []):
            if u not in pop.get('refuse', []):
                d.tw.addr_mode[d.uname(u)] = 'hold'
        for op in ops:
            d.do(op)
        # final settle so that the last cycle's tasks are observed too
        d.nops += 1
        evs = d.pre_settle()
        d.observe(evs, [])
        return d.rows, d.viol, d.order_bad
    finally:
        d.close()


def lowering_script(rng):
    """Directed family: fill k slots, lower the limit below the number of active uploads while several
    other users wait, run cycles (nothing may start until enough uploads ended)."""
    k = rng.choice([2, 3, 4])
    pop = {'slots': k, 'nusers': 5, 'mode': rng.choice(['race', 'fallback']), 'refuse': [], 'hold': []}
    ops = [['St', u, rng.choice(['ONLINE', 'AWAY']), rng.random() < 0.3] for u in range(5) if rng.random() < 0.6]
    order = list(range(5))
    rng.shuffle(order)
    ops += [['Q', u] for u in order] + [['Q', rng.randrange(5)] for _ in range(rng.randrange(0, 3))]
    ops += [rng.choice([['C'], ['C'], ['CC']]), ['R'], ['S', rng.randrange(0, k), rng.choice(['field', 'limits', 'transfers'])], rng.choice([['C'], ['CC']]), ['R']]
    return pop, ops


def reprioritise_script(rng):
    """Directed family: all slots taken, several users waiting (already ranked by a cycle); the class of a waiting user
    changes through one of the channels that exist (status message, friend list, AddPrivilegedUser, PrivilegedUsers);
    a slot is given back; the next cycle must serve the now highest class."""
    n = rng.randrange(3, 6)
    k = rng.choice([1, 1, 2])
    pop = {'slots': k, 'nusers': n, 'mode': rng.choice(['race', 'fallback']), 'refuse': [], 'hold': []}
    ops = [['St', u, rng.choice(['ONLINE', 'AWAY', 'ONLINE']), False] for u in range(n) if rng.random() < 0.7]
    ops += [['F', u, True] for u in range(n) if rng.random() < 0.25]
    order = list(range(n))
    rng.shuffle(order)
    ops += [['Q', u] for u in order] + [['C'], ['R'], ['C']]
    for _ in range(rng.randrange(1, 3)):
        u = rng.randrange(n)
        if rng.random() < 0.4:     # privilege announced, then the tracking reply for the same user arrives (status only)
            ops += [rng.choice([['Priv', u], ['PrivList', sorted(set(rng.sample(range(n), rng.randrange(1, n))) | {u})]]),
                    ['AddU', u, rng.choice(['ONLINE', 'AWAY'])]]
            continue
        ops.append(rng.choice([['Priv', u], ['Priv', u], ['PrivList', sorted(rng.sample(range(n), rng.randrange(1, n)))],
                               ['F', u, rng.random() < 0.7], ['St', u, rng.choice(['ONLINE', 'AWAY']), rng.random() < 0.5]]))
    # give slots back: the peers of the active uploads refuse / the user aborts them
    ops += [['Reply', i, False] for i in range(len(order))]      # a no-op for the uploads that are not active
    if rng.random() < 0.3:
        ops.append(['A', rng.randrange(len(order))])
    ops += [['C'], ['R']]
    return pop, ops


def giveback_script(rng):
    """Directed family for the real management job: every slot taken, more eligible users waiting, then ONE event gives a
    slot back (pause / abort of an active upload, the peer refusing it, the upload completing, its reply timing out) and
    nothing else happens: the job must start the next upload on its own."""
    k = rng.choice([1, 1, 2])
    n = rng.randrange(k + 1, 6)
    pop = {'slots': k, 'nusers': n, 'mode': rng.choice(['race', 'fallback']), 'refuse': [], 'hold': []}
    ops = [['St', u, rng.choice(['ONLINE', 'AWAY']), rng.random() < 0.2] for u in range(n) if rng.random() < 0.6]
    order = list(range(n))
    rng.shuffle(order)
    ops += [['Q', u] for u in order] + [['T', 0.5]]
    back = rng.choice(['P', 'A', 'Reply', 'Eof', 'T31'])
    if back in ('P', 'A'):
        ops += [[back, i] for i in range(n)][:n] if rng.random() < 0.3 else [[back, rng.randrange(n)]]
    elif back == 'Reply':
        ops += [['Reply', i, False] for i in range(n)]
    elif back == 'Eof':
        ops += [['Reply', i, True] for i in range(n)] + [['Eof', i] for i in range(n)]
    else:
        ops += [['T', 31.0]]
    ops += [['T', 1.0]]
    return pop, ops


def random_case(rng, nops, driven=True):
    r_fam = rng.random()
    if not driven and r_fam < 0.4:
        pop, script = giveback_script(rng)
        d = Driver(pop, driven=False)
        ops = []
        try:
            for op in script:
                ops.append(op)
                d.do(op)
            d.nops += 1
            evs = d.pre_settle()
            d.observe(evs, [])
            return pop, ops, d.rows, d.viol, d.order_bad
        finally:
            d.close()
    if driven and r_fam < 0.12:
        pop, script = reprioritise_script(rng)
    elif driven and r_fam < 0.27:
        pop, script = lowering_script(rng)
    else:
        pop, script = gen_pop(rng), None
    d = Driver(pop, driven=driven)
    ops = []
    try:
        for u in pop['refuse']:
            d.tw.mode[d.uname(u)] = 'refuse'
        for u in pop.get('hold', []):
            if u not in pop['refuse']:
                d.tw.addr_mode[d.uname(u)] = 'hold'
        for op in (script if script is not None else
                   gen_prelude(rng, pop) + [['Q', rng.randrange(pop['nusers'])] for _ in range(rng.randrange(0, 7))]):
            ops.append(op)
            d.do(op)
        for _ in range(nops):
            op = next_op(rng, d, free_running=not driven)
            ops.append(op)
            d.do(op)
        d.nops += 1
        evs = d.pre_settle()
        d.observe(evs, [])
        return pop, ops, d.rows, d.viol, d.order_bad
    finally:
        d.close()


# ------------------------------------------------------------------------------------------------
# model side
# ------------------------------------------------------------------------------------------------

COQ_HEAD = '''From Coq Require Import List Bool Arith.
From Slsk Require Import C05.Model.
Import ListNotations.
Fixpoint eql (a b : list nat) : bool :=
  match a, b with [], [] => true | x :: a, y :: b => (x =? y) && eql a b | _, _ => false end.
Fixpoint run_obs (s : mstate) (evs : list event) : mstate * list nat :=
  match evs with
  | [] => (s, [])
  | e :: r => let '(s1, o) := step s e in let '(s2, o2) := run_obs s1 r in (s2, o ++ o2)
  end.
(* index of the first operation after which model and implementation differ *)
Fixpoint first_bad (i : nat) (s : mstate) (ops : list (list event * list nat * list nat)) : option nat :=
  match ops with
  | [] => None
  | (evs, sel, codes) :: r =>
      let '(s', o) := run_obs s evs in
      if eql o sel && eql (map st_code (mts s')) codes then first_bad (S i) s' r else Some i
  end.
'''


def nl(xs):
    return '[' + '; '.join(str(x) for x in xs) + ']'


def coq_cases(cases):
    lines = [COQ_HEAD, 'Definition cases : list (nat * nat * list (list event * list nat * list nat)) := [']
    rows = []
    for idx, (slots, oprows) in enumerate(cases):
        ops = listlit(f'({listlit(evs)}, {nl(sel)}, {nl(codes)})' for evs, sel, codes in oprows)
        rows.append(f' ({idx}, {slots}, {ops})')
    lines.append(';\n'.join(rows))
    lines.append('].')
    lines.append('Definition bad := flat_map (fun c => match first_bad 0 (init (snd (fst c))) (snd c) with '
                 'Some i => [(fst (fst c), i)] | None => [] end) cases.')
    lines.append('Eval vm_compute in bad.')
    return '\n'.join(lines) + '\n'


def parse_pairs(s):
    import re
    return [(int(a), int(b)) for a, b in re.findall(r'\((\d+)(?:%nat)?\s*,\s*(\d+)(?:%nat)?\)', s)]


def model_agrees(cases):
    """cases: [(slots, rows)] -> list of (case index, op index) where the model differs."""
    shard = 80
    texts = [coq_cases(cases[i:i + shard]) for i in range(0, len(cases), shard)]
    outs = coq_eval_many('c05', texts, timeout=900)
    bad = []
    for k, out in enumerate(outs):
        vals = parse_eval(out)
        if not vals:
            raise BrokenTie('correspondence:C05', f'no output from shard {k}')
        for ci, oi in parse_pairs(vals[0]):
            bad.append((k * shard + ci, oi))
    return bad


def shrink_case(pop, ops, key):
    def fails(cand):
        try:
            _, viol, _ = execute(pop, cand)
        except Exception:
            return False
        return any(v[0] == key for v in viol)
    try:
        return shrink_list(ops, fails, max_steps=80)
    except Exception:
        return ops


def run(run: Run):
    run.rule = ('populations: limit 0..4, 1..5 users with random status (unknown/offline/away/online), privilege, '
                'friend flag, some peers refusing connections, connect mode race/fallback; operation sequences chosen '
                'state-dependently among queue, cycle, loop-settle, transfer reply allowed/refused, end of upload, abort, '
                'pause, re-queue, limit change, status change, friend change (driven mode: the harness places the '
                'cycles) and the same plus virtual-time steps with the real management job (free-running mode); '
                'distinct = distinct (population, operation list); non-trivial = at least one cycle that started an '
                'upload while another upload or user competed')
    run.trusted += ['event-loop premise A1 (first segment of a created task runs before the next cycle) is an assumption of '
                    'C05_slots_inv; it is monitored on every free-running run of the real management job',
                    'list.sort stability and asyncio FIFO scheduling (validated by the correspondence runs)',
                    'harness-controlled cycle placement in driven mode (manage_transfers called inside one loop iteration)']
    run.assumptions += ['A1: no created initialize-upload task is still unstarted when the next management cycle runs',
                        'only uploads are modelled (downloads do not use upload slots)']
    proved = run.prove(['tr_prio'])
    run.cov['a1_checked_at_every_cycle'] = True
    boost = 1 if proved else 3      # a broken tie (translator / fingerprint / proof) triggers the longer directed search

    for key, wit, _fixed in run.known_witnesses():
        if not wit:
            continue
        try:
            _, viol, _ = execute(wit['pop'], wit['ops'], driven=(wit.get('mode', 'driven') == 'driven'))
        except Exception as e:
            run.add_broken('correspondence:C05 stored witness crashed', f'{key}: {type(e).__name__}: {e}')
            continue
        run.case({'witness': key}, kind='stored-witness')
        for k, text, opi in viol:
            run.add_finding(Finding(k, text, wit, observed=text, expected='property C05'))

    quick = run.tier == 'quick'
    n_driven = (120 if quick else 800) * boost
    n_free = (30 if quick else 200) * boost
    maxops = 26 if quick else 40
    cases = []
    reported = set()

    def report(viol, pop, ops, mode):
        for key, text, opi in viol:
            if key in reported:
                continue
            reported.add(key)
            small = shrink_case(pop, ops, key) if mode == 'driven' else ops
            run.add_finding(Finding(key, text, {'pop': pop, 'ops': small, 'mode': mode}, observed=text,
                                    expected='property C05 (see monitor in checks/c05.py)'))

    for i in range(n_driven):
        try:
            pop, ops, rows, viol, order_bad = random_case(run.rng, run.rng.randrange(4, maxops), driven=True)
        except Exception as e:  # the harness or the implementation crashed
            run.add_broken('correspondence:C05 driven run crashed', f'{type(e).__name__}: {e}')
            break
        started = sum(len(sel) for _, sel, _ in rows)
        run.case({'pop': pop, 'ops': ops}, nontrivial=started > 0 and len(rows[-1][2]) > 1, kind='driven')
        run.count('ops', len(ops))
        run.count('cycles', sum(1 for o in ops if o[0] == 'C') + 2 * sum(1 for o in ops if o[0] == 'CC'))
        run.count('uploads_started', started)
        cases.append((pop, ops, rows))
        report(viol, pop, ops, 'driven')
        if order_bad and 'order' not in reported:
            reported.add('order')
            run.add_broken('correspondence:C05 PeerTransferRequest order vs task creation order',
                           f'created {order_bad[0]} sent {order_bad[1]} pop={pop} ops={ops}')

    for i in range(n_free):
        try:
            pop, ops, rows, viol, order_bad = random_case(run.rng, run.rng.randrange(6, maxops), driven=False)
        except Exception as e:
            run.add_broken('correspondence:C05 free-running run crashed', f'{type(e).__name__}: {e}')
            break
        run.case({'pop': pop, 'ops': ops, 'free': True}, nontrivial=any(2 in r[2] or 3 in r[2] for r in rows), kind='free-running')
        report(viol, pop, ops, 'free')

    # what the premise buys: two cycles inside one loop iteration (impossible for the real job) overshoot
    try:
        d = Driver({'slots': 1, 'nusers': 2, 'mode': 'race', 'refuse': [], 'hold': []})
        try:
            d.ts.append(d.tw.add_upload('u0', 'f0'))
            d.ts.append(d.tw.add_upload('u1', 'f1'))
            d.tw.settle(50)
            d.tw.w.loop.call_soon(d.tw.tm.manage_transfers)
            d.tw.w.loop.call_soon(d.tw.set_friend, 'u0', True)
            d.tw.w.loop.call_soon(d.tw.tm.manage_transfers)
            d.tw.settle(100)
            d.tw.a1_violations.clear()
            n = sum(1 for t in d.ts if code_of(t) in (2, 3))
            run.notes.append(f'A1-violating schedule [Queue 0; Queue 1; Cycle; Friend 0; Cycle; first segments] on the implementation: '
                             f'{n} uploads in progress with limit 1 (witness of C05_slots_inv_without_A1_refuted; not reachable by the real job)')
            run.case({'a1-demo': n}, kind='a1-demo')
            if n != 2:
                run.add_broken('correspondence:C05 A1 witness', f'expected 2 uploads in progress, got {n}')
        finally:
            d.close()
    except Exception as e:
        run.add_broken('correspondence:C05 A1 witness crashed', f'{type(e).__name__}: {e}')

    # L2: model vs implementation
    try:
        bad = model_agrees([(pop['slots'], rows) for pop, ops, rows in cases])
        for n, (ci, oi) in enumerate(bad):
            if n == 0:
                pop, ops, rows = cases[ci]
                run.add_broken('correspondence:C05 model(step/select) vs TransferManager',
                               f'first difference after op {oi}: pop={pop} ops={ops[:oi + 1]} impl(sel,codes)={rows[oi][1:]} events={rows[oi][0]}')
        run.cov['traces_validated_against_impl'] = len(cases) - len({c for c, _ in bad})
    except BrokenTie as e:
        run.add_broken(e.obligation, e.detail)


def replay(rep) -> int:
    w = rep['witness']
    rows, viol, order_bad = execute(w['pop'], w['ops'], driven=(w.get('mode', 'driven') == 'driven'))
    print('population:', w['pop'])
    for op, row in zip(w['ops'] + [['final-settle']], rows):
        print(op, '-> model events', row[0], 'selection', row[1], 'codes', row[2])
    print('violations:', viol)
    return 1 if viol else 0
