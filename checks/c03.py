"""C03 — transfer state changes follow the documented graph, also under concurrent operations.

L1  theories/C03/Props.v over gen/TransGen.v (regenerated from transfer/state.py by translate/tr_state.py) and
    C03/Spec.v (the documented graph, pinned/state_graph.json, cross-checked with the diagram in the repository)
L2  correspondence on real Transfer objects (checks/c03_lib.py): every state x direction x operation x field
    configuration sequentially, random operation sequences, ALL schedules of 2 (thorough: 3) concurrent
    operations with controllable task cancellation / file removal / lock hand-over, natural gather() runs on a
    plain asyncio.Lock at state level and at TransferManager level; compared event by event with the model
L3  monitor = the property text on every real trace: every listener edge is documented; a refused call changes
    nothing; documented side effects happen; effects only while the lock is held
"""
from __future__ import annotations

import json
import shutil
import tempfile
import time

from vlib.common import Run, Finding, BrokenTie, REPO, coq_eval_many, parse_eval, parse_coq_list
from checks import c03_lib as L

F01_KEY = 'F01-stale-state-object-dispatch'
F01_WHAT = ('_with_state_lock runs the bound method of the state object the caller selected when it made the call, not of the '
            'state that is current once the lock is held: an overlapping call executes the old state\'s transition on the new state '
            '(e.g. abort || pause on a QUEUED download reports ABORTED -> PAUSED, not an edge of the documented graph)')

RICH = L.default_cfg(fail=4, abort=1, rq=True, place=3, filesize=10, bytes=4, qatt=2, uatt=1, start=True, complete=False,
                     local=True, file=True, rqtask='live', trtask='live')
CFGS = [
    L.default_cfg(),
    RICH,
    L.default_cfg(local=True, file=False, start=True, complete=True, trtask='live', filesize=4, bytes=4, abort=2),
    L.default_cfg(local=True, file=True, start=False, rqtask='live', rq=True, fail=5, qatt=1),
    L.default_cfg(local=False, file=True, start=True, place=0, filesize=0),
]


def call_variants(op):
    if op in ('fail', 'abort'):
        return [(op, None, False), (op, 1, False), (op, 5, False)]
    if op == 'queue':
        return [(op, None, False), (op, None, True)]
    return [(op, None, False)]


def one_call(op, rng=None):
    v = call_variants(op)
    return v[-1] if rng is None else rng.choice(v)


# ---------------------------------------------------------------------------------------------
# monitors (property text on real observations)
# ---------------------------------------------------------------------------------------------

class Monitor:
    def __init__(self, run: Run):
        self.run = run
        self.doc = set(map(tuple, L.pinned_graph()['edges']))
        self.nedges = 0

    def edges(self, ctx, res, calls, concurrent):
        """every edge reported to the listener is documented"""
        for obs in res['per_event']:
            for o in obs:
                if o[0] != 'E':
                    continue
                self.nedges += 1
                old, new, j, waited = o[1], o[2], o[3], o[4]
                if (old, new) in self.doc:
                    continue
                cap = res['cap'].get(j)
                # shape of F01: the call ran (holding the lock) the transition of the state object it had selected earlier
                stale = (concurrent and j is not None and cap is not None and cap != old and (cap, new) in self.doc
                         and not res['violations'] and not ctx.get('long_wait'))
                wit = dict(ctx, calls=[list(c) for c in calls], edge=[old, new], selected_state=cap)
                if stale:
                    self.run.add_finding(Finding(F01_KEY, F01_WHAT, wit, observed=f'{old}->{new}', expected='an edge of the documented graph'))
                else:
                    self.run.add_finding(Finding(f'undocumented-edge:{old}->{new}',
                                                 f'listener observed {old}->{new}, not an edge of the documented graph', wit,
                                                 observed=f'{old}->{new}', expected='an edge of the documented graph'))

    def listeners(self, ctx, res, calls):
        """every listener is told the same sequence of changes, each change continues the previous one"""
        seqs = {}
        for obs in res['per_event']:
            for o in obs:
                if o[0] == 'E':
                    seqs.setdefault(o[5] if len(o) > 5 else 0, []).append((o[1], o[2]))
        wit = dict(ctx, calls=[list(c) for c in calls])
        for li, seq in sorted(seqs.items()):
            for (_, new), (old, _) in zip(seq, seq[1:]):
                if new != old:
                    self.run.add_finding(Finding('listener-notifications-do-not-chain',
                                                 f'listener {li} was told {seq}: a change does not start where the previous one ended', wit,
                                                 observed=seq))
        if res.get('done', False) and not res.get('enabled'):
            full = seqs.get(0, [])
            for li, seq in sorted(seqs.items()):
                if seq != full:
                    self.run.add_finding(Finding('listeners-told-different-changes', f'listener 0 was told {full}, listener {li} was told {seq}',
                                                 wit, observed={str(k): v for k, v in seqs.items()}))

    def refusals(self, ctx, res, calls):
        for before, after, edges in res['refusals']:
            if before != after or edges:
                self.run.add_finding(Finding('refused-call-had-effect', 'a call that returned False changed the transfer',
                                             dict(ctx, calls=[list(c) for c in calls]), observed={'before': before, 'after': after, 'edges': edges},
                                             expected='no change'))

    def lock(self, ctx, res, calls):
        for v in res['violations']:
            self.run.add_finding(Finding(f'lock-not-held:{calls[v[2]][0] if v[2] is not None else "?"}',
                                         f'a state method acted ({v[1]}) without holding the transfer state lock',
                                         dict(ctx, calls=[list(c) for c in calls])))

    def exceptions(self, ctx, res, calls):
        for j, r in res['results'].items():
            if r[0] == 'exc' and r[1] == 'CancelledError' and j in res.get('cancelled', []):
                continue
            if r[0] == 'exc' and r[1] != 'InvalidStateTransition':
                self.run.add_finding(Finding(f'operation-raised:{r[1]}', f'{calls[j][0]} raised {r[1]}', dict(ctx, calls=[list(c) for c in calls])))

    def effects(self, ctx, call, before, after, ret):
        """documented side effects of a successful operation (Spec.required)"""
        if not ret:
            return
        sv = L.state_values()
        name = {v: k for k, v in sv.items()}
        s, s2 = name[before[0]], name[after[0]]
        op, reason, remotely = call
        dl = ctx['direction'] == 'DOWNLOAD'
        if (not dl and s in ('DOWNLOADING', 'INCOMPLETE')) or (dl and s == 'UPLOADING'):
            return   # state impossible for this direction (Spec.dir_ok)
        missing = []
        if op == 'abort':
            if after[2] != (reason if reason else -1):
                missing.append('abort_reason not recorded')
            if after[13] != 0 or after[14] != 0:
                missing.append('tasks not cancelled')
            if dl and before[11] and (after[11] or (after[12] and not ctx['cfg'].get('remove_fails'))):
                missing.append('local file not removed')
        if op == 'fail' and after[1] != (reason if reason else -1):
            missing.append('fail_reason not recorded')
        if op == 'pause' and s != 'VIRGIN' and (after[13] != 0 or after[14] != 0):
            missing.append('tasks not cancelled')
        if op == 'queue':
            if after[3] != int(bool(remotely)):
                missing.append('remotely_queued not recorded')
            if dl and s in ('ABORTED', 'COMPLETE') and after[6] != 0:
                missing.append('progress not reset')
            if dl and s == 'COMPLETE' and (after[11] or after[5] != -1):
                missing.append('local path / size not reset')
        if s2 in ('DOWNLOADING', 'UPLOADING') and not after[9]:
            missing.append('start_time not set')
        if s in ('DOWNLOADING', 'UPLOADING') and s2 in ('COMPLETE', 'INCOMPLETE', 'ABORTED', 'FAILED') and before[9] and not after[10]:
            missing.append('complete_time not set')
        dir_bad = (not dl and s2 in ('DOWNLOADING', 'INCOMPLETE') and s not in ('DOWNLOADING', 'INCOMPLETE')) or (dl and s2 == 'UPLOADING')
        if dir_bad:
            missing.append(f'{ctx["direction"]} entered {s2}')
        for m in missing:
            self.run.add_finding(Finding(f'documented-effect-missing:{op}@{s}:{m}', f'{op} from {s} ({ctx["direction"]}): {m}',
                                         dict(ctx, call=list(call)), observed=after, expected=m))


# ---------------------------------------------------------------------------------------------
# real runs
# ---------------------------------------------------------------------------------------------

def seq_events(h, calls):
    """drive calls one after the other to completion; returns per-call (ret, edges, before, after)"""
    out = []
    for j, c in enumerate(calls):
        before = h.snapshot()
        h.capture(j, c)
        h.start(j)
        guard = 0
        while j not in h.results and h.enabled_step() and guard < 10:
            h.do_step()
            guard += 1
        obs = h.take()
        r = h.results.get(j)
        out.append({'ret': r, 'edges': [(o[1], o[2]) for o in obs if o[0] == 'E'], 'before': before, 'after': h.snapshot(),
                    'obs': obs})
    return out


def run_sequential(tmp, state, direction, cfg, calls, mon: Monitor, manager=False):
    h = L.Harness(tmp, state, direction, cfg, gate=True, with_manager=manager)
    ctx = {'state': state, 'direction': direction, 'cfg': cfg, 'level': 'manager' if manager else 'state'}
    try:
        if not manager:
            steps = seq_events(h, calls)
        else:
            steps = []
            for j, c in enumerate(calls):
                before = h.snapshot()
                h.start_manager(j, c)
                h.settle()
                guard = 0
                while j not in h.results and h.enabled_step() and guard < 10:
                    h.do_step()
                    guard += 1
                obs = h.take()
                steps.append({'ret': h.results.get(j), 'edges': [(o[1], o[2]) for o in obs if o[0] == 'E'], 'before': before,
                              'after': h.snapshot(), 'obs': obs})
        res = {'per_event': [s['obs'] for s in steps], 'cap': dict(h.cap), 'violations': list(h.violations),
               'refusals': [(s['before'], s['after'], s['edges']) for s in steps
                            if s['ret'] in (('ret', False), ('exc', 'InvalidStateTransition'))],
               'results': dict(h.results)}
        mon.edges(ctx, res, calls, concurrent=False)
        mon.refusals(ctx, res, calls)
        mon.lock(ctx, res, calls)
        mon.exceptions(ctx, res, calls)
        sv = L.state_values()
        exp = []
        if manager:
            # TransferManager.abort/queue/pause: InvalidStateTransition iff the state method returned False, i.e. (C03_body_shape)
            # iff no state change was reported
            for s, c in zip(steps, calls):
                if s['ret'] == ('ret', True) and not s['edges']:
                    mon.run.add_finding(Finding(f'manager-accepts-refused:{c[0]}@{state}', f'TransferManager.{c[0]} returned normally although the '
                                                f'{state} transfer refused the operation', dict(ctx, calls=[list(c)]), expected='InvalidStateTransition'))
                if s['ret'] == ('exc', 'InvalidStateTransition') and s['edges']:
                    mon.run.add_finding(Finding(f'manager-raises-after-transition:{c[0]}@{state}', f'TransferManager.{c[0]} raised InvalidStateTransition '
                                                f'although the transition {s["edges"]} was made', dict(ctx, calls=[list(c)])))
        for s, c in zip(steps, calls):
            r = s['ret']
            code = 1 if r == ('ret', True) else (0 if r in (('ret', False), ('exc', 'InvalidStateTransition')) else 7)
            mon.effects(ctx, c, s['before'], s['after'], code == 1 and (not manager or bool(s['edges'])))
            exp.append([code] + [x for e in s['edges'] for x in (sv[e[0]], sv[e[1]])])
        final = h.snapshot()
        if not all(h.extra_snapshot()):
            mon.run.add_broken('correspondence:C03 last_*_attempt vs counters', json.dumps(ctx))
        exp.append(final)
        vt = ('seq', L.coq_transfer(state, direction, cfg), [L.coq_call(c) for c in calls], [], exp)
        return vt, ctx
    finally:
        h.close()


def with_calls(events, calls):
    return [(e[0], e[1], calls[e[1]]) if e[0] == 'C' else e for e in events]


def conc_case_text(state, direction, cfg, calls, events, res, flat=False, listeners=False):
    per = [L.encode_obs(o, res['rank'], listeners) for o in res['per_event']]
    captured = set(res['rank'])
    done = all(j in res['results'] for j in captured)
    if flat:
        exp = [[x for p in per for x in p], res['final'], [1 if done else 0]]
    else:
        exp = per + [res['final'], [1 if done else 0]]
    return ('lout' if listeners else ('flat' if flat else 'out'), L.coq_transfer(state, direction, cfg), [L.coq_call(c) for c in calls],
            list(events), exp)


def explore(tmp, state, direction, cfg, calls, mon: Monitor, run: Run, max_nodes=4000, slow_listener=False):
    """all schedules of the given calls (captures in index order), pruned on identical harness states.
    slow_listener: three listeners, the first one suspends (completion = one more 'T' event); these runs are judged by
    the monitors and compared with the listener machine of C03/Listen.v"""
    ctx = {'state': state, 'direction': direction, 'cfg': cfg, 'level': 'state'}
    if slow_listener:
        ctx['slow_listener'] = True
    seen = set()
    stack = [[]]
    cases = []
    nodes = 0
    while stack and nodes < max_nodes:
        ev = stack.pop()
        nodes += 1
        res = L.run_schedule(tmp, state, direction, cfg, calls, ev, slow_listener=slow_listener, cancellable=not slow_listener)
        c2 = dict(ctx, schedule=[list(e) for e in ev])
        if slow_listener:
            mon.listeners(c2, res, calls)
        mon.edges(c2, res, calls, concurrent=True)
        mon.refusals(c2, res, calls)
        mon.lock(c2, res, calls)
        mon.exceptions(c2, res, calls)
        started = [e[1] for e in ev if e[0] == 'S']
        sig = json.dumps([res['final'], sorted(res['cap'].items()), started, sorted(res['results'].items()),
                          res['enabled'], [[list(map(str, o)) for o in p] for p in res['per_event'] if p]], default=str)
        en = res['enabled']
        if sig in seen or not en:
            if not any(e[0] == 'U' for e in ev):    # 'U' cannot happen while notification is inside the lock: no model event
                cases.append((conc_case_text(state, direction, cfg, calls, ev, res, listeners=slow_listener), c2))
            run.case({'state': state, 'dir': direction, 'calls': [c[0] for c in calls], 'schedule': ''.join(e[0] for e in ev),
                      'slow': slow_listener},
                     nontrivial=len(ev) >= 2 * len(calls), kind=f'schedule-{len(calls)}calls' + ('-slow-listener' if slow_listener else ''))
            continue
        seen.add(sig)
        for e in reversed(en):
            stack.append(ev + [e])
    if stack:
        run.count('schedule-exploration-truncated')
    return cases


def directed(tmp, state, direction, cfg, calls, prefix, mon: Monitor, run: Run, kind):
    """one schedule: the given prefix, then slow operations / lock hand-overs completed in order until nothing is left"""
    ctx = {'state': state, 'direction': direction, 'cfg': cfg, 'level': 'state'}
    ev = list(prefix)
    for _ in range(24):
        res = L.run_schedule(tmp, state, direction, cfg, calls, ev)
        nxt = [e for e in res['enabled'] if e[0] in ('T', 'W')]
        if not nxt:
            break
        ev.append(nxt[0])
    c2 = dict(ctx, schedule=[list(e) for e in ev])
    mon.edges(c2, res, calls, concurrent=True)
    mon.refusals(c2, res, calls)
    mon.lock(c2, res, calls)
    mon.exceptions(c2, res, calls)
    run.case({'state': state, 'dir': direction, 'calls': [c[0] for c in calls], 'schedule': ''.join(e[0] for e in ev)}, kind=kind)
    return (conc_case_text(state, direction, cfg, calls, ev, res), c2)


def helper_scenarios(tmp, state, direction, mon: Monitor, run: Run):
    """listeners as the application may write them (monitors only): (1) the second of three listeners raises: what the
    listeners were told must be documented edges, the lock must be free afterwards and the next operation must run;
    (2) a listener registered after the first operation is told exactly the later changes"""
    doc = mon.doc
    for op in L.OPS:
        ctx = {'state': state, 'direction': direction, 'cfg': RICH, 'level': 'state', 'raising_listener': True}
        calls = [one_call(op), one_call('queue'), one_call('abort')]
        h = L.Harness(tmp, state, direction, RICH, gate=True, raising_listener=True)
        try:
            steps = seq_events(h, calls)
            res = {'per_event': [s['obs'] for s in steps], 'cap': dict(h.cap), 'violations': list(h.violations), 'refusals': [],
                   'results': {j: r for j, r in h.results.items() if r != ('exc', 'ListenerError')}}
            mon.edges(ctx, res, calls, concurrent=False)
            mon.lock(ctx, res, calls)
            mon.exceptions(ctx, res, calls)
            wit = dict(ctx, calls=[list(c) for c in calls])
            if h.lock.locked() or any(j not in h.results for j in range(len(calls))):
                run.add_finding(Finding('lock-stuck-after-listener-error', 'a raising listener left the state lock taken / an operation pending', wit))
            for st in steps:
                told = {}
                for o in st['obs']:
                    if o[0] == 'E':
                        told.setdefault(o[5], []).append((o[1], o[2]))
                if told and (told.get(0) != told.get(1)):
                    run.add_finding(Finding('listeners-told-different-changes', f'listeners before the failing one were told {told}', wit))
        finally:
            h.close()
        run.case({'s': state, 'd': direction, 'op': op, 'raising': True}, kind='raising-listener')
        # (2) late listener
        ctx = {'state': state, 'direction': direction, 'cfg': CFGS[0], 'level': 'state', 'late_listener': True}
        calls = [one_call(op), one_call('queue'), one_call('pause')]
        h = L.Harness(tmp, state, direction, CFGS[0], gate=True)
        try:
            first = seq_events(h, calls[:1])
            h.t.state_listeners.append(L.Recorder(h, 1))
            rest = []
            for j in (1, 2):
                h.capture(j, calls[j])
                h.start(j)
                while j not in h.results and h.enabled_step():
                    h.do_step()
                rest.append(h.take())
            a = [(o[1], o[2]) for obs in rest for o in obs if o[0] == 'E' and o[5] == 0]
            b = [(o[1], o[2]) for obs in rest for o in obs if o[0] == 'E' and o[5] == 1]
            res = {'per_event': [first[0]['obs']] + rest, 'cap': dict(h.cap), 'violations': list(h.violations), 'refusals': [],
                   'results': dict(h.results)}
            mon.edges(ctx, res, calls, concurrent=False)
            if a != b:
                run.add_finding(Finding('late-listener-told-different-changes', f'first listener {a}, listener registered later {b}',
                                        dict(ctx, calls=[list(c) for c in calls])))
        finally:
            h.close()
        run.case({'s': state, 'd': direction, 'op': op, 'late': True}, kind='late-listener')


class EdgeRecorder:
    def __init__(self):
        self.edges = []

    async def on_transfer_state_changed(self, transfer, old, new):
        self.edges.append((old.name, new.name))


def negotiation(mon: Monitor, run: Run, only=None):
    """transfers driven by the real TransferManager negotiation / message paths (mocked network): whatever the peer
    answers, every change the listeners are told must be a documented edge and the changes must chain"""
    import asyncio
    import warnings
    from unittest.mock import Mock, MagicMock
    from vlib import vloop
    warnings.simplefilter('ignore', RuntimeWarning)    # un-awaited AsyncMock calls of the mocked network
    from aioslsk.transfer.model import Transfer, TransferDirection
    from aioslsk.transfer.state import TransferState
    from aioslsk.protocol.messages import PeerTransferReply, PeerTransferQueueFailed, PeerUploadFailed
    replies = [('refused', r) for r in (None, 'Cancelled', 'Complete', 'Queued', 'File not shared.', 'File read error.', 'Blocked', 'Banned', '')]
    replies += [('allowed', None), ('timeout', None), ('disconnect', None)]
    scenarios = [('_initialize_upload', st, rep) for st in ('QUEUED', 'INCOMPLETE') for rep in replies]
    for st in L.STATES:
        for d in L.DIRS:
            scenarios.append(('_on_peer_transfer_queue_failed', st, d))
            scenarios.append(('_on_peer_upload_failed', st, d))
    for sc in scenarios:
        if only is not None and list(sc) != list(only):
            continue
        loop = vloop.new_loop()
        rec = EdgeRecorder()
        try:
            mgr = L.make_manager()
            mgr._network.queue_server_messages = MagicMock()
            path, st = sc[0], sc[1]
            direction = 'UPLOAD' if path == '_initialize_upload' else sc[2]
            t = Transfer('peer', '@abc\\song.mp3', TransferDirection[direction])
            t.filesize = 1000
            t.local_path = '/nonexistent/song.mp3'
            t.state = TransferState.init_from_state(TransferState.State[st], t)
            mgr._transfers.append(t)
            t.state_listeners.append(mgr)
            t.state_listeners.append(rec)
            if path == '_initialize_upload':
                kind, reason = sc[2]

                async def reply(peer, message_class, fields=None, kind=kind, reason=reason):
                    if kind == 'timeout':
                        raise asyncio.TimeoutError()
                    if kind == 'disconnect':
                        from aioslsk.exceptions import PeerConnectionError
                        raise PeerConnectionError('gone')
                    return Mock(), PeerTransferReply.Request(ticket=fields['ticket'], allowed=(kind == 'allowed'), reason=reason,
                                                             filesize=1000 if kind == 'allowed' else None)
                mgr._network.create_peer_response_future = reply
                coro = mgr._initialize_upload(t)
            else:
                conn = MagicMock()
                conn.username = 'peer'
                if path == '_on_peer_transfer_queue_failed':
                    msg = PeerTransferQueueFailed.Request(filename='@abc\\song.mp3', reason='Cancelled')
                else:
                    msg = PeerUploadFailed.Request(filename='@abc\\song.mp3')
                coro = getattr(mgr, path)(msg, conn)
            try:
                loop.run_coro(coro, timeout_virtual=600)
            except Exception:
                pass      # what the mocked network makes of the rest of the path is not the point: the reported changes are
        finally:
            vloop.close_loop(loop)
        wit = {'level': 'negotiation', 'scenario': list(sc)}
        for old, new in rec.edges:
            mon.nedges += 1
            if (old, new) not in mon.doc:
                run.add_finding(Finding(f'undocumented-edge:{old}->{new}', f'{sc[0]}: listener observed {old}->{new}, not an edge of the documented graph',
                                        wit, observed=rec.edges, expected='edges of the documented graph'))
        for (_, n1), (o2, _) in zip(rec.edges, rec.edges[1:]):
            if n1 != o2:
                run.add_finding(Finding('listener-notifications-do-not-chain', f'{sc[0]}: listener was told {rec.edges}', wit, observed=rec.edges))
        run.case({'negotiation': list(map(str, sc))}, nontrivial=bool(rec.edges), kind='manager-negotiation')


def natural(tmp, state, direction, cfg, calls, mon: Monitor, manager=False, long_wait=False):
    """gather()-like run on a plain asyncio.Lock: all coroutines created, then all started, slow operations
    completed in order; the lock hands over by itself."""
    h = L.Harness(tmp, state, direction, cfg, gate=False, with_manager=manager)
    ctx = {'state': state, 'direction': direction, 'cfg': cfg, 'level': 'manager' if manager else 'state', 'natural': True}
    try:
        events = []
        per = []
        n = len(calls)
        if not manager:
            for j, c in enumerate(calls):
                h.capture(j, c)
                events.append(('C', j))
                per.append([])
            for j in range(n):
                # tasks are created first and run in creation order within one loop iteration
                task = h.loop.create_task(h._runner(j, h.coros.pop(j)))
                h.task_of[task] = j
                h.tasks[j] = task
            h.settle()
            obs = h.take()
            for j in range(n):
                events.append(('S', j))
                per.append([])
            per[-1] = obs
        else:
            for j, c in enumerate(calls):
                h.start_manager(j, c)
            h.settle()
            obs = h.take()
            for j in range(n):
                events += [('C', j), ('S', j)]
                per += [[], []]
            per[-1] = obs
        events += [('W',)] * n
        per += [[]] * n
        if long_wait and h.enabled_step():
            # the slow operation takes a minute (hanging disk, peer that does not close): waiters must simply keep waiting
            ctx['long_wait'] = True
            h.loop.run_for(60.0)
            h.settle()
            per[-1] = per[-1] + h.take()
        guard = 0
        while h.enabled_step() and guard < 20:
            h.do_step()
            guard += 1
            events += [('T',)] + [('W',)] * n
            per += [h.take()] + [[]] * n
        rank = {j: j for j in range(n)}
        res = {'per_event': per, 'final': h.snapshot(), 'rank': rank, 'cap': dict(h.cap), 'violations': [], 'refusals': [],
               'results': dict(h.results)}
        # in a natural run a call "waited" when it was not the first to start
        res['per_event'] = [[(o[0], o[1], o[2], o[3], True) if o[0] == 'E' else o for o in p] for p in per]
        c2 = dict(ctx, schedule='gather')
        mon.edges(c2, res, calls, concurrent=True)
        mon.exceptions(c2, res, calls)
        # InvalidStateTransition == refusal
        res['results'] = {j: (('ret', False) if r == ('exc', 'InvalidStateTransition') else r) for j, r in res['results'].items()}
        res['per_event'] = [[(o[0], o[1], ('ret', False)) if (o[0] == 'R' and o[2] == ('exc', 'InvalidStateTransition')) else o for o in p]
                            for p in res['per_event']]
        return conc_case_text(state, direction, cfg, calls, events, res, flat=True), c2
    finally:
        h.close()


# ---------------------------------------------------------------------------------------------

def check_pins(run: Run):
    g = L.pinned_graph()
    pinned = sorted(map(tuple, g['edges']))
    spec = sorted(L.spec_edges())
    if pinned != spec:
        run.add_broken('pinned:C03/Spec.v documented_edges vs pinned/state_graph.json', f'{set(pinned) ^ set(spec)}')
    try:
        doc = sorted(L.plantuml_edges(L.png_plantuml(REPO / 'docs' / 'diagrams' / 'Transfer States.png')))
        if doc != pinned:
            run.add_broken('pinned:state_graph.json vs docs/diagrams/Transfer States.png (embedded PlantUML source)',
                           f'{set(doc) ^ set(pinned)}')
    except Exception as e:
        run.add_broken('pinned:docs/diagrams/Transfer States.png unreadable', repr(e))
    run.cov['documented_edges'] = len(pinned)
    run.cov['transitions'] = len(pinned)
    run.cov['states'] = len(g['states'])


def replay_witness(tmp, wit, mon: Monitor):
    calls = [tuple(c) for c in wit['calls']]
    cfg = L.default_cfg(**wit.get('cfg', {}))
    if wit.get('level') == 'manager':
        natural(tmp, wit['state'], wit['direction'], cfg, calls, mon, manager=True)
    elif wit.get('schedule') == 'gather':
        natural(tmp, wit['state'], wit['direction'], cfg, calls, mon, manager=False)
    else:
        ev = [tuple(e) for e in wit['schedule']]
        res = L.run_schedule(tmp, wit['state'], wit['direction'], cfg, calls, ev, slow_listener=bool(wit.get('slow_listener')))
        ctx = {'state': wit['state'], 'direction': wit['direction'], 'cfg': cfg, 'level': 'state', 'schedule': wit['schedule']}
        if wit.get('slow_listener'):
            ctx['slow_listener'] = True
            mon.listeners(ctx, res, calls)
        mon.edges(ctx, res, calls, concurrent=True)
        mon.refusals(ctx, res, calls)
        mon.lock(ctx, res, calls)
        return res
    return None


def run(run: Run):
    run.rule = ('real Transfer objects with a recording listener: (a) every state x direction x operation x argument x 5 field '
                'configurations, one call (exhaustive); (b) random operation sequences from random configurations; (c) every '
                'schedule (capture / start / slow-operation completion / lock hand-over) of 2 (thorough: also 3) concurrent '
                'operations from every state x direction, pruned on identical harness states; (d) gather() runs on a plain '
                'asyncio.Lock at state and TransferManager level. distinct = distinct (state, direction, config, calls, schedule); '
                'non-trivial = at least one call per operation fully scheduled')
    run.trusted += ['translate/tr_state.py (effect atoms recognised syntactically; _remove_local_file, _cancel_transfer_tasks and the '
                    'Transfer helper methods are hand-modelled in C03/Model.v and tied by the field-snapshot correspondence)',
                    'asyncio facts A1-A6 (FIFO lock hand-over, no barging while waiters exist), validated by the schedule runs; the '
                    'lock hand-over is delayed through a subclass of asyncio.Lock overriding _wake_up_first (CPython 3.12)',
                    'pinned/state_graph.json = documented graph (cross-checked with the diagram source in the repository on each run)']
    run.assumptions += ['transition methods are only invoked through Transfer.state (as the manager does)',
                        'listeners do not themselves call transition methods of the same transfer']
    run.prove(['tr_state', 'tr_transfer'], extra_targets=['theories/C03/Eval.vo'])
    check_pins(run)
    run.cov['redispatch_after_lock'] = L.gen_constant('redispatch_after_lock')
    if L.gen_reasons() != L.REASONS[1:4]:
        run.add_broken('constants: AbortReason values vs harness numbering', str(L.gen_reasons()))
    mon = Monitor(run)
    tmp = tempfile.mkdtemp(prefix='verif_c03_')
    cases = []          # (coq text, ctx)
    _t = time.time()
    try:
        # listed findings first: deterministic KNOWN-FINDING lines
        for key, wit, _fixed in run.known_witnesses():
            for w in (wit if isinstance(wit, list) else [wit]):
                replay_witness(tmp, w, mon)
                run.case({'corpus': key, 'level': w.get('level', 'state')})

        _t = _mark(run, 'known', _t)
        # (a) exhaustive single calls
        for state in L.STATES:
            for direction in L.DIRS:
                for ci, cfg in enumerate(CFGS):
                    for op in L.OPS:
                        for call in call_variants(op):
                            cases.append(run_sequential(tmp, state, direction, cfg, [call], mon))
                            run.case({'s': state, 'd': direction, 'cfg': ci, 'call': call}, kind='single-call')
        # error / clean-up paths: the cancelled tasks die with an error (compared with the model: same outcome as a clean
        # finish), the file system refuses to remove the file (monitors only: the operation must still go through)
        for state in L.STATES:
            for direction in L.DIRS:
                for op in ('abort', 'pause'):
                    call = one_call(op)
                    cases.append(run_sequential(tmp, state, direction, dict(RICH, task_error=True), [call], mon))
                    run.case({'s': state, 'd': direction, 'call': call, 'task_error': True}, kind='single-call-task-error')
                    if op == 'abort':
                        run_sequential(tmp, state, direction, dict(RICH, remove_fails=True), [call], mon)
                        run_sequential(tmp, state, direction, dict(RICH, remove_fails=True), [(op, 1, False)], mon, manager=True)
                        run.case({'s': state, 'd': direction, 'call': call, 'remove_fails': True}, kind='single-call-remove-fails')
        for state in L.STATES:
            for direction in L.DIRS:
                helper_scenarios(tmp, state, direction, mon, run)
        negotiation(mon, run)
        run.cov['exhaustive_part'] = 'state x direction x operation x argument x %d configurations' % len(CFGS)
        _t = _mark(run, 'single', _t)
        # manager level: abort/queue/pause raise InvalidStateTransition iff the state method returns False
        for state in L.STATES:
            for direction in L.DIRS:
                for cfg in (CFGS[0], CFGS[1]):
                    for op in ('abort', 'queue', 'pause'):
                        call = (op, 1, False) if op == 'abort' else (op, None, False)
                        cases.append(run_sequential(tmp, state, direction, cfg, [call], mon, manager=True))
                        run.case({'s': state, 'd': direction, 'mgr': op, 'rich': cfg is CFGS[1]}, kind='manager-call')
        _t = _mark(run, 'manager', _t)
        # (b) random sequences
        nseq = 40 if run.tier == 'quick' else 2000
        for _ in range(nseq):
            state, direction, cfg = run.rng.choice(L.STATES), run.rng.choice(L.DIRS), run.rng.choice(CFGS)
            calls = [one_call(run.rng.choice(L.OPS), run.rng) for _ in range(run.rng.randrange(2, 8))]
            cases.append(run_sequential(tmp, state, direction, cfg, calls, mon))
            run.case({'s': state, 'd': direction, 'calls': calls, 'cfg': CFGS.index(cfg)}, kind='sequence')

        _t = _mark(run, 'sequences', _t)
        # (c) all schedules of 2 concurrent operations
        pair_cfgs = [RICH] if run.tier == 'quick' else [RICH, CFGS[2]]
        for state in L.STATES:
            for direction in L.DIRS:
                for cfg in pair_cfgs:
                    for a in L.OPS:
                        for b in L.OPS:
                            calls = [one_call(a), (b, 2, False) if b in ('fail', 'abort') else one_call(b)]
                            cases += explore(tmp, state, direction, cfg, calls, mon, run)
        _t = _mark(run, 'pairs', _t)
        # (c2) three parties with a cancellation: a slow operation holds the lock, a second call waits for it, one of the two
        # is cancelled (wait_for timeout / shutdown / a task cancelled by an abort), a third call arrives
        for state in L.STATES:
            for direction in L.DIRS:
                for a in ('abort', 'pause'):
                    for c in L.OPS:
                        calls = [one_call(a), one_call('queue'), one_call(c)]
                        for victim in (1, 0):
                            prefix = [('C', 0), ('S', 0), ('C', 1), ('S', 1), ('X', victim), ('C', 2), ('S', 2)]
                            cases.append(directed(tmp, state, direction, RICH, calls, prefix, mon, run, 'cancel-3calls'))
        # (c') the same with a slow first listener and two more listeners (monitors only)
        for state in L.STATES:
            for direction in (('DOWNLOAD',) if run.tier == 'quick' else L.DIRS):
                for cfg in ([CFGS[0]] if (run.tier == 'quick' or direction == 'UPLOAD') else [CFGS[0], RICH]):
                    for a in L.OPS:
                        for b in L.OPS:
                            cases += explore(tmp, state, direction, cfg, [one_call(a), one_call(b)], mon, run, max_nodes=600,
                                             slow_listener=True)
        if run.tier == 'thorough':
            ops3 = ['abort', 'pause', 'queue']
            for state in L.STATES:
                for direction in L.DIRS:
                    for a in ops3:
                        for b in ops3:
                            for c in ops3:
                                calls = [one_call(a), one_call(b), one_call(c)]
                                cases += explore(tmp, state, direction, CFGS[3] if state in ('QUEUED', 'PAUSED') else RICH, calls, mon, run,
                                                 max_nodes=250)
        _t = _mark(run, 'triples', _t)
        # (d) natural runs
        for state in L.STATES:
            for direction in L.DIRS:
                for cfg in ((RICH,) if run.tier == 'quick' else (CFGS[0], RICH)):
                    for a in (('abort', 'pause', 'queue') if run.tier == 'quick' else L.OPS):
                        for b in L.OPS:
                            cases.append(natural(tmp, state, direction, cfg, [one_call(a), one_call(b)], mon))
                            run.case({'s': state, 'd': direction, 'gather': [a, b], 'rich': cfg is RICH}, kind='gather-state')
                    for a in ('abort', 'pause'):       # the first operation holds the lock for a minute
                        for b in L.OPS:
                            cases.append(natural(tmp, state, direction, cfg, [one_call(a), one_call(b)], mon, long_wait=True))
                            run.case({'s': state, 'd': direction, 'gather': [a, b], 'long': True}, kind='gather-state-long-wait')
                    for a in ('abort', 'queue', 'pause'):
                        for b in ('abort', 'queue', 'pause'):
                            ca = (a, 1, False) if a == 'abort' else (a, None, False)
                            cb = (b, 1, False) if b == 'abort' else (b, None, False)
                            cases.append(natural(tmp, state, direction, cfg, [ca, cb], mon, manager=True))
                            run.case({'s': state, 'd': direction, 'gather-mgr': [a, b], 'rich': cfg is RICH}, kind='gather-manager')
    finally:
        shutil.rmtree(tmp, ignore_errors=True)
    _t = _mark(run, 'gather', _t)
    run.cov['listener_edges_checked'] = mon.nedges

    # L2: model vs implementation
    shard = 2500
    texts = [L.shard_text(L.COQ_HEADER, [c[0] for c in cases[i:i + shard]]) for i in range(0, len(cases), shard)]
    try:
        outs = coq_eval_many('c03', texts)
        nbad = 0
        for k, out in enumerate(outs):
            vals = parse_eval(out)
            bad = parse_coq_list(vals[0]) if vals else None
            if bad is None:
                raise BrokenTie('correspondence:C03', f'no output from shard {k}')
            for b in bad:
                nbad += 1
                if nbad <= 3:
                    (kind, tlit, clits, evs, exp), ctx = cases[k * shard + int(b)]
                    run.add_broken('correspondence:C03 model (step_seq / concurrent machine) vs real Transfer',
                                   f'diverging case: {json.dumps(ctx, default=str)[:600]} :: model {kind} {tlit} {clits} {evs} :: observed {exp}')
        run.cov['traces_validated_against_impl'] = len(cases) - nbad
        _mark(run, 'coq-eval', _t)
    except BrokenTie as e:
        run.add_broken(e.obligation, e.detail)


def _mark(run, name, t0):
    run.cov.setdefault('section_seconds', {})[name] = round(time.time() - t0, 1)
    return time.time()


def replay(rep) -> int:
    wit = rep['witness']
    tmp = tempfile.mkdtemp(prefix='verif_c03_')
    r = Run(prop='C03', tier='quick', seed=0)
    mon = Monitor(r)
    try:
        if wit.get('level') == 'negotiation':
            negotiation(mon, r, only=wit['scenario'])
        elif 'call' in wit:   # documented-effect finding on a single call
            run_sequential(tmp, wit['state'], wit['direction'], wit['cfg'], [tuple(wit['call'])], mon, manager=wit.get('level') == 'manager')
        elif wit.get('level') == 'manager' and not wit.get('natural'):
            run_sequential(tmp, wit['state'], wit['direction'], wit['cfg'], [tuple(c) for c in wit['calls']], mon, manager=True)
        elif 'schedule' in wit and wit['schedule'] != 'gather':
            res = replay_witness(tmp, wit, mon)
            print('per-event observations:', res['per_event'])
            print('final snapshot:', res['final'])
        elif wit.get('natural') or wit.get('schedule') == 'gather':
            w = dict(wit)
            w['schedule'] = 'gather'
            if w.get('long_wait'):
                natural(tmp, w['state'], w['direction'], L.default_cfg(**w.get('cfg', {})), [tuple(c) for c in w['calls']], mon,
                        manager=w.get('level') == 'manager', long_wait=True)
            else:
                replay_witness(tmp, w, mon)
        else:
            run_sequential(tmp, wit['state'], wit['direction'], wit['cfg'], [tuple(c) for c in wit['calls']], mon)
    finally:
        shutil.rmtree(tmp, ignore_errors=True)
    for f in r.findings:
        print('FAILS:', f.key, '-', f.what, 'observed:', f.observed)
    return 1 if r.findings else 0
