"""C18 — search results reach only live requests; removal and timeouts are exact.

L1  theories/C18/Props.v over gen/TicketGen.v (ticket step regenerated from utils.py by tr_ticket)
L2  correspondence: histories of searches / wishlist rounds / replies / removals / timer
    cancel+reschedule / loop settling / time passing on the REAL SearchManager + Timer under the
    virtual-time loop, compared op by op with the model (`op_apply`, vm_compute): observations
    added, key set of `requests`, `timer._task is None` of every request, clock.
    The ticket generator is additionally compared with the generated step for several `initial`.
L3  monitor = the property text on the same traces (independent bookkeeping, no model).

Atomic segments are executed exactly as such: the coroutine of an API call / message handler is
driven by hand with the loop marked as running; if it suspends, the segment assumption of the
model is broken and the check says so.
"""
from __future__ import annotations

import asyncio
import itertools

from vlib.common import Run, Finding, BrokenTie, coq_eval_many, parse_eval, parse_coq_list, listlit

F22_KEY = 'F22-remove_request-leaves-timer-running-KeyError-in-timer-task'
F23_KEY = 'F23-reschedule-old-done-callback-clears-new-handle'
MAXT = 0xFFFFFFFF


class NotAtomic(Exception):
    pass


class Harness:
    """The real SearchManager (+ real EventBus, Settings, Timer) on a stub network, virtual time."""

    def __init__(self, start=1000):
        from vlib import vloop
        from aioslsk.search.manager import SearchManager
        from aioslsk.settings import Settings, CredentialsSettings
        from aioslsk.events import EventBus, SearchResultEvent, SearchRequestRemovedEvent, SearchRequestSentEvent
        self.vloop = vloop
        self.loop = vloop.new_loop(float(start))
        self.settings = Settings(credentials=CredentialsSettings(username='me', password='pw'))
        self.bus = EventBus()
        h = self

        class Net:
            fail_next = False

            async def send_server_messages(self, *msgs):
                if self.fail_next:
                    self.fail_next = False
                    raise ConnectionError('server gone')
                h.sent.extend(msgs)

        class Conn:
            """peer connection of a reply; with a gate its close suspends (a slow close)"""

            def __init__(self, gate=None):
                self.gate = gate

            async def disconnect(self, reason=None):
                h.disconnects += 1
                if self.gate is not None:
                    await self.gate

        self.sent = []
        self.disconnects = 0
        self.net = Net()
        self.conn = Conn()
        self.mgr = SearchManager(self.settings, self.bus, None, None, self.net)
        self.events = []
        self.reqs = {}          # ticket -> request object (as a library user would keep it)
        self.nerr = 0
        self.reply_id = 0
        self.tracked = {}
        self.pending = []       # reply handlers suspended in connection.disconnect(): (coroutine, gate)
        self.Conn = Conn

        def on_sent(e):
            r = e.query
            self.reqs[r.ticket] = r
            self.events.append(('sent', r.ticket, self.t(), int(r.timer.timeout) if r.timer is not None else 0))

        def on_result(e):
            self.events.append(('result', e.query.ticket, int(e.result.avg_speed), e.result.ticket))

        def on_removed(e):
            self.events.append(('removed', e.query.ticket, self.t()))
        self._listeners = (on_sent, on_result, on_removed)   # the bus holds listeners weakly
        self.bus.register(SearchRequestSentEvent, on_sent)
        self.bus.register(SearchResultEvent, on_result)
        self.bus.register(SearchRequestRemovedEvent, on_removed)

    def t(self):
        v = self.loop.time()
        assert v == int(v), v
        return int(v)

    def close(self):
        self.vloop.close_loop(self.loop)

    # -- atomic segments ---------------------------------------------------------------------
    def atomic(self, fn, *args):
        """Run fn(*args) (plain call or coroutine function) as ONE segment: no loop iteration."""
        asyncio.events._set_running_loop(self.loop)
        try:
            r = fn(*args)
            if asyncio.iscoroutine(r):
                try:
                    r.send(None)
                except StopIteration as e:
                    return e.value
                r.close()
                raise NotAtomic(getattr(fn, '__name__', str(fn)))
            return r
        finally:
            asyncio.events._set_running_loop(None)

    def _track(self):
        """Watch every task of the loop: an exception escaping a task is what the loop's exception
        handler would report when the task object is collected ('Task exception was never
        retrieved'); observing it in a done-callback makes the instant deterministic."""
        for t in asyncio.all_tasks(self.loop):
            if id(t) not in self.tracked:
                self.tracked[id(t)] = t
                t.add_done_callback(self._task_done)

    def _task_done(self, t):
        self.tracked.pop(id(t), None)
        if t.cancelled():
            return
        exc = t.exception()
        if exc is None:
            return
        if isinstance(exc, KeyError) and exc.args and isinstance(exc.args[0], int):
            self.events.append(('errkey', exc.args[0], self.t()))
        else:
            self.events.append(('other', f'{type(exc).__name__} escaped a task'))

    def settle(self):
        for _ in range(4):
            self.loop.run_ready(8)
            nxt = self.loop._next_timer()
            if not self.loop._ready and (nxt is None or nxt > self.loop.time()):
                return
        raise BrokenTie('correspondence:C18 settle', 'the loop does not become quiet at one instant')

    # -- ops -----------------------------------------------------------------------------------
    def apply(self, op):
        from aioslsk.settings import WishlistSettingEntry
        from aioslsk.events import MessageReceivedEvent
        from aioslsk.protocol.messages import PeerSearchReply, WishlistInterval
        k = op[0]
        ev0 = len(self.events)
        extra = []
        m = self.mgr
        if k == 'S':
            self.settings.searches.send.request_timeout = op[2]
            fn = {'net': lambda: m.search('q'), 'room': lambda: m.search_room('room', 'q'), 'user': lambda: m.search_user('bob', 'q')}[op[1]]
            self.atomic(fn)
        elif k == 'A':
            self.net.fail_next = True
            try:
                self.atomic(lambda: m.search('q'))
                raise BrokenTie('correspondence:C18', 'search() swallowed the send failure')
            except ConnectionError:
                pass
        elif k == 'W':
            self.settings.searches.send.wishlist_request_timeout = op[1]
            self.settings.searches.wishlist = ([WishlistSettingEntry(query=f'w{i}', enabled=True) for i in range(op[2])]
                                               + [WishlistSettingEntry(query='off', enabled=False)])
            self.atomic(m._wishlist_job)
            self.settings.searches.wishlist = []
        elif k == 'I':
            self.atomic(self.bus.emit, MessageReceivedEvent(WishlistInterval.Response(op[1]), self.conn))
            # the periodic wishlist BackgroundTask is not part of this model: rounds are driven by 'W'
            t = m._wishlist_task.cancel()
            assert m.wishlist_interval == op[1]
        elif k == 'R':
            self.reply_id += 1
            msg = PeerSearchReply.Request(username='peer', ticket=op[1], results=[], has_slots_free=True,
                                          avg_speed=self.reply_id, queue_size=0, locked_results=[])
            d0 = self.disconnects
            self.atomic(self.bus.emit, MessageReceivedEvent(msg, self.conn))
            if self.disconnects != d0 + 1:
                extra.append(('other', 'reply handler did not close the connection'))
        elif k == 'Rs':
            # a reply whose connection closes slowly: the handler runs up to its suspension in disconnect()
            self.reply_id += 1
            msg = PeerSearchReply.Request(username='peer', ticket=op[1], results=[], has_slots_free=True,
                                          avg_speed=self.reply_id, queue_size=0, locked_results=[])
            gate = self.loop.create_future()
            coro = self.bus.emit(MessageReceivedEvent(msg, self.Conn(gate)))
            asyncio.events._set_running_loop(self.loop)
            try:
                coro.send(None)
                self.pending.append((coro, gate))
            except StopIteration:
                extra.append(('other', 'reply handler never closed the connection'))
            finally:
                asyncio.events._set_running_loop(None)
        elif k == 'Rf':
            # the slow close completes: the rest of the oldest suspended reply handler runs
            if self.pending:
                coro, gate = self.pending.pop(0)
                asyncio.events._set_running_loop(self.loop)
                try:
                    gate.set_result(None)
                    coro.send(None)
                    coro.close()
                    extra.append(('other', 'reply handler suspended a second time'))
                except StopIteration:
                    pass
                finally:
                    asyncio.events._set_running_loop(None)
        elif k == 'L':
            # the server session is destroyed and initialized again (reconnect + login)
            from aioslsk.events import SessionDestroyedEvent, SessionInitializedEvent
            from aioslsk.session import Session
            from aioslsk.user.model import User
            sess = Session(user=User('me'), ip_address='1.2.3.4', greeting='hi', client_version=157, minor_version=100)
            if op[1]:
                self.atomic(self.bus.emit, SessionDestroyedEvent(sess))
            self.atomic(self.bus.emit, SessionInitializedEvent(sess, None))
        elif k == 'X':
            try:
                arg = self.reqs[op[1]] if (op[1] in self.reqs and op[2]) else op[1]
                self.atomic(m.remove_request, arg)
                extra.append(('removeok', op[1]))
            except KeyError:
                extra.append(('removeerr', op[1]))
        elif k == 'C':
            r = self.reqs.get(op[1])
            if r is not None and r.timer is not None:
                self.atomic(r.timer.cancel)
        elif k == 'T':
            r = self.reqs.get(op[1])
            if r is not None and r.timer is not None:
                self.atomic(r.timer.reschedule, op[2])
        elif k == 'cfg':
            # settings combination: results are reported but not stored in request.results
            self.settings.searches.send.store_results = bool(op[1])
        elif k == 'settle':
            self.settle()
        elif k == 'run':
            self.settle()
            target = self.loop.time() + op[1]
            self.loop.run_for(op[1])
            if self.loop.time() < target:     # vloop stops at the last timer when none is left: let the rest pass
                self.loop.advance(target - self.loop.time())
            self.settle()
        elif k == 'lag':
            self.loop.advance(op[1])
        else:
            raise ValueError(op)
        self._track()
        new = self.events[ev0:] + extra
        for ctx in self.loop.unhandled[self.nerr:]:
            new.append(('other', f"{type(ctx.get('exception')).__name__}: {ctx.get('message')}"))
        self.nerr = len(self.loop.unhandled)
        handles = sorted((tk, r.timer is not None and r.timer._task is not None) for tk, r in self.reqs.items())
        stored = sorted((tk, len(r.results)) for tk, r in self.reqs.items())
        return {'new': new, 'requests': sorted(m.requests.keys()), 'handles': handles, 'now': self.t(), 'stored': stored}


def run_impl(ops, start=1000):
    h = Harness(start)
    try:
        return [h.apply(op) for op in ops]
    finally:
        h.close()


# --------------------------------------------------------------------------------------------
# generation
# --------------------------------------------------------------------------------------------

TAUS = [0, 0, 1, 2, 3, 5, 5, 7, 10, -1]


def gen_ops(rng, n):
    """Histories.  Tickets are deterministic (k-th issue = k+1), so ops name tickets literally."""
    ops = []
    issued = 0
    pending = [0]

    def some_ticket():
        r = rng.random()
        if issued and r < 0.8:
            return rng.randrange(2, issued + 2)
        return rng.choice([0, 1, issued + 2, issued + 3, 999, MAXT])

    style = rng.choice(['mixed', 'mixed', 'timers', 'instant', 'wish'])
    if rng.random() < 0.3:
        ops.append(['cfg', False])
    for _ in range(n):
        r = rng.random()
        if style == 'instant' and issued and r < 0.35:
            # everything at one deadline instant, in a random order
            tk = rng.randrange(2, issued + 2)
            ops.append(['settle'])
            ops.append(['lag', rng.choice([1, 2, 3, 5])])
            acts = [['X', tk, rng.random() < 0.5], ['R', tk], ['settle'], ['C', tk], ['T', tk, rng.choice([None, 0, 2])], ['Rs', tk], ['Rf']]
            rng.shuffle(acts)
            ops.extend(acts[:rng.randrange(2, 6)])
            continue
        if r < 0.22:
            ops.append(['S', rng.choice(['net', 'room', 'user']), rng.choice(TAUS)])
            issued += 1
        elif r < 0.27:
            k = rng.randrange(0, 4)
            ops.append(['W', rng.choice([-1, -1, 0, 3, 5, -7]), k])
            issued += k
        elif r < 0.30:
            ops.append(['I', rng.choice([0, 2, 5, 720])])
        elif r < 0.33:
            ops.append(['A'])
            issued += 1
        elif r < 0.44:
            ops.append(['R', some_ticket()])
        elif r < 0.48:
            ops.append(['Rs', some_ticket()])
            pending[0] += 1
        elif r < 0.49:
            if pending[0]:
                ops.append(['Rf'])
                pending[0] -= 1
        elif r < 0.50:
            ops.append(['L', rng.random() < 0.7])
        elif r < 0.60:
            ops.append(['X', some_ticket(), rng.random() < 0.5])
        elif r < 0.67:
            ops.append(['C', some_ticket()])
        elif r < (0.80 if style == 'timers' else 0.73):
            ops.append(['T', some_ticket(), rng.choice([None, None, 0, 1, 2, 5, 7, -3])])
        elif r < 0.86:
            ops.append(['settle'])
        elif r < 0.97:
            ops.append(['run', rng.choice([0, 1, 1, 2, 3, 5, 10, 600])])
        else:
            ops.append(['settle'])
            ops.append(['lag', rng.choice([1, 2, 5])])
    ops.extend([['Rf']] * pending[0])
    ops.append(['run', 2000])
    return ops


def directed_histories():
    """All orders of removal / expiry / reply / cancel / re-arm around one deadline."""
    out = []
    acts = [['X', 2, False], ['R', 2], ['C', 2], ['T', 2, 4], ['T', 2, None], ['settle']]
    for tau in (3,):
        for pre in ([['settle'], ['run', 3]], [['settle'], ['lag', 3]], [['run', 1]], []):
            for k in (1, 2, 3):
                for seq in itertools.permutations(acts, k):
                    out.append([['S', 'net', tau]] + pre + [list(a) for a in seq] + [['run', 50], ['R', 2], ['run', 50]])
    for mid in ([['X', 2, False]], [['run', 3]], [['settle'], ['lag', 3], ['settle']], [['C', 2]], [['T', 2, 1], ['run', 1]], []):
        out.append([['S', 'net', 3], ['Rs', 2]] + [list(a) for a in mid] + [['Rf'], ['run', 50]])
        out.append([['S', 'net', 0], ['Rs', 2], ['Rs', 2]] + [list(a) for a in mid] + [['Rf'], ['R', 2], ['Rf'], ['run', 50]])
    # many requests live at the same time (a bounded or evicting registry would lose the oldest ones)
    many = [['S', ('net', 'room', 'user')[i % 3], 40 if i % 4 else 0] for i in range(300)] + [['W', 0, 3], ['W', 45, 3]]
    out.append(many + [['R', 2], ['R', 3], ['R', 150], ['R', 301], ['R', 307], ['run', 41], ['R', 2], ['R', 6], ['R', 302], ['run', 10], ['R', 305], ['R', 2]])
    for store in (False, True):
        out.append([['cfg', store], ['S', 'net', 3], ['R', 2], ['Rs', 2], ['Rf'], ['R', 9], ['run', 5], ['R', 2]])
    for tau in (0, 5):
        for destroy in (True, False):
            out.append([['S', 'net', tau], ['S', 'user', tau], ['L', destroy], ['S', 'net', tau], ['R', 2], ['R', 3], ['run', 2], ['S', 'room', 3], ['R', 2], ['run', 50], ['R', 4], ['R', 2]])
    return out


# --------------------------------------------------------------------------------------------
# monitor: the property text on one real trace
# --------------------------------------------------------------------------------------------

def monitor(ops, obs):
    """Returns list of (key, what, detail).  Bookkeeping uses only what a library user sees."""
    viol = []
    live = set()
    sent = {}          # tk -> (t0, tau)
    manual = set()     # manually removed tickets
    removed_ev = {}    # tk -> count
    timer_ops = {}     # tk -> list of ('C'|'T', time, tau, loop_ran_since_prev_start)
    ran_since_start = {}   # tk -> did the loop run since the timer's last start()
    deadline = {}      # tk -> currently armed deadline or None
    lag = False
    fired = {}
    armed_dead = {}
    storing = True
    delivered = {}
    for op, o in zip(ops, obs):
        now_before = None
        k = op[0]
        tk = op[1] if len(op) > 1 and k in ('R', 'Rs', 'X', 'C', 'T') else None
        was_live = set(live)
        if k == 'lag':
            lag = True
        if k == 'cfg':
            storing = bool(op[1])
        if k in ('settle', 'run'):
            for x in ran_since_start:
                ran_since_start[x] = True
        for e in o['new']:
            if e[0] == 'sent':
                _, t, t0, tau = e
                if t in sent:
                    viol.append(('ticket-reused', f'ticket {t} issued twice within {len(sent)} issues', {}))
                if not (1 <= t <= MAXT):
                    viol.append(('ticket-range', f'ticket {t} outside uint32', {}))
                sent[t] = (t0, tau)
                if tau != 0 and ((k == 'S' and op[2] <= 0) or (k == 'W' and op[1] == 0)):
                    viol.append(('timer-although-timeout-is-off', f'request {t} was created with the timeout switched off (setting {op[2] if k == "S" else op[1]}) but carries a timer of {tau} s', {}))
                live.add(t)
                if tau > 0:
                    deadline[t] = t0 + tau
                    ran_since_start[t] = False
            elif e[0] == 'result':
                _, t, rid, rt = e
                if storing:
                    delivered[t] = delivered.get(t, 0) + 1
                if not (k in ('R', 'Rs') and t == op[1] and rt == t and t in was_live):
                    shape = 'after-manual-removal' if t in manual else ('after-timeout' if removed_ev.get(t) else 'unknown-ticket')
                    viol.append(('result-for-dead-request:' + shape, f'SearchResultEvent for ticket {t} which is not a live request', {}))
            elif e[0] == 'removed':
                _, t, at = e
                removed_ev[t] = removed_ev.get(t, 0) + 1
                fired[t] = fired.get(t, 0) + 1
                if t not in live:
                    viol.append(('removed-event-for-dead-request', f'SearchRequestRemovedEvent for ticket {t} which is not registered', {}))
                live.discard(t)
                viol.extend(_check_fire(t, at, sent, timer_ops, deadline, lag, fired))
            elif e[0] == 'errkey':
                _, t, at = e
                fired[t] = fired.get(t, 0) + 1
                pre = _check_fire(t, at, sent, timer_ops, deadline, lag, fired)
                if pre:
                    viol.extend(pre)
                elif armed_dead.get(t):
                    pass   # the user re-armed the timer of a request that was no longer registered: the caller's doing
                elif t in manual:
                    viol.append((F22_KEY, f'KeyError({t}) in the timer task of a request removed with remove_request', {}))
                elif _f23_shape(timer_ops.get(t, [])):
                    viol.append((F23_KEY, f'KeyError({t}): a second task of the same timer ran after the request was already timed out', {}))
                else:
                    viol.append(('timer-task-error', f'KeyError({t}) in a timer task of a request that was not removed by the user', {}))
            elif e[0] == 'removeok':
                if e[1] not in live:
                    viol.append(('remove-dead-ok', f'remove_request({e[1]}) succeeded for an unregistered ticket', {}))
                live.discard(e[1])
                manual.add(e[1])
            elif e[0] == 'removeerr':
                if e[1] in live:
                    viol.append(('remove-live-failed', f'remove_request({e[1]}) raised for a live request', {}))
            elif e[0] == 'other':
                viol.append(('unexpected-error', str(e[1]), {}))
        if k in ('R', 'Rs') and op[1] in was_live and not any(e[0] == 'result' and e[1] == op[1] for e in o['new']):
            viol.append(('result-lost', f'reply for live ticket {op[1]} produced no SearchResultEvent', {}))
        if k in ('C', 'T') and tk in sent and sent[tk][1] > 0:
            timer_ops.setdefault(tk, []).append((k, o['now'], op[2] if k == 'T' else None, ran_since_start.get(tk, True)))
            if k == 'C':
                deadline[tk] = None
            else:
                tau = op[2] if op[2] is not None else _cur_timeout(tk, sent, timer_ops)
                deadline[tk] = o['now'] + max(tau, 0)
                if tk not in live:
                    armed_dead[tk] = True
                ran_since_start[tk] = False
        for t, n in o.get('stored', []):
            if n != delivered.get(t, 0):
                viol.append(('stored-results-differ-from-reported-results', f'request {t} stores {n} results but {delivered.get(t, 0)} were reported while store_results was on', {}))
                break
        if set(o['requests']) != live:
            viol.append(('requests-map-differs-from-history', f'requests={o["requests"]} but the event history says {sorted(live)}', {}))
    # exactly once, eventually (every history ends with a long quiet run)
    end = obs[-1]['now'] if obs else 0
    for t, (t0, tau) in sent.items():
        if tau > 0 and t not in timer_ops and t not in manual:
            if removed_ev.get(t, 0) != 1 and end > t0 + tau:
                viol.append(('timeout-not-exactly-once', f'request {t} (timeout {tau}) was reported removed {removed_ev.get(t, 0)} times', {}))
        if tau == 0 and removed_ev.get(t):
            viol.append(('removed-without-timeout', f'request {t} has no timeout but was removed by a timer', {}))
    return viol


def _cur_timeout(tk, sent, timer_ops):
    tau = sent[tk][1]
    for x in timer_ops.get(tk, [])[:-1]:
        if x[0] == 'T' and x[2] is not None:
            tau = x[2]
    return tau


def _f23_shape(ops_t):
    """the timer was re-armed with reschedule() and, after the loop ran, cancelled or re-armed again"""
    idx_t = [i for i, x in enumerate(ops_t) if x[0] == 'T']
    return bool(idx_t) and any(x[3] for x in ops_t[idx_t[0] + 1:])


def _check_fire(t, at, sent, timer_ops, deadline, lag, fired):
    """A timer task of request t ran its callback at time `at`: was that deadline armed?"""
    if t not in sent or sent[t][1] <= 0:
        return [('fire-without-timer', f'timer fired for ticket {t} which has no timer', {})]
    ops_t = timer_ops.get(t, [])
    d = deadline.get(t)
    # F23 shape: the timer was re-armed (reschedule) and, after the loop ran, cancelled or re-armed again
    key = F23_KEY if _f23_shape(ops_t) else None
    if d is None:
        return [(key or 'cancelled-timer-fired', f'timer of request {t} fired at {at} although it was cancelled', {})]
    if d == 'fired':
        return [(key or 'timer-fired-twice', f'timer of request {t} fired {fired[t]} times for one armed deadline', {})]
    if at < d:
        return [(key or 'superseded-deadline-fired', f'timer of request {t} fired at {at}, before the armed deadline {d}', {})]
    if at > d and not lag:
        return [(key or 'timeout-late', f'timer of request {t} fired at {at}, after the armed deadline {d}', {})]
    deadline[t] = 'fired'
    return []


# --------------------------------------------------------------------------------------------
# model side
# --------------------------------------------------------------------------------------------

def z(n):
    return f'({n})' if n < 0 else str(n)


def ev_coq(op):
    k = op[0]
    if k in ('Rf', 'L', 'cfg'):
        return []
    if k == 'S':
        return [f'OEv (Search {z(op[2])})']
    if k == 'A':
        return ['OEv SearchAborted']
    if k == 'W':
        return [f'OEv (Wish {z(op[1])})'] * op[2]
    if k == 'I':
        return [f'OEv (SetInterval {z(op[1])})']
    if k == 'X':
        return [f'OEv (Remove {z(op[1])})']
    if k == 'C':
        return [f'OEv (Cancel {z(op[1])})']
    if k == 'T':
        return [f'OEv (Resched {z(op[1])} {"None" if op[2] is None else "(Some " + z(op[2]) + ")"})']
    if k == 'settle':
        return ['OSettle']
    if k == 'run':
        return [f'ORunFor {z(op[1])}']
    if k == 'lag':
        return [f'OEv (Lag {z(op[1])})']
    raise ValueError(op)


def obs_coq(e):
    if e[0] == 'sent':
        return f'OSent {z(e[1])} {z(e[2])} {z(e[3])}'
    if e[0] == 'result':
        return f'OResult {z(e[1])} {z(e[2])}'
    if e[0] == 'removed':
        return f'ORemoved {z(e[1])} {z(e[2])}'
    if e[0] == 'errkey':
        return f'OErrKey {z(e[1])} {z(e[2])}'
    if e[0] == 'removeok':
        return f'ORemoveOk {z(e[1])}'
    if e[0] == 'removeerr':
        return f'ORemoveKeyErr {z(e[1])}'
    return None


COQ_PRELUDE = r'''From Coq Require Import ZArith List Bool.
From SlskGen Require Import TicketGen.
From Slsk Require Import C18.Model.
Import ListNotations. Open Scope Z_scope.
Definition obs_eqb (a b : obs) : bool :=
  match a, b with
  | OSent x y w, OSent x' y' w' => andb (Z.eqb x x') (andb (Z.eqb y y') (Z.eqb w w'))
  | OResult x y, OResult x' y' => andb (Z.eqb x x') (Z.eqb y y')
  | ORemoved x y, ORemoved x' y' => andb (Z.eqb x x') (Z.eqb y y')
  | OErrKey x y, OErrKey x' y' => andb (Z.eqb x x') (Z.eqb y y')
  | ORemoveOk x, ORemoveOk x' => Z.eqb x x'
  | ORemoveKeyErr x, ORemoveKeyErr x' => Z.eqb x x'
  | _, _ => false
  end.
Fixpoint del1 (o : obs) (l : list obs) : option (list obs) :=
  match l with [] => None | x :: r => if obs_eqb o x then Some r else option_map (cons x) (del1 o r) end.
Fixpoint permb (a b : list obs) : bool :=
  match a with [] => match b with [] => true | _ => false end
  | x :: r => match del1 x b with Some b' => permb r b' | None => false end end.
Definition seteq (a b : list Z) := andb (forallb (fun x => memz x b) a) (forallb (fun x => memz x a) b).
(* expectation per op: observations added, requests keys, (ticket, handle set), clock *)
Definition expect := (list obs * list Z * list (Z * bool) * Z)%type.
Definition check1 (s s' : state) (x : expect) : bool :=
  let '(o, rq, hs, t) := x in
  andb (permb (added s s') o) (andb (seteq (requests s') rq)
   (andb (forallb (fun p => Bool.eqb (handle_set s' (fst p)) (snd p)) hs) (Z.eqb (now s') t))).
(* an impl op may stand for several model ops (a wishlist round); the expectation is checked after the last *)
Fixpoint apply_all (s : state) (l : list op) : state := match l with [] => s | o :: r => apply_all (op_apply s o) r end.
Fixpoint agree (s : state) (l : list (list op * expect)) (i : nat) : option nat :=
  match l with
  | [] => None
  | (os, x) :: r => let s' := apply_all s os in if check1 s s' x then agree s' r (S i) else Some i
  end.
'''


def coq_cases(cases, start):
    lines = [COQ_PRELUDE, f'Definition s0 := set_now init {z(start)}.',
             'Definition cases : list (nat * list (list op * expect)) := [']
    rows = []
    for idx, (ops, obs) in enumerate(cases):
        steps = []
        for op, o in zip(ops, obs):
            if op[0] in ('R', 'Rs'):
                rid = next((e[2] for e in o['new'] if e[0] == 'result'), None)
                # reply ids are the running reply counter of the harness
                evs = [f'OEv (Reply {z(op[1])} {o["rid"]})']
            else:
                evs = ev_coq(op)
            ol = [obs_coq(e) for e in o['new']]
            ol = [x for x in ol if x is not None]
            steps.append('(' + listlit(evs) + ', (' + listlit(ol) + ', ' + listlit(z(t) for t in o['requests']) + ', '
                         + listlit(f'({z(t)}, {"true" if b else "false"})' for t, b in o['handles']) + ', ' + z(o['now']) + '))')
        rows.append(f' ({idx}%nat, {listlit(steps)})')
    lines.append(';\n'.join(rows))
    lines.append('].')
    lines.append('Definition bad := flat_map (fun c => match agree s0 (snd c) 0 with None => [] | Some i => [(fst c, i)] end) cases.')
    lines.append('Eval vm_compute in (map (fun p => (Z.of_nat (fst p) * 100000 + Z.of_nat (snd p))%Z) bad).')
    return '\n'.join(lines) + '\n'


def annotate_rids(ops, obs):
    rid = 0
    for op, o in zip(ops, obs):
        if op[0] in ('R', 'Rs'):
            rid += 1
            o['rid'] = rid


# --------------------------------------------------------------------------------------------
# ticket generator: real generator vs generated step
# --------------------------------------------------------------------------------------------

def ticket_checks(run: Run):
    from aioslsk.utils import ticket_generator
    rows = []
    n = 40
    for initial in [1, 0, 5, MAXT - 3, MAXT - 1, MAXT, 2 ** 31]:
        g = ticket_generator(initial)
        vals = [next(g) for _ in range(n)]
        rows.append((initial, vals))
        run.case({'ticket_initial': initial}, kind='ticket-gen')
    g = ticket_generator()
    dflt = [next(g) for _ in range(n)]
    text = ['From Coq Require Import ZArith List Bool.', 'From SlskGen Require Import TicketGen.', 'Import ListNotations. Open Scope Z_scope.',
            'Fixpoint it (n : nat) (i x : Z) : list Z := match n with O => [] | S m => let y := ticket_step i x in y :: it m i y end.',
            'Fixpoint eql (a b : list Z) := match a, b with [], [] => true | x :: a, y :: b => andb (Z.eqb x y) (eql a b) | _, _ => false end.',
            'Definition rows : list (Z * list Z) := ' + listlit(f'({i}, {listlit(map(str, v))})' for i, v in rows) + '.',
            f'Definition dflt : list Z := {listlit(map(str, dflt))}.',
            f'Eval vm_compute in (map fst (filter (fun r => negb (eql (it {n} (fst r) (fst r)) (snd r))) rows) ++ (if eql (it {n} TICKET_INITIAL TICKET_INITIAL) dflt then [] else [-1])).']
    # the monitor on the real generator: no repetition, range uint32 \ {0} ... as far as can be run
    steps = 1 << (21 if run.tier == 'quick' else 24)
    g = ticket_generator()
    first = next(g)
    seen_first_again = None
    prev = first
    bad_range = None
    for i in range(1, steps):
        v = next(g)
        if v == first and seen_first_again is None:
            seen_first_again = i
        if not (1 <= v <= MAXT) and bad_range is None:
            bad_range = (i, v)
        prev = v
    run.count('ticket_steps_monitored', steps)
    if seen_first_again is not None:
        run.add_finding(Finding('ticket-repeats-early', f'ticket_generator() repeats ticket {first} after {seen_first_again} issues (< 2^32-1)',
                                {'ticket_repeat_after': seen_first_again}, observed=seen_first_again, expected='>= 4294967295'))
    if bad_range is not None:
        run.add_finding(Finding('ticket-out-of-range', f'ticket {bad_range[1]} (issue {bad_range[0]}) is not a non-zero uint32',
                                {'ticket_issue': bad_range[0]}, observed=bad_range[1]))
    return '\n'.join(text) + '\n'


# --------------------------------------------------------------------------------------------

def classify(run: Run, ops, viol, found):
    """Attach findings; known keys only for violations of exactly the known shape."""
    for key, what, _ in viol:
        if key in found:
            continue
        found.add(key)
        small = ops
        if key not in (F22_KEY, F23_KEY):
            small = shrink(ops, key)
        run.add_finding(Finding(key, what, {'ops': small}, observed=what))


def has_key(ops, key):
    try:
        obs = run_impl(ops)
    except Exception:
        return False
    return any(v[0] == key for v in monitor(ops, obs))


def shrink(ops, key):
    from vlib.common import shrink_list
    try:
        return shrink_list(list(ops), lambda o: has_key(o, key), max_steps=120)
    except Exception:
        return ops


def run(run: Run):
    run.rule = ('histories over {search/room/user search with request_timeout in {0,1..10,-1}, wishlist round of 0..3 items with '
                'wishlist_request_timeout in {-1,0,3,5,-7} and server-provided interval, aborted search, PeerSearchReply for '
                'live/stale/unknown/future tickets, remove_request by ticket or object, timer.cancel, timer.reschedule(None|0|..), '
                'loop settle, run_for(dt), clock lag} on the real SearchManager+Timer under virtual time; plus all orders (length '
                '1..3) of remove/reply/cancel/re-arm/settle around one deadline instant; distinct = distinct op list; non-trivial = '
                'at least one timer fired or was cancelled and at least one reply was delivered or dropped')
    run.trusted += ['asyncio facts A1-A4 (FIFO ready queue, done-callbacks via call_soon, Task.cancel on a sleeping/resolved task) as '
                    'encoded in C18/Model.v step; validated by every correspondence run',
                    'stub network (send_server_messages does not suspend; listeners are plain functions): the segments of the model are atomic']
    run.assumptions += ['a request is identified by its ticket: fewer than 2^32-2 tickets are drawn in a history (nowrap)',
                        'first step of a timer task happens at the instant of Timer.start() (no loop lag between start and first step)']
    proved = run.prove(['tr_ticket', 'tr_search', 'tr_pins_c18'])
    deep = run.tier != 'quick' or not proved     # a broken tie (translator / fingerprint / proof) triggers the longer directed search

    found = set()
    # listed findings first (deterministic KNOWN-FINDING lines)
    for key, wit, fixed in run.known_witnesses():
        ops = wit['ops']
        try:
            obs = run_impl(ops)
        except BrokenTie as e:
            run.add_broken(e.obligation, e.detail)
            continue
        run.case({'corpus': key})
        v = [x for x in monitor(ops, obs)]
        classify(run, ops, [x for x in v if x[0] == key] or v, found)

    cases = []
    nrand = 350 if not deep else 3000
    hist = directed_histories()
    if not deep:
        keep = [h for h in hist if any(op[0] in ('Rs', 'L', 'cfg') for op in h) or len(h) > 100]
        rest = [h for h in hist if not (any(op[0] in ('Rs', 'L', 'cfg') for op in h) or len(h) > 100)]
        run.rng.shuffle(rest)
        hist = keep + rest[:230]
    for i in range(nrand):
        hist.append(gen_ops(run.rng, run.rng.randrange(3, 28 if not deep else 45)))
    for ops in hist:
        try:
            obs = run_impl(ops)
        except NotAtomic as e:
            run.add_broken('correspondence:C18 segment-not-atomic', f'{e} suspended; ops={ops[:30]}')
            continue
        except BrokenTie as e:
            run.add_broken(e.obligation, e.detail + f' ops={ops[:30]}')
            continue
        except Exception as e:
            run.add_finding(Finding('impl-exception', f'{type(e).__name__}: {e}', {'ops': ops}))
            continue
        annotate_rids(ops, obs)
        allnew = [e for o in obs for e in o['new']]
        nt = (any(e[0] in ('removed', 'errkey') for e in allnew) or any(op[0] == 'C' for op in ops)) and any(op[0] in ('R', 'Rs') for op in ops)
        run.case(ops, nontrivial=nt, kind=f'len<{(len(ops)//10+1)*10}')
        for e in allnew:
            run.count('obs:' + e[0])
        cases.append((ops, obs))
        viol = monitor(ops, obs)
        if viol:
            classify(run, ops, viol, found)

    texts = []
    shard = 120
    for i in range(0, len(cases), shard):
        texts.append(coq_cases(cases[i:i + shard], 1000))
    texts.append(ticket_checks(run))
    try:
        outs = coq_eval_many('c18', texts, timeout=900)
        nbad = 0
        for k, out in enumerate(outs[:-1]):
            vals = parse_eval(out)
            if not vals:
                raise BrokenTie('correspondence:C18', f'no output from shard {k}')
            for b in parse_coq_list(vals[0]):
                b = int(b)
                nbad += 1
                ops, obs = cases[k * shard + b // 100000]
                j = b % 100000
                if nbad <= 1:
                    run.add_broken('correspondence:C18 model(op_apply) vs SearchManager/Timer',
                                   f'history {ops} diverges at op {j} {ops[j]}: impl={ {kk: vv for kk, vv in obs[j].items()} }')
        run.cov['traces_validated_against_impl'] = len(cases) - nbad
        vals = parse_eval(outs[-1])
        bad = parse_coq_list(vals[0]) if vals else ['?']
        if bad:
            run.add_broken('correspondence:C18 ticket_step vs ticket_generator', f'differs for initial in {bad}')
    except BrokenTie as e:
        run.add_broken(e.obligation, e.detail)

    # the real periodic wishlist task with the server-provided interval (monitor only)
    periodic_wishlist(run, found)
    try:
        hb = helper_scenarios()
    except Exception as e:
        hb = [('crashed', f'{type(e).__name__}: {e}')]
    run.case({'helper_scenarios': 3}, kind='helper-scenarios')
    for name, what in hb:
        key = 'helper-scenario:' + name
        if key not in found:
            found.add(key)
            run.add_finding(Finding(key, what, {'helper_scenario': name}, observed=what))
    for kind, yields in (('net', 1), ('room', 2), ('user', 1), ('wish', 1), ('wish', 3)):
        try:
            bad = suspending_listeners(kind, 5, yields)
        except Exception as e:
            bad = [f'{type(e).__name__}: {e}']
        run.case({'suspending_listeners': kind, 'yields': yields}, kind='suspending-listeners')
        if bad and 'event-delivery-cut-off-by-suspending-listener' not in found:
            found.add('event-delivery-cut-off-by-suspending-listener')
            run.add_finding(Finding('event-delivery-cut-off-by-suspending-listener', bad[0], {'suspending_listeners': kind, 'yields': yields}, observed=bad))
    for kind in ('net', 'room', 'user'):
        try:
            bad = cancelled_creator(kind)
        except Exception as e:
            bad = [f'{type(e).__name__}: {e}']
        run.case({'cancelled_creator': kind}, kind='cancelled-creator')
        if bad and 'registered-request-without-running-timer' not in found:
            found.add('registered-request-without-running-timer')
            run.add_finding(Finding('registered-request-without-running-timer', bad[0], {'cancelled_creator': kind}, observed=bad))


def periodic_wishlist(run: Run, found):
    """WishlistInterval.Response(i) starts the real BackgroundTask: a round every i seconds, each
    request timing out after i seconds, i.e. at the very instant the next round starts."""
    from aioslsk.settings import WishlistSettingEntry
    from aioslsk.events import MessageReceivedEvent
    from aioslsk.protocol.messages import WishlistInterval
    for ival, nitems, rounds in [(5, 2, 4), (3, 1, 6), (7, 3, 3)]:
        bad = periodic_one(ival, nitems, rounds)
        run.case({'periodic': [ival, nitems, rounds]}, kind='periodic-wishlist')
        if bad and 'periodic-wishlist' not in found:
            found.add('periodic-wishlist')
            run.add_finding(Finding('periodic-wishlist', bad[0], {'interval': ival, 'items': nitems, 'rounds': rounds}, observed=bad))


def suspending_listeners(kind, tau=5, yields=1):
    """A request times out while the listeners of SearchRequestRemovedEvent are coroutines that really suspend
    (await asyncio.sleep(0) `yields` times), followed by a plain listener; also a suspending listener of
    SearchResultEvent for a reply.  Every listener must receive each event completely, exactly once, the removal at
    the deadline.  kind: 'net' | 'room' | 'user' | 'wish'.  -> list of problems"""
    from aioslsk.settings import WishlistSettingEntry
    from aioslsk.events import SearchRequestRemovedEvent, SearchResultEvent, MessageReceivedEvent
    from aioslsk.protocol.messages import PeerSearchReply
    h = Harness()
    try:
        seen = []

        async def slow_removed(event):
            seen.append(('removed-begin', event.query.ticket, h.t()))
            for _ in range(yields):
                await asyncio.sleep(0)
            seen.append(('removed-end', event.query.ticket, h.t()))

        def late_removed(event):
            seen.append(('removed-late-listener', event.query.ticket, h.t()))

        async def slow_result(event):
            seen.append(('result-begin', event.query.ticket, h.t()))
            for _ in range(yields):
                await asyncio.sleep(0)
            seen.append(('result-end', event.query.ticket, h.t()))
        h._more = (slow_removed, late_removed, slow_result)
        h.bus.register(SearchRequestRemovedEvent, slow_removed, priority=10)
        h.bus.register(SearchRequestRemovedEvent, late_removed, priority=500)
        h.bus.register(SearchResultEvent, slow_result, priority=10)
        if kind == 'wish':
            h.settings.searches.send.wishlist_request_timeout = tau
            h.settings.searches.wishlist = [WishlistSettingEntry(query='w', enabled=True)]
            h.loop.run_coro(h.mgr._wishlist_job())
        else:
            h.settings.searches.send.request_timeout = tau
            fn = {'net': lambda: h.mgr.search('q'), 'room': lambda: h.mgr.search_room('room', 'q'), 'user': lambda: h.mgr.search_user('bob', 'q')}[kind]
            h.loop.run_coro(fn())
        tk = sorted(h.mgr.requests)[0]
        t0 = h.t()
        msg = PeerSearchReply.Request(username='peer', ticket=tk, results=[], has_slots_free=True, avg_speed=1, queue_size=0, locked_results=[])
        h.loop.run_coro(h.bus.emit(MessageReceivedEvent(msg, h.Conn())))
        h._track()
        h.loop.run_for(tau + 20)
        h.settle()
        want = [('result-begin', tk, t0), ('result-end', tk, t0), ('removed-begin', tk, t0 + tau), ('removed-end', tk, t0 + tau),
                ('removed-late-listener', tk, t0 + tau)]
        bad = []
        if seen != want:
            missing = [w for w in want if w not in seen]
            bad.append(f'request {tk} ({kind}, timeout {tau}): listeners that suspend saw {seen}; missing {missing} '
                       f'(every listener must receive the removal completely, once, at {t0 + tau})')
        if tk in h.mgr.requests:
            bad.append(f'request {tk} is still registered after its timeout')
        if h.loop.unhandled or any(e[0] in ('errkey', 'other') for e in h.events):
            bad.append(f'errors: {[e for e in h.events if e[0] in ("errkey", "other")]} {[c.get("message") for c in h.loop.unhandled]}')
        return bad
    finally:
        h.close()


def helper_scenarios():
    """Scenarios that exercise the helpers the model takes for granted (EventBus order / exception handling / weak
    references, settings objects, optional message fields).  -> list of (name, problem)"""
    from aioslsk.events import SearchResultEvent, SearchRequestRemovedEvent, SearchRequestSentEvent, MessageReceivedEvent
    from aioslsk.protocol.messages import PeerSearchReply
    from aioslsk.settings import SearchSendSettings
    bad = []

    def reply(h, tk, locked=()):
        msg = PeerSearchReply.Request(username='peer', ticket=tk, results=[], has_slots_free=True, avg_speed=1, queue_size=0,
                                      locked_results=None if locked is None else list(locked))
        h.loop.run_coro(h.bus.emit(MessageReceivedEvent(msg, h.Conn())))

    # 1. a raising listener must not keep later listeners (or the removal itself) from happening
    h = Harness()
    try:
        got = []

        def boom(event):
            raise ValueError('listener bug')

        async def aboom(event):
            raise KeyError('listener bug')

        def late(event):
            got.append((type(event).__name__, event.query.ticket, h.t()))
        h._keep = (boom, aboom, late)
        for ev in (SearchResultEvent, SearchRequestRemovedEvent, SearchRequestSentEvent):
            h.bus.register(ev, boom, priority=1)
            h.bus.register(ev, aboom, priority=2)
            h.bus.register(ev, late, priority=900)
        h.settings.searches.send.request_timeout = 4
        h.loop.run_coro(h.mgr.search('q'))
        reply(h, 2)
        h._track()
        h.loop.run_for(30)
        h.settle()
        want = [('SearchRequestSentEvent', 2, 1000), ('SearchResultEvent', 2, 1000), ('SearchRequestRemovedEvent', 2, 1004)]
        if got != want or h.mgr.requests or h.loop.unhandled or any(e[0] in ('errkey', 'other') for e in h.events):
            bad.append(('raising-listener', f'with listeners that raise, a later listener saw {got} (expected {want}); requests={sorted(h.mgr.requests)}; '
                                           f'errors={[e for e in h.events if e[0] in ("errkey", "other")]}'))
    finally:
        h.close()

    # 2. re-entrant listeners: removing the request from inside the result event; searching again from inside the removal event
    h = Harness()
    try:
        got = []

        def remove_on_result(event):
            got.append(('result', event.query.ticket))
            h.mgr.remove_request(event.query)

        async def search_on_removed(event):
            got.append(('removed', event.query.ticket, h.t()))
            if event.query.ticket == 3:
                await h.mgr.search('again')
        h._keep = (remove_on_result, search_on_removed)
        h.bus.register(SearchResultEvent, remove_on_result)
        h.bus.register(SearchRequestRemovedEvent, search_on_removed)
        h.settings.searches.send.request_timeout = 4
        h.loop.run_coro(h.mgr.search('q'))      # ticket 2: removed by the listener at the first result
        h.loop.run_coro(h.mgr.search('r'))      # ticket 3: times out; the listener then starts ticket 4
        reply(h, 2)
        reply(h, 2)
        h._track()
        h.loop.run_for(5)
        h.settle()
        mid = sorted(h.mgr.requests)
        h.loop.run_for(30)
        h.settle()
        want = [('result', 2), ('removed', 3, 1004), ('removed', 4, 1008)]
        if got != want or mid != [4] or h.mgr.requests or h.loop.unhandled or any(e[0] in ('errkey', 'other') for e in h.events):
            bad.append(('re-entrant-listener', f'listeners calling back into the manager saw {got} (expected {want}); requests after 5 s {mid} (expected [4]), '
                                              f'at the end {sorted(h.mgr.requests)}; errors={[e for e in h.events if e[0] in ("errkey", "other")]}'))
    finally:
        h.close()

    # 3. a listener registered after the request was made; a listener that is garbage collected; settings replaced as a whole;
    #    reply without the optional locked_results
    h = Harness()
    try:
        got = []
        h.settings.searches.send = SearchSendSettings(request_timeout=7, store_results=False)
        h.loop.run_coro(h.mgr.search('q'))

        def late(event):
            got.append(('result', event.query.ticket, event.result.locked_results, len(event.query.results)))
        h._keep = (late,)
        h.bus.register(SearchResultEvent, late)
        h.bus.register(SearchResultEvent, lambda e: got.append('collected listener ran'))    # not referenced: dropped by the bus
        import gc
        gc.collect()
        reply(h, 2, None)
        h._track()
        h.loop.run_for(30)
        h.settle()
        rem = [e for e in h.events if e[0] == 'removed']
        if got != [('result', 2, [], 0)] or rem != [('removed', 2, 1007)] or h.loop.unhandled:
            bad.append(('late-listener/settings-replaced/optional-field', f'got {got} (expected [("result", 2, [], 0)]); removals {rem} (expected at 1007)'))
    finally:
        h.close()
    return bad


def cancelled_creator(kind, tau=5):
    """search() whose caller is cancelled while a coroutine listener of SearchRequestSentEvent is suspended: the request is
    registered, so its timeout must still remove it (and report the removal) exactly once at the deadline.  -> list of problems"""
    from aioslsk.events import SearchRequestSentEvent
    h = Harness()
    try:
        h.settings.searches.send.request_timeout = tau
        gate = h.loop.create_future()

        async def slow_listener(event):
            await gate
        h._slow = slow_listener
        h.bus.register(SearchRequestSentEvent, slow_listener)
        fn = {'net': lambda: h.mgr.search('q'), 'room': lambda: h.mgr.search_room('room', 'q'), 'user': lambda: h.mgr.search_user('bob', 'q')}[kind]
        task = h.loop.create_task(fn())
        h.loop.run_ready(8)
        registered = sorted(h.mgr.requests)
        t0 = h.t()
        task.cancel()
        h.loop.run_ready(8)
        h.loop.run_for(tau + 20)
        h.settle()
        bad = []
        rem = [e for e in h.events if e[0] == 'removed']
        for tk in registered:
            got = [e[2] for e in rem if e[1] == tk]
            if got != [t0 + tau]:
                bad.append(f'request {tk} was registered at {t0} with timeout {tau} (its creator was cancelled while the Sent event was '
                           f'being delivered) but its removal was reported at {got or "no time"}; requests afterwards: {sorted(h.mgr.requests)}')
        if not registered:
            bad.append('the request was not registered when the Sent event was delivered')
        if h.loop.unhandled or any(e[0] in ('errkey', 'other') for e in h.events):
            bad.append(f'errors: {[e for e in h.events if e[0] in ("errkey", "other")]}')
        return bad
    finally:
        h.close()


def periodic_one(ival, nitems, rounds):
    from aioslsk.settings import WishlistSettingEntry
    from aioslsk.events import MessageReceivedEvent
    from aioslsk.protocol.messages import WishlistInterval
    h = Harness()
    try:
        h.settings.searches.wishlist = [WishlistSettingEntry(query=f'w{i}', enabled=True) for i in range(nitems)]
        h.atomic(h.bus.emit, MessageReceivedEvent(WishlistInterval.Response(ival), h.conn))
        h.settle()
        for r in range(rounds):
            h.loop.run_for(ival)
            h.settle()
        ev = list(h.events)
        errs = list(h.loop.unhandled)
        sent = {e[1]: e[2] for e in ev if e[0] == 'sent'}
        rem = {}
        for e in ev:
            if e[0] == 'removed':
                rem.setdefault(e[1], []).append(e[2])
        end = h.t()
        bad = []
        if len(sent) != len([e for e in ev if e[0] == 'sent']):
            bad.append('ticket reused')
        for tk, t0 in sent.items():
            if t0 + ival <= end - 1 and rem.get(tk) != [t0 + ival]:
                bad.append(f'request {tk} sent at {t0} removed at {rem.get(tk)} (expected once at {t0 + ival})')
            if tk in rem and any(t < t0 + ival for t in rem[tk]):
                bad.append(f'request {tk} removed early')
        live = set(sent) - set(rem)
        if set(h.mgr.requests) != live:
            bad.append(f'requests {sorted(h.mgr.requests)} != {sorted(live)}')
        if errs or any(e[0] in ('errkey', 'other') for e in ev):
            bad.append(f'errors in tasks: {[e for e in ev if e[0] in ("errkey", "other")]} {[type(c.get("exception")).__name__ for c in errs]}')
        return bad
    finally:
        try:
            h.mgr._wishlist_task.cancel()
        except Exception:
            pass
        h.close()


def replay(rep) -> int:
    wit = rep['witness']
    if 'ticket_repeat_after' in wit or 'ticket_issue' in wit:
        from aioslsk.utils import ticket_generator
        g = ticket_generator()
        first = next(g)
        n = wit.get('ticket_repeat_after') or wit.get('ticket_issue')
        vals = [next(g) for _ in range(n)]
        bad = vals[-1] == first or not (1 <= vals[-1] <= MAXT)
        print(f'ticket_generator(): first ticket {first}, ticket after {n} more issues: {vals[-1]}')
        return 1 if bad else 0
    if 'helper_scenario' in wit:
        hb = helper_scenarios()
        print('helper scenarios:', hb)
        return 1 if hb else 0
    if 'suspending_listeners' in wit:
        bad = suspending_listeners(wit['suspending_listeners'], 5, wit.get('yields', 1))
        print('suspending listeners:', bad)
        return 1 if bad else 0
    if 'cancelled_creator' in wit:
        bad = cancelled_creator(wit['cancelled_creator'])
        print('cancelled creator:', bad)
        return 1 if bad else 0
    if 'interval' in wit:
        bad = periodic_one(wit['interval'], wit['items'], wit['rounds'])
        print('periodic wishlist:', bad)
        return 1 if bad else 0
    if 'ops' not in wit:
        print('witness without an op list:', wit)
        return 1
    ops = wit['ops']
    obs = run_impl(ops)
    for op, o in zip(ops, obs):
        print(op, '->', o['new'], 'requests=', o['requests'], 'handles=', o['handles'], 'now=', o['now'])
    viol = monitor(ops, obs)
    for v in viol:
        print('VIOLATES:', v[0], '-', v[1])
    return 1 if viol else 0
