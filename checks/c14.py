"""C14 — search requests flow down the tree exactly once, and are answered to the asker.

L1  theories/C14/Props.v: fan-out over all histories of the C13 tree machine, own-search filter,
    answer (parametric in the shares query); generated flags/constants from distributed.py and
    search/manager.py (translate/tr_dist.py).
L2  correspondence: histories of tree events (0..3 children, parent, candidates, membership
    changes between requests) and the three carrier messages run on the REAL
    Network + DistributedNetwork + SearchManager + SharesManager (small real share tree on disk)
    over fake endpoints, with an observer on every connection (server, every distributed peer,
    one peer connection per possible asker); compared step by step with the model
    (`first_diff14`, vm_compute) whose query function is the table of the real
    SharesManager.query results.
L3  monitor = the property text per request: every current child exactly one identical request,
    nobody else anything; own searches neither forwarded nor answered; exactly one reply with the
    ticket / own name / oracle lists to the asker iff the oracle lists are non-empty.
"""
from __future__ import annotations

from vlib.common import Run, Finding, BrokenTie, coq_eval_many, parse_eval, listlit, shrink_list
from checks import c13
from checks.c13 import NID, name_id

F17_KEY = 'F17-own-search-via-distributed-carrier-forwarded-and-answered'
F10E_KEY = 'F10-search-of-parent-echoed-back-to-parent-in-children'

SHARES = {
    'music': {'mode': 'everyone', 'files': ['Artist One/Album/01 - first song.mp3', 'Artist One/Album/02 - second song.mp3',
                                            'Artist Two/live set.flac']},
    'private': {'mode': 'users', 'users': ['alice'], 'files': ['secret song demo.mp3', 'notes.txt']},
    'friends': {'mode': 'friends', 'files': ['friends only song.ogg']},
}
QUERIES = ['song', 'first song', 'artist', 'flac', 'nothing matches this', 'secret', 'song -first', 'notes', 'live set', '',
           '  song ', 'first   song', 'live set\t', ' flac']        # incl. queries that are not whitespace-normalised
ASKERS = ['alice', 'bob', 'erin', 'me']
BLOCKED = ['erin']        # blocked for searches (Settings.users.blocked)
TICKETS = [0, 1, 7, 12345, 4294967295]


def extras(ev):
    return ev[-1] if isinstance(ev[-1], dict) else {}


def apply_event(rig, ev):
    """Returns a cleanup callable (run after the observation).  A search event may carry
    {'fault': c} (the write to child c fails in drain: connection reset) or {'slow': [c, ...]}
    (these children do not read: drain() of their connection blocks during this step) or {'closing': c} (child c is in
    the CLOSING state while the request arrives: its disconnect() waits in wait_closed until the end of the step)."""
    from aioslsk.protocol import messages as M
    x = extras(ev)
    if x:
        ev = ev[:-1]
        if 'fault' in x:
            rig.drain_fault(x['fault'], True)
        for c in x.get('slow', []):
            rig.child_hold(c)
        if 'closing' in x:
            rig.begin_close(x['closing'])       # CLOSING reported, CLOSED not yet: still in children
        _apply(rig, ev)

        def cleanup():
            if 'fault' in x:
                rig.drain_fault(x['fault'], False)
            for c in x.get('slow', []):
                rig.child_release(c)
            if 'closing' in x:
                rig.finish_close(x['closing'])
        return cleanup
    _apply(rig, ev)
    return lambda: None


def _apply(rig, ev):
    from aioslsk.protocol import messages as M
    k = ev[0]
    if k == 'CRED':       # the credentials in the settings are edited after login (no re-login): the session keeps its name
        rig.settings.credentials.username = ev[1]
        rig.settings.credentials.password = 'other'
        rig.settle()
        return
    if k == 'SS':
        rig.server_msg(M.ServerSearchRequest.Response(distributed_code=3, unknown=ev[1], username=ev[2], ticket=ev[3], query=ev[4]))
    elif k == 'DS':
        rig.peer_msg(ev[1], M.DistributedSearchRequest.Request(unknown=ev[2], username=ev[3], ticket=ev[4], query=ev[5]))
    elif k == 'LS':
        rig.peer_msg(ev[1], M.DistributedServerSearchRequest.Request(distributed_code=ev[2], unknown=ev[3], username=ev[4],
                                                                     ticket=ev[5], query=ev[6]))
    else:
        c13.apply_event(rig, ev)


def oracle(rig, user, query):
    """the real SharesManager.query, asked independently of the search manager"""
    from aioslsk.shares.utils import convert_items_to_file_data
    vis, locked = rig.shares.query(query, username=user, excluded_search_phrases=rig.search.excluded_search_phrases)
    f = lambda items: sorted(canon(d.filename) for d in convert_items_to_file_data(items, use_full_path=True))
    return f(vis), f(locked)


def canon(filename: str) -> str:
    """remote path without the random directory alias (first component)"""
    return '\\'.join(filename.split('\\')[1:])


def is_search(ev):
    return ev[0] in ('SS', 'DS', 'LS')


def search_fields(ev):
    """(carrier, conn, code_ok, user, ticket, query, expected unknown)"""
    if isinstance(ev[-1], dict):
        ev = ev[:-1]
    if ev[0] == 'SS':
        return 'SS', None, True, ev[2], ev[3], ev[4], ev[1]
    if ev[0] == 'DS':
        return 'DS', ev[1], True, ev[3], ev[4], ev[5], ev[2]
    return 'LS', ev[1], ev[2] == 3, ev[4], ev[5], ev[6], 0x31


def new_rig(noisy=False):
    from checks.c13_rig import Rig
    rig = Rig(with_search=True, share_tree=SHARES, noisy=noisy)
    from aioslsk.user.model import BlockingFlag
    blocked = {u: BlockingFlag.SEARCHES for u in BLOCKED}
    blocked['bob'] = BlockingFlag.PRIVATE_MESSAGES | BlockingFlag.UPLOADS      # blocked, but NOT for searches: still answered
    rig.settings.users.blocked = blocked
    for a in ASKERS:
        rig.add_asker(a)
    return rig


def observe(rig, ev, closed):
    o, closed = c13.observe(rig, closed)
    o['replies'] = {a: r for a, r in ((a, rig.asker_new(a)) for a in ASKERS) if r}
    for reps in o['replies'].values():
        for r in reps:
            if 'visible' in r:
                r['visible'] = sorted(canon(f) for f in r['visible'])
                r['locked'] = sorted(canon(f) for f in r['locked'])
    if is_search(ev):
        _, _, _, u, _, q, _ = search_fields(ev)
        o['oracle'] = list(oracle(rig, u, q))
    return o, closed


def late_writes(rig):
    """what is written only after the slow children of this step read again (must be nothing)"""
    late = {c: m for c, m in ((c, rig.conn_new(c)) for c in sorted(rig.eps)) if m}
    reps = {a: r for a, r in ((a, rig.asker_new(a)) for a in ASKERS) if r}
    return {'conn': late, 'replies': reps} if (late or reps) else {}


def run_impl(events, noisy=False):
    rig = new_rig(noisy)
    try:
        obs, closed = [], []
        for ev in events:
            cleanup = apply_event(rig, ev)
            o, closed = observe(rig, ev, closed)
            cleanup()
            o['late'] = late_writes(rig)
            if 'closing' in extras(ev):
                o['after'] = c13.observe(rig, closed)[0]
            obs.append(o)
        return obs
    finally:
        rig.close()


def gen_and_run(rng, n, style, noisy=False):
    rig = new_rig(noisy)
    events, obs, closed = [], [], []
    next_c = [1]

    def do(ev):
        cleanup = apply_event(rig, ev)
        o, cl = observe(rig, ev, closed)
        cleanup()
        o['late'] = late_writes(rig)
        if 'closing' in extras(ev):
            o['after'] = c13.observe(rig, cl)[0]
        closed[:] = cl
        events.append(ev)
        obs.append(o)
    try:
        if style != 'nologin':
            do(['SI'])
        # build a tree shape: parent (maybe), candidates, 0..3 children
        nchild = rng.choice([0, 1, 2, 3, 3]) if style != 'faults' else rng.choice([2, 3, 3])
        if rng.random() < 0.75:
            c = next_c[0]; next_c[0] += 1
            do(['PI', c, rng.choice(c13.PEER_NAMES), True])
            if rng.random() < 0.5:
                do(['BL', c, 0])
            else:
                do(['BL', c, rng.choice([1, 3])])
                do(['BR', c, rng.choice(['root1', 'root2'])])
        for _ in range(rng.choice([0, 1, 2])):
            c = next_c[0]; next_c[0] += 1
            do(['PI', c, rng.choice(c13.PEER_NAMES), True])
            if rng.random() < 0.5:
                do(['BL', c, 2])
        for _ in range(nchild):
            c = next_c[0]; next_c[0] += 1
            do(['PI', c, rng.choice(c13.PEER_NAMES), False])
        if style == 'cred':
            do(['CRED', 'bob'])
        if style == 'nosess' and rig.state()['session']:
            do(['SD'])
        last = [None]
        target = len(events) + n
        while len(events) < target:
            st = rig.state()
            live = st['live']
            r = rng.random()
            u = rng.choice(ASKERS if style != 'own' else ['me', 'me', 'alice'])
            t = rng.choice(TICKETS)
            q = rng.choice(QUERIES)
            if style in ('cred', 'nosess'):
                u = rng.choice(['me', 'me', 'bob', 'alice'])
            if style == 'access':
                # the same query text from users with different access to the shares, one right after the other
                if last[0] is not None and rng.random() < 0.7:
                    q = last[0][1]
                    u = rng.choice([x for x in ('alice', 'bob', 'erin') if x != last[0][0]])
                else:
                    q = rng.choice(['secret', 'song', 'notes', 'secret song'])
                    u = rng.choice(['alice', 'bob'])
                last[0] = (u, q)
            if style in ('cred', 'nosess', 'access') and r >= 0.72:
                r = rng.random() * 0.72          # these styles are about the requests themselves
            kids = [c for c in st['children'] if c in live]
            x = []
            if len(kids) >= 2 and rng.random() < (0.6 if style == 'faults' else 0.15):
                # a write fault on one child (not the last one), or children that do not read, during the fan-out
                k = rng.random()
                if k < 0.35:
                    x = [{'fault': rng.choice(kids[:-1])}]
                elif k < 0.7:
                    x = [{'closing': rng.choice(kids)}]      # any position in the list
                else:
                    x = [{'slow': sorted(rng.sample(kids[:-1], rng.randrange(1, len(kids))))}]
            if r < 0.22:
                do(['SS', rng.choice([0, 49, 5]), u, t, q] + x)
            elif r < 0.55 and live:
                src = st['parent'] if (st['parent'] is not None and rng.random() < 0.8) else rng.choice(live)
                if x and x[0].get('closing') == src:
                    x = []
                do(['DS', src, rng.choice([49, 0]), u, t, q] + x)
            elif r < 0.72 and live:
                src = st['parent'] if (st['parent'] is not None and rng.random() < 0.8) else rng.choice(live)
                if x and x[0].get('closing') == src:
                    x = []
                do(['LS', src, rng.choice([3, 3, 3, 4, 93]), rng.choice([0, 49]), u, t, q] + x)
            elif r < 0.74:
                do(['SET'])
            elif r < 0.80:
                c = next_c[0]; next_c[0] += 1
                do(['PI', c, rng.choice(c13.PEER_NAMES), rng.random() < 0.3])
            elif r < 0.88 and live:
                pool = st['children'] if (st['children'] and rng.random() < 0.6) else live
                do(['CC', rng.choice(pool)])
            elif r < 0.93 and live:
                nonchild = [c for c in live if c not in st['children']]
                pool = nonchild if (nonchild and (style != 'f10' or rng.random() < 0.5)) else live
                c = rng.choice(pool)
                do(['BL', c, rng.choice([0, 2])] if rng.random() < 0.5 else ['BR', c, rng.choice(['root1', 'alice'])])
            elif r < 0.96:
                do(['RD'])
            elif style == 'session':
                do(['SD'] if st['session'] else ['SI'])
        return events, obs
    finally:
        rig.close()


# ------------------------------------------------------------------------------------------
# monitor
# ------------------------------------------------------------------------------------------

def monitor(events, obs):
    out = []

    def add(key, what, detail):
        if not any(k == key for k, _, _ in out):
            out.append((key, what, detail))
    prev = {'parent': None, 'children': [], 'live': [], 'session': False, 'peers': []}
    sess = False              # a session exists, according to the EVENTS (not to the implementation's own flag)
    for i, (ev, o) in enumerate(zip(events, obs)):
        sess_before = sess
        if ev[0] == 'SI':
            sess = True
        elif ev[0] == 'SD':
            sess = False
        qs = {c: [m for m in msgs if m[0] == 'Q'] for c, msgs in o['conn'].items()}
        qs = {c: m for c, m in qs.items() if m}
        if o.get('late'):
            add('search-delivered-only-after-slow-child-read', 'messages were written only after the slow children of this step read again: '
                'the fan-out to one child waited for another child', {'step': i, 'event': ev, 'late': o['late']})
        if not is_search(ev):
            if qs:
                add('search-sent-without-request', 'a search request was written although none arrived', {'step': i, 'event': ev, 'sent': qs})
            if o['replies']:
                add('reply-without-request', 'a search reply was written although no request arrived', {'step': i, 'event': ev})
            prev = o.get('after', o)
            continue
        carrier, src, code_ok, u, t, q, unk = search_fields(ev)
        own = (u == 'me')
        children = [c for c in prev['children'] if c in prev['live'] and c != extras(ev).get('closing')]
        det = {'step': i, 'event': ev, 'children': prev['children'], 'parent': prev['parent'], 'sent': qs, 'replies': o['replies']}
        if src is not None and src not in prev['live']:
            # the carrier connection is already closed: nothing is delivered, nothing may happen
            if qs or o['replies']:
                add('search-from-closed-connection-handled', 'a request fed on a closed connection had effects', det)
        elif own and sess_before:
            if qs or o['replies']:
                add(F17_KEY if carrier in ('DS', 'LS') else 'own-server-search-forwarded-or-answered',
                    'a search of the logged-in user was ' + ' and '.join(x for x, y in (('forwarded', qs), ('answered', o['replies'])) if y), det)
        else:
            # ---- fan-out
            if code_ok:
                for c in children:
                    got = qs.get(c, [])
                    if len(got) == 0:
                        add('child-missed-search', 'a current child did not get the request', det)
                    elif len(got) > 1:
                        add('child-got-search-twice', 'a child got the request more than once', det)
                    elif got[0][2:] != [u, t, q]:
                        add('search-altered', 'user/ticket/query changed while forwarding', det)
            for c, got in qs.items():
                if c in children and code_ok:
                    if c == prev['parent']:
                        add(F10E_KEY, 'the request was sent back to the parent (which is also in children)', det)
                    continue
                if c == prev['parent']:
                    add('search-sent-to-parent', 'the request was sent to the parent', det)
                else:
                    add('search-sent-to-non-child', 'the request was sent to a connection that is not a current child', det)
            # ---- answer
            if sess_before:
                vis, locked = o['oracle']
                want = ([{'user': 'me', 'ticket': t, 'visible': vis, 'locked': locked}]
                        if (code_ok and (vis or locked) and u not in BLOCKED) else [])
                for a, reps in o['replies'].items():
                    if a != u:
                        add('reply-to-wrong-user', 'a search reply was sent to a user who did not ask', det)
                got = o['replies'].get(u, [])
                if got != want:
                    if len(got) != len(want):
                        add('reply-count', f'{len(got)} replies sent to the asker, expected {len(want)}', dict(det, want=want))
                    elif got[0].get('ticket') != t:
                        add('reply-wrong-ticket', 'reply carries another ticket', dict(det, want=want))
                    else:
                        add('reply-content', 'reply user/lists differ from the shares query', dict(det, want=want))
        prev = o.get('after', o)
    return out


# ------------------------------------------------------------------------------------------
# model side
# ------------------------------------------------------------------------------------------

def coq_cases(cases):
    """cases: list of (events, obs).  Query ids and item ids are per file."""
    qids, items, table = {}, {}, {}

    def qid(q):
        return qids.setdefault(q, len(qids))

    def iid(f):
        return items.setdefault(f, len(items))
    rows = []
    for idx, (events, obs) in enumerate(cases):
        K = max([e[1] for e in events if e[0] == 'PI'] + [0]) + 1
        evs, os_ = [], []
        prev = None
        for ev, o in zip(events, obs):
            o_model = o
            extra_close = []
            if is_search(ev):
                carrier, src, code_ok, u, t, q, unk = search_fields(ev)
                key = (name_id(u), qid(q))
                val = (tuple(sorted(iid(f) for f in o['oracle'][0])), tuple(sorted(iid(f) for f in o['oracle'][1])))
                if table.setdefault(key, val) != val:
                    raise BrokenTie('correspondence:C14', f'shares query is not a function of (user, query): {u!r} {q!r}')
                cl = extras(ev).get('closing')
                if cl is not None:
                    a = o['after']
                    if sorted(set(o['closed']) | set(a['closed'])) != [cl] or a['conn'] or o['srv'] or a['srv']:
                        raise BrokenTie('correspondence:C14', f'closing child {cl}: unexpected effects closed={o["closed"]}/{a["closed"]} conn={a["conn"]}')
                    evs.append(f'Tree (ConnClosed {cl}%nat)')
                    os_.append(f'mkObs14 ({c13.obs_coq(dict(a, srv=[], conn={}, closed=[cl]), qid)}) []')
                    o_model = dict(a, srv=[], conn=o['conn'], closed=[], replies=o['replies'])
                if ev[0] == 'SS':
                    evs.append(f'ServerSearch {ev[1]}%Z {name_id(u)}%nat {t}%Z {qid(q)}%nat')
                elif ev[0] == 'DS':
                    evs.append(f'DistSearch {ev[1]}%nat {ev[2]}%Z {name_id(u)}%nat {t}%Z {qid(q)}%nat')
                else:
                    evs.append(f'LegacySearch {ev[1]}%nat {ev[2]}%Z {ev[3]}%Z {name_id(u)}%nat {t}%Z {qid(q)}%nat')
                if o['closed'] and cl is None:
                    # a write fault closed a child during the fan-out: for the model this is the search (tree unchanged,
                    # the request was written to every child) followed by the loss of that connection
                    fc = extras(ev).get('fault')
                    if o['closed'] != [fc] or prev is None:
                        raise BrokenTie('correspondence:C14', f'connections closed during a search step: {o["closed"]} (fault injected on {fc})')
                    o_model = dict(prev, srv=[], conn=o['conn'], closed=[], replies=o['replies'])
                    extra_close = [(f'Tree (ConnClosed {fc}%nat)', dict(o, conn={}, replies={}))]
            elif ev[0] == 'CRED':
                evs.append('Tree (PotentialParents [])')       # no effect on the machine: the own name is the session's
            else:
                evs.append(f'Tree ({c13.ev_coq(ev)})')
            for om in [o_model] + [x[1] for x in extra_close]:
                reps = []
                for a in sorted(om['replies']):
                    for r in om['replies'][a]:
                        if 'other' in r:
                            raise BrokenTie('correspondence:C14', f'unexpected message to asker: {r}')
                        reps.append(f'mkReply {name_id(a)}%nat {r["ticket"]}%Z {name_id(r["user"])}%nat '
                                    f'{listlit(str(x) + "%nat" for x in sorted(iid(f) for f in r["visible"]))} '
                                    f'{listlit(str(x) + "%nat" for x in sorted(iid(f) for f in r["locked"]))}')
                os_.append(f'mkObs14 ({c13.obs_coq(om, qid)}) {listlit(reps)}')
            evs.extend(x[0] for x in extra_close)
            prev = o.get('after', o)
        rows.append(f' ({idx}%nat, {K}%nat, {listlit(evs)},\n  {listlit(os_)})')
    nl = lambda xs: listlit(f'{x}%nat' for x in xs)
    tab = listlit(f'(({u}%nat, {q}%nat), ({nl(v)}, {nl(l)}))' for (u, q), (v, l) in sorted(table.items()))
    lines = ['From Coq Require Import ZArith List Bool Arith.', 'From SlskGen Require Import DistGen.',
             'From Slsk Require Import C13.Model C14.Model.', 'Import ListNotations.',
             f'Definition qtable : list ((nat * nat) * (list nat * list nat)) := {tab}.',
             'Definition query (u q : nat) : list nat * list nat :=',
             ' match find (fun e => Nat.eqb (fst (fst e)) u && Nat.eqb (snd (fst e)) q) qtable with Some e => snd e | None => ([], []) end.',
             f'Definition blocked (u : nat) : bool := memn u {nl(name_id(u) for u in BLOCKED)}.',
             'Definition cases : list (nat * nat * list ev14 * list obs14) := [', ';\n'.join(rows), '].',
             'Definition bad := flat_map (fun c => let \'(i, K, evs, os) := c in let d := first_diff14 query blocked K init evs os 0 in '
             'if Nat.eqb d (length evs) then [] else [(i, d)]) cases.',
             'Eval vm_compute in bad.']
    return '\n'.join(lines) + '\n'



# ------------------------------------------------------------------------------------------
# L3 only: askers that are not connected yet (the reply needs a new peer connection, which can fail)
# ------------------------------------------------------------------------------------------

LATE_VARIANTS = [
    {'outcomes': ['fail', 'ok'], 'carriers': ['SS', 'SS']},
    {'outcomes': ['ok', 'fail'], 'carriers': ['SS', 'DS']},
    {'outcomes': ['ok', 'ok'], 'carriers': ['DS', 'SS']},
    {'outcomes': ['fail', 'ok', 'ok'], 'carriers': ['DS', 'DS', 'SS']},
    {'outcomes': ['fail', 'fail', 'ok'], 'carriers': ['SS', 'LS', 'DS']},
    # the asker is a member of our neighbourhood in the tree (distributed connection open, no peer connection yet)
    {'outcomes': ['ok'], 'carriers': ['SS'], 'asker_is': 'parent'},
    {'outcomes': ['ok', 'ok'], 'carriers': ['SS', 'SS'], 'asker_is': 'child'},
    {'outcomes': ['ok'], 'carriers': ['SS'], 'asker_is': 'candidate'},
]


def run_late_asker(variant):
    """Several matching requests of the SAME user arrive while no peer connection to that user exists; every reply task
    asks the server for the address and opens its own connection; `outcomes[i]` says whether the i-th connection attempt
    (direct, then indirect) fails or succeeds.  Property: every request whose delivery is possible gets exactly one reply
    with its ticket, the own name and the oracle lists - whatever happened to the deliveries of the other requests.
    Returns list of (key, what, detail)."""
    from vlib import fakes
    from aioslsk.protocol import messages as M
    from aioslsk.protocol.messages import ServerMessage, PeerMessage, PeerInitializationMessage
    user, query = 'carol', 'song'
    rig = new_rig()
    out = []
    try:
        rig.session_init()
        who = variant.get('asker_is')
        rig.peer_init(1, user if who == 'parent' else 'alice', True)
        rig.peer_msg(1, M.DistributedBranchLevel.Request(0))          # a parent, for the distributed carriers
        if who == 'child':
            rig.peer_init(2, user, False)
        elif who == 'candidate':
            rig.peer_init(2, user, True)
            rig.peer_msg(1, M.DistributedBranchLevel.Request(0))
        for c in list(rig.eps):
            rig.conn_new(c)
        tickets = []
        for i, car in enumerate(variant['carriers']):
            t = 100 + i
            tickets.append(t)
            if car == 'SS':
                rig.server_msg(M.ServerSearchRequest.Response(distributed_code=3, unknown=0, username=user, ticket=t, query=query))
            elif car == 'DS':
                rig.peer_msg(1, M.DistributedSearchRequest.Request(unknown=49, username=user, ticket=t, query=query))
            else:
                rig.peer_msg(1, M.DistributedServerSearchRequest.Request(distributed_code=3, unknown=0, username=user, ticket=t, query=query))
        vis, locked = oracle(rig, user, query)
        eps = []
        for oc in variant['outcomes']:
            if oc == 'ok':
                ep = fakes.Endpoint(rig.net, peername=('10.4.0.1', 2234), label='late-asker')
                eps.append(ep)
                rig._want.append(ep)
            else:
                eps.append(None)
                rig._want.append(ConnectionRefusedError('refused'))
        mark = len(rig.server.frames())
        rig.server_msg(M.GetPeerAddress.Response(username=user, ip='10.4.0.1', port=2234, obfuscated_port_amount=0, obfuscated_port=0))
        for _ in range(len(variant['outcomes'])):
            frames = rig.server.frames()
            for fr in frames[mark:]:
                m = ServerMessage.deserialize_request(fr)
                if isinstance(m, M.ConnectToPeer.Request):
                    rig.loop.create_task(rig.network.on_message_received(M.CannotConnect.Response(ticket=m.ticket), rig.network.server_connection))
            mark = len(frames)
            rig.settle()
        got = []
        for ep in eps:
            if ep is None:
                continue
            for fr in ep.frames()[1:]:          # the first frame is PeerInit
                m = PeerMessage.deserialize_request(fr)
                if isinstance(m, M.PeerSearchReply.Request):
                    got.append({'user': m.username, 'ticket': m.ticket, 'visible': sorted(canon(f.filename) for f in m.results),
                                'locked': sorted(canon(f.filename) for f in (m.locked_results or []))})
        # nothing but distributed messages may be written on distributed connections
        stray = {c: m for c, m in ((c, [x for x in rig.conn_new(c) if x[0] == '?']) for c in sorted(rig.eps)) if m}
        if stray:
            out.append(('reply-written-on-distributed-connection', 'bytes that are not a distributed message were written on a distributed '
                        'connection (the search reply went to the tree neighbour over the D connection)', {'late_asker': variant, 'stray': stray}))
        n_ok = sum(1 for oc in variant['outcomes'] if oc == 'ok')
        det = {'late_asker': variant, 'tickets': tickets, 'replies': got, 'connections_that_succeeded': n_ok,
               'connect_attempts_left_unused': len(rig._want)}
        # which request uses which attempt is the implementation's business: n_ok of the requests must be answered, each at most once
        good = [g for g in got if g['user'] == 'me' and g['ticket'] in tickets and g['visible'] == vis and g['locked'] == locked]
        if len(good) != len(got):
            out.append(('reply-content', 'a reply to a late asker has wrong ticket / user / lists', det))
        if len({g['ticket'] for g in good}) != len(good):
            out.append(('reply-count', 'a request of a late asker was answered twice', det))
        if len(good) < n_ok:
            key = ('reply-missing-after-earlier-delivery-to-same-user-failed' if 'fail' in variant['outcomes']
                   else 'reply-missing-for-late-asker')
            out.append((key, f'{n_ok} connection attempts to the asker succeeded but only {len(good)} requests were answered: '
                             'a reply was never attempted because the delivery of another reply to the same user failed', det))
        return out
    finally:
        rig.close()


WITNESS = {
    F17_KEY: [['SI'], ['PI', 1, 'alice', True], ['BL', 1, 3], ['BR', 1, 'root1'], ['PI', 2, 'bob', False], ['DS', 1, 49, 'me', 7, 'song']],
    F10E_KEY: [['SI'], ['PI', 1, 'alice', False], ['BL', 1, 2], ['BR', 1, 'root1'], ['DS', 1, 49, 'bob', 7, 'flac']],
}


def violations(events, noisy=False):
    try:
        return monitor(events, run_impl(events, noisy))
    except Exception as e:     # noqa
        return [('impl-exception', f'{type(e).__name__}: {e}', {})]


def valid(events):
    return c13.valid([e for e in events if not is_search(e)]) and all(
        (not is_search(e)) or e[0] == 'SS' or any(p[0] == 'PI' and p[1] == e[1] for p in events[:i]) for i, e in enumerate(events)) and \
        _speakers_alive(events)


def _speakers_alive(events):
    dead = set()
    for e in events:
        if e[0] == 'CC':
            dead.add(e[1])
        if e[0] in ('DS', 'LS') and e[1] in dead:
            return False
    return True


def shrink_events(events, key, noisy=False):
    def fails(evs):
        return valid(evs) and any(k == key for k, _, _ in violations(evs, noisy))
    if not fails(events):
        return events
    return shrink_list(events, fails, max_steps=60)


def run(run: Run):
    run.rule = ('random histories on the real Network + DistributedNetwork + SearchManager + SharesManager (3 shared directories on disk: '
                'everyone / users / friends) over fake endpoints: tree shapes with 0..3 children, optional parent, 0..2 candidates; then searches '
                'through the three carriers (server, distributed from the parent or any live connection, legacy with code 3/4/93) with users '
                'incl. the own name, boundary tickets, 10 queries (matches visible, locked, none, exclusion, empty), interleaved with children '
                'joining/leaving, candidates announcing, reset and re-login; distinct = distinct event list; non-trivial = at least one request '
                'forwarded to a child or answered')
    run.trusted += ['SharesManager.query is used as oracle (its correctness is C07/C08); the model is parametric in it',
                    'replies are observed on a pre-established peer connection per asker (Network.get_peer_connection reuse path)',
                    'connection ids / user names / queries / file names of the model are small naturals (injective renaming)']
    run.assumptions += ['a session exists when answers are expected', 'no user is blocked for searches (default settings)']
    proved = run.prove(['tr_dist'])

    for key, wit, _fixed in run.known_witnesses():
        evs = wit['events'] if isinstance(wit, dict) else wit
        run.case({'corpus': key})
        for k, what, detail in violations(evs):
            run.add_finding(Finding(k, what, {'events': evs, 'detail': detail}))

    n_hist = 150 if run.tier == 'quick' else 700
    if not proved:
        n_hist = int(n_hist * 2.5)      # broken tie: longer directed search for a failing input
    styles = ['plain', 'own', 'faults', 'f10', 'access', 'cred', 'plain', 'session', 'nosess', 'faults', 'plain', 'own']
    cases = []
    for i in range(n_hist):
        style = styles[i % len(styles)]
        try:
            events, obs = gen_and_run(run.rng, run.rng.randrange(2, 8 if run.tier == 'quick' else 12), style, noisy=(i % 3 == 1))
            noisy = (i % 3 == 1)
        except Exception as e:   # noqa
            run.add_broken('check-crashed:gen', f'{type(e).__name__}: {e}')
            continue
        nontriv = any(is_search(e) and (any(m[0] == 'Q' for ms in o['conn'].values() for m in ms) or o['replies']) for e, o in zip(events, obs))
        run.case(events, nontrivial=nontriv, kind=style)
        for e, o in zip(events, obs):
            if is_search(e):
                run.count('carrier_' + e[0])
                run.count('children_%d' % len(o['children']))
                run.count('answered' if o['replies'] else 'not_answered')
        cases.append((events, obs))
        for k, what, detail in monitor(events, obs):
            small = shrink_events(events, k, noisy)
            run.add_finding(Finding(k, what, {'events': small, 'noisy_listeners': noisy, 'detail': detail}))

    for variant in LATE_VARIANTS:
        run.case({'late_asker': variant}, kind='l3-late-asker')
        try:
            vs = run_late_asker(variant)
        except Exception as e:   # noqa
            vs = [('impl-exception', f'late asker scenario: {type(e).__name__}: {e}', {'late_asker': variant})]
        for k, what, detail in vs:
            run.add_finding(Finding(k, what, detail))

    shard = 50
    try:
        texts = [coq_cases(cases[i:i + shard]) for i in range(0, len(cases), shard)]
        outs = coq_eval_many('c14', texts)
        nbad = 0
        for k, out in enumerate(outs):
            vals = parse_eval(out)
            if not vals:
                raise BrokenTie('correspondence:C14', f'no output from shard {k}')
            for idx, step in c13.parse_pairs(vals[0]):
                nbad += 1
                events, obs = cases[k * shard + idx]
                if nbad <= 2:
                    # model steps: one per event, plus one per connection closed by an injected write fault
                    k2 = step
                    for j, (e, o) in enumerate(zip(events, obs)):
                        if j >= k2:
                            break
                        if is_search(e) and (o['closed'] or 'after' in o):
                            k2 -= 1
                    k2 = min(max(k2, 0), len(events) - 1)
                    run.add_broken('correspondence:C14 model(step14) vs DistributedNetwork+SearchManager',
                                   f'history {events} diverges at event #{k2} {events[k2]}: impl conn={obs[k2]["conn"]} '
                                   f'replies={obs[k2]["replies"]} oracle={obs[k2].get("oracle")} children={obs[k2]["children"]} closed={obs[k2]["closed"]}')
        run.cov['traces_validated_against_impl'] = len(cases) - nbad
    except BrokenTie as e:
        run.add_broken(e.obligation, e.detail)


def replay(rep) -> int:
    w = rep['witness']
    if isinstance(w, dict) and 'late_asker' in w:
        v = run_late_asker(w['late_asker'])
        for k, what, detail in v:
            print('VIOLATED:', k, what, detail)
        return 1 if v else 0
    events = w['events'] if isinstance(w, dict) else w
    obs = run_impl(events, noisy=bool(isinstance(w, dict) and w.get('noisy_listeners')))
    for e, o in zip(events, obs):
        print(e, '->', {k: o[k] for k in ('parent', 'children', 'conn', 'replies', 'closed')}, o.get('oracle', ''))
    v = monitor(events, obs)
    for k, what, detail in v:
        print('VIOLATED:', k, what, detail)
    return 1 if v else 0
