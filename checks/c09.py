"""C09 — peer-chosen names never escape the download directory or clobber a file.

L1  theories/C09/Props.v (path algebra, split_remote_path, the three strategies, chain; Prepare/Create events)
L2  correspondence with the real code on a real temp directory:
    (a) EXHAUSTIVE: every string over {\\ / . a : @ ( 1 ) space} up to length 5 (thorough: 6):
        split_remote_path and the result of 8 chains (incl. the default one; 4 chains for length 6) on a fixture
        directory tree, compared through per-block digests computed by the model inside coqc; a
        differing block is re-run string by string to name the first diverging input;
    (b) random long / non-ASCII / hostile remote paths x random chains (length 0..4 over the 3 shipped
        strategies) x random directory contents built around the chosen name (numbered duplicates,
        gaps, prefix-match traps, leading zeros), compared result by result;
    (c) 2-3 concurrent downloads: all interleavings of real _prepare_download_path / aiofiles.open('ab').
L3  monitor = the property text with os.path.realpath/commonpath/exists on every real result.
"""
from __future__ import annotations

import itertools
import os
import shutil
import tempfile

from vlib.common import Run, Finding, BrokenTie, coq_eval_many, parse_eval, parse_coq_list, listlit

ALPHA = ['\\', '/', '.', 'a', ':', '@', '(', '1', ')', ' ']
MOD = (1 << 61) - 1
MUL = 1000003

F08A = 'F08-last-component-dot-or-dotdot-becomes-filename'
F08B = 'F08-keepdirectory-joins-dotdot-directory'
F08C = 'F08-no-component-IndexError'
F09 = 'F09-check-then-create-race-same-local-path'

CHAINS = ['D', 'DN', 'DKN', 'KDN', 'ND', 'DNK', 'K', 'N']
CHAINS6 = ['DN', 'DKN']     # chains for the length-6 strings of the thorough tier


_STRATS = {}


def strategies(code):
    if code not in _STRATS:
        from aioslsk.naming import DefaultNamingStrategy, KeepDirectoryStrategy, NumberDuplicateStrategy
        m = {'D': DefaultNamingStrategy, 'K': KeepDirectoryStrategy, 'N': NumberDuplicateStrategy}
        _STRATS[code] = [m[c]() for c in code]
    return list(_STRATS[code])


def coq_chain(code):
    return listlit({'D': 'Default', 'K': 'KeepDir', 'N': 'NumDup'}[c] for c in code)


# --------------------------------------------------------------------------------------------
# fixture tree and file-system snapshots
# --------------------------------------------------------------------------------------------

class Tree:
    """temp root T, base T/b, download dir T/b/dl"""

    def __init__(self):
        self.root = os.path.realpath(tempfile.mkdtemp(prefix='verif_c09_'))
        self.base = os.path.join(self.root, 'b')
        self.dl = os.path.join(self.base, 'dl')
        os.makedirs(self.dl)

    def touch(self, rel, base=None):
        p = os.path.join(base or self.dl, rel)
        os.makedirs(os.path.dirname(p), exist_ok=True)
        with open(p, 'ab'):
            pass

    def mkdir(self, rel, base=None):
        os.makedirs(os.path.join(base or self.dl, rel), exist_ok=True)

    def snapshot(self):
        """[(components below root, is_dir)] sorted"""
        out = []
        for d, dirs, files in os.walk(self.root):
            rel = os.path.relpath(d, self.root)
            comps = [] if rel == '.' else rel.split('/')
            for n in dirs:
                out.append((comps + [n], True))
            for n in files:
                out.append((comps + [n], False))
        return sorted(out)

    def close(self):
        shutil.rmtree(self.root, ignore_errors=True)


def fixture():
    t = Tree()
    for n in ['a', 'a (1)', 'a (3)', 'a.a', 'a (1).a', 'a (2).a', '1', '(1)', ' (1)', '.a', 'a.', 'aa/a', 'aa/a (1)', 'aa/a (2)',
              '1a/a', ':/1', 'a1/.a', '(/a']:
        t.touch(n)
    t.mkdir('@')
    for n in ['x', 'a', 'a (1)', '.. (1)', 'dl (1)']:
        t.touch(n, t.base)
    t.touch('a', t.root)
    return t


def s_lit(s):
    return '[' + ';'.join(str(ord(c)) for c in s) + ']'


def path_lit(comps):
    return '[' + ';'.join(s_lit(c) for c in comps) + ']'


def fs_lit(snap):
    return '[' + ';\n '.join(f'({path_lit(c)}, {"KDir" if d else "KFile"})' for c, d in snap) + ']'


# --------------------------------------------------------------------------------------------
# the real functions, canonicalised
# --------------------------------------------------------------------------------------------

def real_split(s):
    from aioslsk.utils import split_remote_path
    return split_remote_path(s)


def real_chain(code, remote, dl):
    """-> None (IndexError) | (extra dir components below dl, filename) ; other exceptions propagate"""
    from aioslsk.naming import chain_strategies
    try:
        p, f = chain_strategies(strategies(code), remote, dl)
    except IndexError:
        return None
    except Exception as e:       # anything else is not a behaviour of the model: shows up as a difference
        return (['<exception>', type(e).__name__], '')
    return canon(p, f, dl)


def canon(p, f, dl):
    if not (p == dl or p.startswith(dl + '/')):
        return (['<outside>', p], f)
    rest = p[len(dl):]
    comps = rest.split('/')[1:] if rest else []
    return (comps, f)


def feed(h, x):
    return (h * MUL + x + 1) % MOD


def feed_str(h, s):
    h = feed(h, len(s))
    for c in s:
        h = feed(h, ord(c))
    return h


def feed_strs(h, l):
    h = feed(h, len(l))
    for s in l:
        h = feed_str(h, s)
    return h


def digest(s, dl, chains=None):
    h = feed_strs(7, real_split(s))
    for code in (chains or CHAINS):
        r = real_chain(code, s, dl)
        if r is None:
            h = feed(h, 0)
        else:
            h = feed(h, 1)
            h = feed_strs(h, r[0])
            h = feed_str(h, r[1])
    return h


COQ_PRELUDE = r'''From Coq Require Import NArith List Bool.
From Slsk Require Import C09.Model.
Import ListNotations. Open Scope N_scope.
Definition MODP : N := 2305843009213693951.
Definition feed (h x : N) : N := (h * 1000003 + x + 1) mod MODP.
Definition feed_str (h : N) (s : str) : N := fold_left feed s (feed h (N.of_nat (length s))).
Definition feed_strs (h : N) (l : list str) : N := fold_left feed_str l (feed h (N.of_nat (length l))).
Definition ALPHA : list N := [92; 47; 46; 97; 58; 64; 40; 49; 41; 32].
Fixpoint strings (n : nat) : list str :=
  match n with O => [[]] | S m => flat_map (fun c => map (cons c) (strings m)) ALPHA end.
'''


def coq_digest_defs(snap, dlcomps, chains=None):
    return (COQ_PRELUDE + f'Definition FS : fsys := {fs_lit(snap)}.\nDefinition DL : path := {path_lit(dlcomps)}.\n'
            f'Definition CHAINS : list (list strat) := {listlit(coq_chain(c) for c in (chains or CHAINS))}.\n'
            'Definition feed_res (h : N) (r : option (path * str)) : N :=\n'
            '  match r with None => feed h 0 | Some (p, f) => feed_str (feed_strs (feed h 1) (skipn (length DL) p)) f end.\n'
            'Definition digest (s : str) : N :=\n'
            '  fold_left (fun h ch => feed_res h (chain FS s ch DL)) CHAINS (feed_strs 7 (split_remote_path s)).\n')


# --------------------------------------------------------------------------------------------
# monitor
# --------------------------------------------------------------------------------------------

def indep_parts(remote):
    return [x for x in remote.replace('\\', '/').split('/') if x]


def monitor_result(code, remote, dl, res, existed_before):
    """Property text on one real result.  res = None (IndexError) | (p, f) raw strings.
    Returns list of (key, what)."""
    parts = indep_parts(remote)
    if 'D' not in code:
        return []   # a chain that never consults the remote name cannot name a file: outside the quantifier
    if res is None:
        if not parts:
            return [(F08C, f'remote path {remote!r} has no component: IndexError instead of a local path')]
        return [('crash-IndexError', f'IndexError for remote path {remote!r}')]
    p, f = res
    full = os.path.join(p, f)
    v = []
    dlr = os.path.realpath(dl)
    rp = os.path.realpath(full)
    inside = rp != dlr and os.path.commonpath([rp, dlr]) == dlr
    regular = f not in ('', '.', '..') and '/' not in f and '\\' not in f and '\0' not in f
    fresh_ok = not (code.endswith('N') and existed_before)
    if inside and regular and fresh_ok:
        return []
    last_dot = bool(parts) and parts[-1] in ('.', '..')
    pen_dotdot = len(parts) >= 2 and parts[-2] == '..' and 'K' in code
    if not regular or not inside:
        if last_dot and f.startswith(parts[-1]):
            v.append((F08A, f'remote {remote!r}: file name {f!r}, local path {full!r} resolves to {rp!r}'))
        elif pen_dotdot and not inside and regular:
            v.append((F08B, f'remote {remote!r}: KeepDirectoryStrategy joined "..": {full!r} resolves to {rp!r}, outside {dlr!r}'))
        elif not inside:
            v.append(('escape', f'remote {remote!r} chain {code}: {full!r} resolves to {rp!r}, not strictly inside {dlr!r}'))
        else:
            v.append(('irregular-name', f'remote {remote!r} chain {code}: file name {f!r}'))
    if not fresh_ok:
        v.append(('not-fresh', f'remote {remote!r} chain {code}: chosen path {full!r} already exists'))
    return v


# --------------------------------------------------------------------------------------------
# (a) exhaustive
# --------------------------------------------------------------------------------------------

def shards(maxlen):
    """(prefix, free) : all strings prefix + w, |w| = free; small shards so that the coqc runs spread over the cores"""
    out = [('', n) for n in range(0, min(maxlen, 2) + 1)]
    if maxlen >= 3:
        out += [(c, 2) for c in ALPHA]
    if maxlen >= 4:
        out += [(c, 3) for c in ALPHA]
    if maxlen >= 5:
        out += [(c + d, 3) for c in ALPHA for d in ALPHA]
    if maxlen >= 6:
        out += [(c + d, 4) for c in ALPHA for d in ALPHA]
    return out


def _shard_work(args):
    """real side of one shard (runs in a worker process; the fixture tree is only read)"""
    prefix, free, dl = args
    chains = CHAINS6 if len(prefix) + free >= 6 else CHAINS
    from aioslsk.naming import chain_strategies
    if free == 0:
        blocks = [[prefix]]
    else:
        blocks = [[prefix + c + ''.join(w) for w in itertools.product(ALPHA, repeat=free - 1)] for c in ALPHA]
    hs, n, viols, seen = [], 0, [], set()
    for b in blocks:
        h = 11
        for s in b:
            h = feed(h, digest(s, dl, chains))
            n += 1
            # monitor on the default chain, the keep-directory chains and the bare default strategy
            for code in ('DN', 'DKN', 'D', 'DK'):
                try:
                    res = chain_strategies(strategies(code), s, dl)
                except IndexError:
                    res = None
                except Exception as e:
                    if 'impl-exception' not in seen:
                        seen.add('impl-exception')
                        viols.append(('impl-exception', f'{type(e).__name__}: {e} for remote {s!r} chain {code}',
                                      {'remote': s, 'chain': code, 'tree': 'fixture'}))
                    continue
                ex = res is not None and os.path.exists(os.path.join(*res))
                for key, what in monitor_result(code, s, dl, res, ex):
                    if key not in seen:
                        seen.add(key)
                        viols.append((key, what, {'remote': s, 'chain': code, 'tree': 'fixture'}))
        hs.append(h)
    return hs, n, viols


def exhaustive(run: Run, found):
    t = fixture()
    try:
        snap = t.snapshot()
        dlcomps = ['b', 'dl']
        defs = coq_digest_defs(snap, dlcomps)
        defs6 = coq_digest_defs(snap, dlcomps, CHAINS6)
        maxlen = 4 if run.tier == 'quick' else 6
        sh = shards(maxlen)
        texts, expect = [], []
        nstr = 0
        import multiprocessing
        from concurrent.futures import ProcessPoolExecutor
        from vlib.common import NPROC
        ctx = multiprocessing.get_context('fork')
        with ProcessPoolExecutor(max_workers=max(1, min(NPROC, 12)), mp_context=ctx) as ex:
            results = list(ex.map(_shard_work, [(prefix, free, t.dl) for prefix, free in sh], chunksize=1))
        for (prefix, free), (hs, n, viols) in zip(sh, results):
            nstr += n
            for key, what, wit in viols:
                add(run, found, key, what, wit)
            expect.append(hs)
            if free == 0:
                body = f'Eval vm_compute in [fold_left (fun h s => feed h (digest s)) [{s_lit(prefix)}] 11].'
            else:
                body = ('Eval vm_compute in (map (fun c => fold_left (fun h s => feed h (digest s)) '
                        f'(map (fun w => {s_lit(prefix)} ++ c :: w) (strings {free - 1})) 11) ALPHA).')
            texts.append((defs6 if len(prefix) + free >= 6 else defs) + body + '\n')
        run.count('exhaustive_strings', nstr)
        run.evaluations += nstr
        run.distinct_nontrivial += nstr
        run.cov['exhaustive'] = True
        run.cov['exhaustive_scope'] = f'all {nstr} strings over {"".join(ALPHA)!r} up to length {maxlen} x {len(CHAINS)} chains ({len(CHAINS6)} for length 6) on the fixture tree'
        outs = coq_eval_many('c09x', texts, timeout=900)
        bad_blocks = []
        for (prefix, free), out, hs in zip(sh, outs, expect):
            vals = parse_eval(out)
            got = [int(x) for x in parse_coq_list(vals[0])] if vals else []
            if got != hs:
                for i, (g, h) in enumerate(zip(got, hs)):
                    if g != h:
                        bad_blocks.append((prefix + (ALPHA[i] if free else ''), max(free - 1, 0)))
                if len(got) != len(hs):
                    bad_blocks.append((prefix, free))
        if bad_blocks:
            prefix, free = bad_blocks[0]
            six = len(prefix) + free >= 6
            first = first_diverging(defs6 if six else defs, prefix, free, t.dl, CHAINS6 if six else CHAINS)
            run.add_broken('correspondence:C09 exhaustive split_remote_path/chain vs model',
                           f'{len(bad_blocks)} blocks differ; first block prefix={prefix!r}+{free} chars; first diverging input: {first}')
        else:
            run.cov['traces_validated_against_impl'] = nstr
    finally:
        t.close()


def first_diverging(defs, prefix, free, dl, chains):
    strs = [prefix + ''.join(w) for w in itertools.product(ALPHA, repeat=free)]
    texts = []
    for i in range(0, len(strs), 500):
        chunk = strs[i:i + 500]
        texts.append(defs + 'Definition cases : list (str * N) := ' + listlit(f'({s_lit(s)}, {digest(s, dl, chains)})' for s in chunk) + '.\n'
                     'Eval vm_compute in (map (fun c => N.of_nat (length (fst c))) (filter (fun c => negb (N.eqb (digest (fst c)) (snd c))) cases)).\n'
                     'Eval vm_compute in (map fst (filter (fun c => negb (N.eqb (digest (fst c)) (snd c))) cases)).\n')
    try:
        outs = coq_eval_many('c09d', texts[:40], timeout=600)
    except BrokenTie as e:
        return f'(detail run failed: {e})'
    for out in outs:
        vals = parse_eval(out)
        if len(vals) >= 2 and vals[1].strip() not in ('[]', ''):
            inner = vals[1].strip()[1:-1].split(']')[0].strip().lstrip('[')
            try:
                s = ''.join(chr(int(x.replace('%N', ''))) for x in inner.split(';') if x.strip())
            except Exception:
                return vals[1][:200]
            return {'remote': s, 'impl_split': real_split(s), 'impl_chains': {c: real_chain(c, s, dl) for c in chains}}
    return None


# --------------------------------------------------------------------------------------------
# (b) random
# --------------------------------------------------------------------------------------------

COMPS = ['..', '.', '', '@@alias', '@@', '@x', 'C:', 'c:', 'C', 'CC:', 'a', 'b', 'a.txt', 'a (1).txt', 'a (2).txt', '.hidden', '..a', 'a..',
         '...', 'a.b.c', 'ü.mp3', 'música', '名前.flac', 'x' * 200, ' ', ' (1)', '(1)', 'a (01).txt', 'a.tar.gz', 'A.TXT', 'dl', 'b']
SEPS = ['\\', '/', '\\\\', '//', '\\/', '/\\']


HOSTILE = ['@@x\\Music\\album/../../../outside/evil.mp3', 'C:\\share\\a/b/c.mp3', 'a\\b/../c', '..\\..\\x', 'a/..', 'a\\.', '\\\\', '', '/',
           '@@x\\..\\y', 'd\\..', '..', '.', 'a\\..\\', 'x\\y\\..\\..\\..\\z', 'C:\\..\\a', 'a/./b', './a', '../a', 'a\\../b',
           '//..//', 'dir\\sub/file.txt', 'dir/sub\\..', '\\\\srv\\share\\f', 'a\\ ', ' \\a', 'a\\b\\', '/etc/passwd', '\\..\\..\\etc\\passwd']


def gen_remote(rng):
    if rng.random() < 0.12:
        return rng.choice(HOSTILE)
    n = rng.choice([0, 1, 1, 2, 2, 3, 4, 6])
    parts = [rng.choice(COMPS) for _ in range(n)]
    s = ''
    if rng.random() < 0.4:
        s += rng.choice(SEPS)
    for i, p in enumerate(parts):
        s += p
        if i + 1 < len(parts) or rng.random() < 0.25:
            s += rng.choice(SEPS)
    return s


def populate(rng, t, remote, code):
    """directory contents around the name that will be chosen"""
    parts = indep_parts(remote)
    name = parts[-1] if parts else ''
    stem, ext = os.path.splitext(name) if name not in ('', '.', '..') else (name, '')
    dirs = [t.dl]
    if len(parts) >= 2 and parts[-2] not in ('.', '..') and not parts[-2].startswith('@@') and rng.random() < 0.7:
        d = os.path.join(t.dl, parts[-2])
        if rng.random() < 0.85:
            try:
                os.makedirs(d, exist_ok=True)
                dirs.append(d)
            except OSError:
                pass
    if rng.random() < 0.5:
        dirs.append(t.base)
    for d in dirs:
        if name and name not in ('.', '..') and rng.random() < 0.8:
            _touch(os.path.join(d, name))
        ks = rng.sample(range(1, 9), rng.randrange(0, 5))
        if rng.random() < 0.2:
            ks.append(rng.choice([10, 11, 99, 4000]))   # not huge: the real code builds set(range(min, max + 2)) -> memory blow-up (see report)
        for k in ks:
            _touch(os.path.join(d, f'{stem} ({k}){ext}'))
        for trap in rng.sample([f'{stem} (2){ext}.bak', f'{stem} (x){ext}', f'{stem} (03){ext}', f'{stem} (){ext}', f'x{stem} (1){ext}',
                                f'{stem} (4)', f'{stem}(5){ext}', ' (1)', ' (2)', '.. (1)', f'{stem} (1) (1){ext}'], rng.randrange(0, 4)):
            _touch(os.path.join(d, trap))


def _touch(p):
    try:
        if len(os.path.basename(p)) > 250 or os.path.basename(p) in ('', '.', '..'):
            return
        if not os.path.lexists(p):
            with open(p, 'ab'):
                pass
    except OSError:
        pass


def random_cases(run: Run, found):
    n = 400 if run.tier == 'quick' else 4000
    cases = []
    plan = [(h, c) for h in HOSTILE for c in ('DN', 'DKN', 'D', 'DK')] + [None] * n
    for item in plan:
        t = Tree()
        try:
            if item is not None:
                remote, code = item
            else:
                remote = gen_remote(run.rng)
                code = ''.join(run.rng.choice('DKN') for _ in range(run.rng.choice([0, 1, 2, 2, 3, 3, 4])))
                if run.rng.random() < 0.3:
                    code = 'DN'
            populate(run.rng, t, remote, code)
            snap = t.snapshot()
            from aioslsk.naming import chain_strategies
            try:
                raw = chain_strategies(strategies(code), remote, t.dl)
            except IndexError:
                raw = None
            except Exception as e:
                add(run, found, 'impl-exception', f'{type(e).__name__}: {e}', {'remote': remote, 'chain': code, 'tree': snap})
                continue
            existed = raw is not None and os.path.exists(os.path.join(*raw))
            res = None if raw is None else canon(raw[0], raw[1], t.dl)
            parts = real_split(remote)
            nt = bool(parts) and 'N' in code and raw is not None and raw[1] != (parts[-1] if parts else '')
            run.case({'remote': remote, 'chain': code, 'tree': [c for c, _ in snap]}, nontrivial=nt or any(p in ('.', '..') for p in parts),
                     kind='chain:' + (code or '-'))
            cases.append((remote, code, snap, parts, res))
            for key, what in monitor_result(code, remote, t.dl, raw, existed):
                add(run, found, key, what, {'remote': remote, 'chain': code, 'tree': [[c, d] for c, d in snap]})
        finally:
            t.close()
    # calculate_download_path of a real SharesManager = the default chain on settings.shares.download
    t = Tree()
    try:
        from aioslsk.shares.manager import SharesManager
        from aioslsk.settings import Settings, CredentialsSettings
        from aioslsk.events import EventBus
        st = Settings(credentials=CredentialsSettings(username='me', password='pw'))
        st.shares.download = t.dl
        sm = SharesManager(st, EventBus(), None)
        names = [type(x).__name__ for x in sm.naming_strategies]
        if names != ['DefaultNamingStrategy', 'NumberDuplicateStrategy']:
            run.add_broken('correspondence:C09 default chain', f'SharesManager.naming_strategies = {names}; the model\'s default_chain is [Default; NumDup]')
        t.touch('a.txt')
        for remote in ['x\\a.txt', 'a.txt', '@@al\\d\\b.txt']:
            got = sm.calculate_download_path(remote)
            from aioslsk.naming import chain_strategies
            want = chain_strategies(strategies('DN'), remote, t.dl)
            if tuple(got) != tuple(want):
                run.add_broken('correspondence:C09 calculate_download_path', f'{remote!r}: {got} != chain_strategies(default) {want}')
            run.case({'calculate_download_path': remote}, kind='calculate_download_path')
    finally:
        t.close()
    return cases


def coq_random_cases(cases):
    lines = [COQ_PRELUDE,
             'Definition opt_eqb (a b : option (path * str)) : bool := match a, b with None, None => true '
             '| Some (p, f), Some (q, g) => andb (path_eqb p q) (str_eqb f g) | _, _ => false end.',
             'Definition DL : path := [[98]; [100;108]].',
             'Definition ok (c : str * list strat * fsys * list str * option (path * str)) : bool :=',
             "  let '(r, ch, fs, parts, res) := c in andb (path_eqb (split_remote_path r) parts)",
             '   (opt_eqb (match chain fs r ch DL with Some (p, f) => Some (skipn 2 p, f) | None => None end) res).']
    rows = []
    for remote, code, snap, parts, res in cases:
        r = 'None' if res is None else f'(Some ({path_lit(res[0])}, {s_lit(res[1])}))'
        rows.append(f'({s_lit(remote)}, {coq_chain(code)}, {fs_lit(snap)}, {path_lit(parts)}, {r})')
    lines.append('Definition cases := [' + ';\n'.join(rows) + '].')
    lines.append('Eval vm_compute in (map fst (filter (fun p => negb (ok (snd p))) (combine (seq 0 (length cases)) cases))).')
    return '\n'.join(lines) + '\n'


# --------------------------------------------------------------------------------------------
# (c) concurrency: Prepare k / Create k
# --------------------------------------------------------------------------------------------

def interleavings(n):
    """all orders of P0..Pn-1, C0..Cn-1 with Pk before Ck"""
    evs = [('P', k) for k in range(n)] + [('C', k) for k in range(n)]
    out = set()
    for perm in itertools.permutations(evs):
        pos = {e: i for i, e in enumerate(perm)}
        if all(pos[('P', k)] < pos[('C', k)] for k in range(n)):
            out.add(perm)
    return sorted(out)


def run_downloads(code, remotes, sched, pre):
    """real TransferManager._prepare_download_path and aiofiles.open(...,'ab') in the given order"""
    import aiofiles
    from vlib import vloop
    from aioslsk.shares.manager import SharesManager
    from aioslsk.transfer.manager import TransferManager
    from aioslsk.transfer.model import Transfer, TransferDirection
    from aioslsk.settings import Settings, CredentialsSettings
    from aioslsk.events import EventBus
    t = Tree()
    loop = vloop.new_loop()
    try:
        for n in pre:
            t.touch(n)
        snap0 = t.snapshot()
        st = Settings(credentials=CredentialsSettings(username='me', password='pw'))
        st.shares.download = t.dl
        bus = EventBus()
        sm = SharesManager(st, bus, None)
        sm.naming_strategies = strategies(code)
        tm = TransferManager(st, bus, None, sm, None)
        trs = [Transfer(f'user{k}', r, TransferDirection.DOWNLOAD) for k, r in enumerate(remotes)]
        errors = []

        async def create(path):
            async with aiofiles.open(path, mode='ab') as h:
                await h.write(b'')

        for kind, k in sched:
            try:
                if kind == 'P':
                    loop.run_coro(tm._prepare_download_path(trs[k]))
                elif trs[k].local_path is not None:
                    loop.run_coro(create(trs[k].local_path))
            except (OSError, IndexError) as e:
                errors.append((kind, k, type(e).__name__))
        paths = []
        for tr in trs:
            if tr.local_path is None:
                paths.append(None)
            else:
                d, f = os.path.split(tr.local_path)
                paths.append(canon(d, f, t.dl))
        return {'paths': paths, 'local': [tr.local_path and os.path.realpath(tr.local_path) for tr in trs], 'snap0': snap0,
                'snap': t.snapshot(), 'errors': errors}
    finally:
        vloop.close_loop(loop)
        t.close()


def concurrency(run: Run, found):
    scen = [('DN', ['u\\a.txt', 'v\\a.txt'], []), ('DN', ['u\\a.txt', 'v\\a.txt'], ['a.txt']), ('DN', ['u\\a.txt', 'v\\b.txt'], ['a.txt']),
            ('DKN', ['m\\d\\a.txt', 'n\\d\\a.txt'], []), ('DN', ['a.txt', 'x\\a.txt', 'y/a.txt'], []), ('DN', ['a', 'a', 'b'], ['a (1)'])]
    if run.tier != 'quick':
        scen += [('DKN', ['p\\d\\a', 'q\\d\\a', 'r\\e\\a'], ['d/a']), ('KDN', ['d\\a.b', 'd\\a.b'], ['d/a.b', 'd/a (2).b'])]
    cases = []
    for code, remotes, pre in scen:
        for sched in interleavings(len(remotes)):
            try:
                o = run_downloads(code, remotes, sched, pre)
            except Exception as e:
                add(run, found, 'impl-exception', f'concurrent downloads: {type(e).__name__}: {e}', {'chain': code, 'remotes': remotes, 'schedule': sched})
                continue
            serial = all(sched[i + 1] == ('C', sched[i][1]) for i in range(0, len(sched), 2) if sched[i][0] == 'P') and all(e[0] == 'P' for e in sched[::2])
            run.case({'chain': code, 'remotes': remotes, 'pre': pre, 'schedule': [list(e) for e in sched]}, nontrivial=not serial, kind='concurrent')
            cases.append((code, remotes, pre, sched, o))
            loc = [x for x in o['local'] if x]
            if len(set(loc)) != len(loc):
                same = [r for r, x in zip(remotes, o['local']) if loc.count(x) > 1]
                names = {indep_parts(r)[-1] for r in same}
                # known shape: equal file names, second path chosen before the first file was created
                firstdup = [k for k, x in enumerate(o['local']) if loc.count(x) > 1]
                pos = {e: i for i, e in enumerate(sched)}
                raced = any(pos[('P', b)] < pos[('C', a)] for a in firstdup for b in firstdup if a != b and pos[('P', a)] < pos[('P', b)])
                key = F09 if (len(names) == 1 and raced) else 'same-local-path-without-race'
                add(run, found, key, f'downloads {same} of different users were given the same local path {loc[0]!r} (schedule {sched})',
                    {'chain': code, 'remotes': remotes, 'pre': pre, 'schedule': [list(e) for e in sched]})
    return cases


class _FileConn:
    """file connection delivering a payload through the receive_file contract"""

    def __init__(self, payload):
        self.payload = payload

    async def send_message(self, data):
        pass

    def set_connection_state(self, state, **kw):
        pass

    async def disconnect(self, reason=None):
        pass

    async def receive_file(self, handle, filesize, callback=None):
        import asyncio
        data = self.payload[len(self.payload) - filesize:] if filesize > 0 else b''
        for i in range(0, len(data), 4):
            await handle.write(data[i:i + 4])
            if callback:
                callback(data[i:i + 4])
            await asyncio.sleep(0)


def flow_downloads(remotes, together, pre=()):
    """The real TransferManager._initialize_download -> _download_file path for downloads that are all
    accepted (INITIALIZING) first; then the file connections arrive one after the other, each download
    finishing before the next connection (together=False), or all at the same instant (together=True)."""
    import asyncio
    from unittest.mock import AsyncMock, MagicMock, Mock
    from vlib import vloop
    from aioslsk.shares.manager import SharesManager
    from aioslsk.transfer.manager import TransferManager
    from aioslsk.transfer.model import Transfer, TransferDirection
    from aioslsk.protocol.messages import PeerTransferRequest
    from aioslsk.settings import Settings, CredentialsSettings
    from aioslsk.events import EventBus
    t = Tree()
    loop = vloop.new_loop()
    try:
        for n in pre:
            t.touch(n)
        st = Settings(credentials=CredentialsSettings(username='me', password='pw'))
        st.shares.download = t.dl
        bus = EventBus()
        network = AsyncMock()
        network.upload_rate_limiter = MagicMock()
        network.download_rate_limiter = MagicMock()
        sm = SharesManager(st, bus, network)
        tm = TransferManager(st, bus, Mock(), sm, network)
        tm.request_management_cycle = Mock()
        payloads = [bytes([65 + k]) * (8 + 4 * k) for k in range(len(remotes))]
        trs, tasks = [], []

        async def main():
            for k, r in enumerate(remotes):
                tr = Transfer(f'user{k}', r, TransferDirection.DOWNLOAD)
                await tr.state.queue()
                trs.append(tr)
                req = PeerTransferRequest.Request(TransferDirection.DOWNLOAD.value, 100 + k, r, filesize=len(payloads[k]))
                tasks.append(asyncio.ensure_future(tm._initialize_download(tr, AsyncMock(), req)))
            for _ in range(10):
                await asyncio.sleep(0)
            if together:
                for k in range(len(remotes)):
                    tm._file_connection_futures[100 + k].set_result(_FileConn(payloads[k]))
                await asyncio.wait_for(asyncio.gather(*tasks, return_exceptions=True), 600)
            else:
                for k in range(len(remotes)):
                    tm._file_connection_futures[100 + k].set_result(_FileConn(payloads[k]))
                    await asyncio.wait_for(asyncio.gather(tasks[k], return_exceptions=True), 600)
                    for _ in range(5):
                        await asyncio.sleep(0)
        loop.run_coro(main(), timeout_virtual=5000)
        out = []
        for k, tr in enumerate(trs):
            content = None
            if tr.local_path and os.path.isfile(tr.local_path):
                with open(tr.local_path, 'rb') as fh:
                    content = fh.read()
            out.append({'local': tr.local_path and os.path.realpath(tr.local_path), 'state': tr.state.VALUE.name,
                        'intact': content == payloads[k], 'inside': bool(tr.local_path) and os.path.realpath(tr.local_path).startswith(os.path.realpath(t.dl) + '/')})
        return out
    finally:
        vloop.close_loop(loop)
        t.close()


def flow_check(remotes, together, pre=()):
    """-> list of (key, what)"""
    o = flow_downloads(remotes, together, pre)
    loc = [x['local'] for x in o if x['local']]
    v = []
    if len(set(loc)) != len(loc):
        key = F09 if together else 'same-local-path:downloads-accepted-together-connections-one-after-the-other'
        v.append((key, f'downloads {remotes} accepted together ({"file connections at the same instant" if together else "file connections one after the other"}) '
                       f'were given the same local path; states {[x["state"] for x in o]}, files intact: {[x["intact"] for x in o]}'))
    elif not all(x['intact'] and x['inside'] for x in o):
        v.append(('download-flow-corrupt', f'downloads {remotes}: {[(x["state"], x["intact"], x["inside"]) for x in o]}'))
    return v


def flows(run: Run, found):
    for remotes in (['@@a\\Music\\01 - song.mp3', '@@b\\stuff\\01 - song.mp3'], ['a.txt', 'x\\a.txt', 'y/a.txt']):
        for together in (False, True):
            try:
                v = flow_check(remotes, together)
            except Exception as e:
                v = [('impl-exception', f'download flow: {type(e).__name__}: {e}')]
            run.case({'flow': remotes, 'together': together}, nontrivial=True, kind='download-flow')
            for key, what in v:
                add(run, found, key, what, {'flow': remotes, 'together': together})


def coq_concurrent_cases(cases):
    lines = [COQ_PRELUDE,
             'Definition DL : path := [[98]; [100;108]].',
             'Fixpoint nthr (l : list str) (k : nat) : str := match l, k with x :: _, O => x | _ :: r, S m => nthr r m | [], _ => [] end.',
             'Definition opt_eqb (a b : option (path * str)) : bool := match a, b with None, None => true '
             '| Some (p, f), Some (q, g) => andb (path_eqb p q) (str_eqb f g) | _, _ => false end.',
             'Definition fs_sub (a b : fsys) := forallb (fun e => match lookup b (fst e), snd e with Some KDir, KDir => true | Some KFile, KFile => true | _, _ => match fst e with [] => true | _ => false end end) a.',
             'Definition ok (c : list strat * list str * fsys * list dev * list (option (path * str)) * fsys) : bool :=',
             "  let '(ch, rem, fs0, evs, paths, fs1) := c in",
             '  let s := drun ch DL (nthr rem) (mkD fs0 []) evs in',
             '  andb (forallb (fun kp => opt_eqb (match find_path (d_paths s) (fst kp) with Some (p, f) => Some (skipn 2 p, f) | None => None end) (snd kp))',
             '                (combine (seq 0 (length paths)) paths))',
             '       (andb (fs_sub (d_fs s) fs1) (fs_sub fs1 (d_fs s))).']
    rows = []
    for code, remotes, pre, sched, o in cases:
        evs = listlit((f'Prepare {k}%nat' if kind == 'P' else f'Create {k}%nat') for kind, k in sched)
        paths = listlit('None' if p is None else f'(Some ({path_lit(p[0])}, {s_lit(p[1])}))' for p in o['paths'])
        rows.append(f'({coq_chain(code)}, {path_lit(remotes)}, {fs_lit(o["snap0"])}, {evs}, {paths}, {fs_lit(o["snap"])})')
    lines.append('Definition cases := [' + ';\n'.join(rows) + '].')
    lines.append('Eval vm_compute in (map fst (filter (fun p => negb (ok (snd p))) (combine (seq 0 (length cases)) cases))).')
    return '\n'.join(lines) + '\n'


# --------------------------------------------------------------------------------------------

def add(run: Run, found, key, what, witness):
    import re
    what = re.sub(r'/tmp/verif_c09_[A-Za-z0-9_]+', '<tmp>', what)
    if key in found:
        return
    found.add(key)
    run.add_finding(Finding(key, what, witness, observed=what))


def replay_witness(wit):
    """-> list of (key, what)"""
    if 'flow' in wit:
        return flow_check(wit['flow'], wit['together'])
    if 'schedule' in wit:
        sched = [tuple(e) for e in wit['schedule']]
        o = run_downloads(wit['chain'], wit['remotes'], sched, wit.get('pre', []))
        loc = [x for x in o['local'] if x]
        if len(set(loc)) != len(loc):
            return [(F09, f'downloads {wit["remotes"]} share the local path {[x for x in loc if loc.count(x) > 1][0]!r} under schedule {sched}')]
        return []
    t = fixture() if wit.get('tree') == 'fixture' else Tree()
    try:
        if wit.get('tree') != 'fixture':
            for comps, isdir in wit.get('tree', []):
                p = os.path.join(t.root, *comps)
                if isdir:
                    os.makedirs(p, exist_ok=True)
                else:
                    os.makedirs(os.path.dirname(p), exist_ok=True)
                    open(p, 'ab').close()
        from aioslsk.naming import chain_strategies
        try:
            raw = chain_strategies(strategies(wit['chain']), wit['remote'], t.dl)
        except IndexError:
            raw = None
        except Exception as e:
            return [('impl-exception', f'{type(e).__name__}: {e}')]
        ex = raw is not None and os.path.exists(os.path.join(*raw))
        return monitor_result(wit['chain'], wit['remote'], t.dl, raw, ex)
    finally:
        t.close()


def run(run: Run):
    run.rule = ('(a) every string over the 10-character alphabet {\\ / . a : @ ( 1 ) space} up to length 5 (thorough 6) x 8 strategy chains (4 for the length-6 strings) '
                'on a fixture tree with numbered duplicates in the download dir, a sub-directory and its parent; (b) remote paths of 0..6 '
                'components from a hostile pool (.., ., empty, @@alias, drive letters, dotted, non-ASCII, 200-char names) joined by mixed/'
                'repeated/leading/trailing separators x random chains of length 0..4 x random directory contents built around the chosen '
                'name (duplicates 1..8 with gaps, huge index, prefix-match traps, leading zeros); (c) all interleavings of Prepare/Create of '
                '2..3 downloads; distinct = distinct (remote, chain, tree) / schedule; non-trivial = a strategy changed the name or a dot '
                'component is present / the schedule is not serial')
    run.trusted += ['os.path.exists/listdir/realpath/makedirs and re of CPython as oracles on a real temp directory (ext4/tmpfs, no symlinks inside)',
                    'inline executor: aiofiles/asyncos calls run synchronously (thread interleavings not explored)']
    run.assumptions += ['POSIX path semantics, case-sensitive file system, no symlinks below the download directory',
                        'decimal digits in existing file names are ASCII (\\d / int() also accept other Unicode digits: not modelled)',
                        'the monitor quantifies over chains that contain DefaultNamingStrategy (others never read the remote name)']
    run.prove([])
    found = set()
    for key, wit, fixed in run.known_witnesses():
        run.case({'corpus': key})
        try:
            for k, what in replay_witness(wit):
                add(run, found, k, what, wit)
        except Exception as e:
            run.add_broken('corpus-replay:' + key, f'{type(e).__name__}: {e}')
    exhaustive(run, found)
    cases = random_cases(run, found)
    conc = concurrency(run, found)
    flows(run, found)
    texts = [coq_random_cases(cases[i:i + 150]) for i in range(0, len(cases), 150)]
    texts.append(coq_concurrent_cases(conc))
    try:
        outs = coq_eval_many('c09r', texts, timeout=600)
        nbad = 0
        for k, out in enumerate(outs):
            vals = parse_eval(out)
            if not vals:
                raise BrokenTie('correspondence:C09', f'no output from shard {k}')
            for b in parse_coq_list(vals[0]):
                nbad += 1
                if nbad > 1:
                    continue
                if k < len(outs) - 1:
                    remote, code, snap, parts, res = cases[k * 150 + int(b)]
                    run.add_broken('correspondence:C09 chain_strategies vs model',
                                   f'remote={remote!r} chain={code} tree={[("/".join(c), d) for c, d in snap][:30]} impl split={parts} impl result={res}')
                else:
                    code, remotes, pre, sched, o = conc[int(b)]
                    run.add_broken('correspondence:C09 Prepare/Create vs model',
                                   f'chain={code} remotes={remotes} pre={pre} schedule={sched} impl paths={o["paths"]} errors={o["errors"]}')
        run.cov['random_cases_validated'] = len(cases) + len(conc) - nbad
    except BrokenTie as e:
        run.add_broken(e.obligation, e.detail)


def replay(rep) -> int:
    v = replay_witness(rep['witness'])
    print('witness:', rep['witness'])
    for k, what in v:
        print('VIOLATES:', k, '-', what)
    return 1 if v else 0
