"""C06 — after abort/pause/remove returns nothing more happens for that transfer; one negotiation per slot.

L1  theories/C06/Props.v over gen/SlotGen.v (which creation sites skip an occupied slot, callback
    discipline, what cancel_tasks cancels: regenerated from transfer/manager.py, model.py, state.py)
L2  trace validation: real SoulSeekClient on the fake network (checks/c05_world.py), the REAL management
    job, slow / held / failing peer connects, cycle timing provoked by server messages and virtual time,
    abort/pause/remove/queue at every point.  Recorders (outside the code) log cycle / task start /
    delivery / failure / done-callback / user call in their real order; the per-transfer model machine is
    run (vm_compute) on exactly that event list and its snapshot (state, remotely_queued, live tasks per
    kind, slot occupancy) must equal the snapshot of the real objects after every operation
L3  monitor = the property text: after a stop call returned, inside an observation window (held connects
    released, 70 virtual seconds): no frame about the file on any peer endpoint, no live
    queue-remotely-*/initialize-* task of the transfer, no field change, no new connection to the peer;
    at every logged point at most one live task per slot kind and every live task held by its slot.
"""
from __future__ import annotations

import asyncio

from vlib.common import Run, Finding, BrokenTie, coq_eval_many, parse_eval, listlit, shrink_list

K_RQ = 'F03-slot-overwritten-while-task-in-flight'     # two tasks of one slot kind live at once; one handle lost
K_TR = 'F03-done-callback-clears-newer-task'           # a single live task that its slot does not hold
K_RACE = 'F15-race-connect-children-survive-cancel'
K_LOCK = 'F29-cycle-during-stop-call-starts-surviving-task'
K_RMFIN = 'F30-remove-of-finished-transfer-leaves-task-running'

CODE = {'QUEUED': 0, 'INITIALIZING': 1, 'UPLOADING': 2, 'DOWNLOADING': 2, 'ABORTED': 3, 'PAUSED': 3,
        'COMPLETE': 4, 'FAILED': 4, 'INCOMPLETE': 0, 'VIRGIN': 6}   # INCOMPLETE behaves like QUEUED for every modelled event


class Entry:
    def __init__(self, kind, transfer, k):
        self.kind, self.transfer, self.k = kind, transfer, k
        self.coro = None
        self.started = self.ended = self.delivered = self.cancelled = self.failed = False


def rng_priority(app):
    return app.get('priority', 100)


class Driver:
    def __init__(self, mode='race', app=None):
        from checks.c05_world import TW
        self.mode = mode
        self.app = app or {}     # application-side listeners: {'state': 'suspend'|None, 'bus': 'suspend'|'raise'|None, 'late': op index}
        self.app_refs = []
        self.nop = 0
        self.tw = TW(slots=10, connect_mode=mode, driven=False, nusers=3)
        tw = self.tw
        for n in tw.names:
            tw.indirect_fail.add(n)
        self.ts = []            # transfers, index = id
        self.entries = {}       # id(transfer) -> [Entry]
        self.log = []           # (what, transfer index or None, k)
        self.rows = {}          # transfer index -> [(events, snapshot)]
        self.cursor = {}        # transfer index -> position in self.log already consumed
        self.markers = []       # observation windows
        self.viol = []          # (key, text)
        self.flight = {}        # transfer index -> worst (nRQ, nTR) seen, untracked seen
        self.nomodel = False
        self.answered = set()
        self.fup = {}           # upload index -> file endpoint waiting for the offset / the end
        self.file_eps = set()
        # really shared files, so that uploads are created the way a peer creates them (PeerTransferQueue)
        import os
        sm = tw.w.client.shares
        d = os.path.join(str(tw.w.tmp), 'shared')
        os.makedirs(d)
        for i in range(6):
            with open(os.path.join(d, f's{i}.bin'), 'wb') as f:
                f.write(b'0123456789')
        sd = sm.add_shared_directory(d)
        tw.w.run(sm.scan_directory_files(sd))
        self.shared = sorted(it.get_remote_path() for it in sd.items)
        tw.settle(100)
        self._wrap()

    # ---- recorders ---------------------------------------------------------------------------
    def _entry_of_current(self):
        t = asyncio.current_task()
        if t is None:
            return None
        c = t.get_coro()
        for es in self.entries.values():
            for e in es:
                if e.coro is c:
                    return e
        return None

    def _wrap(self):
        tm, net, tw = self.tw.tm, self.tw.net, self.tw
        orig_qr, orig_iu = tw.tm._queue_remotely, tw.tm._initialize_upload    # already recorder-wrapped by TW (harmless)
        orig_send, orig_mt = net.send_peer_messages, tm.manage_transfers
        drv = self

        def make(kind, orig, created_note=None):
            def factory(transfer, *args):
                es = drv.entries.setdefault(id(transfer), [])
                e = Entry(kind, transfer, len(es))
                es.append(e)
                if created_note:
                    drv.note(created_note, transfer, -1)

                async def body():
                    e.started = True
                    drv.note('start', transfer, e.k)
                    try:
                        return await orig(transfer, *args)
                    except asyncio.CancelledError:
                        e.cancelled = True
                        raise
                    finally:
                        e.ended = True
                        if not e.cancelled:
                            if kind == 'RQ':
                                if not e.delivered:
                                    drv.note('connfail', transfer, e.k)
                            elif e.failed:
                                drv.note('end', transfer, e.k)       # the state change was logged when it happened
                            else:
                                drv.note({'QUEUED': 'connfail', 'INCOMPLETE': 'interrupt'}.get(transfer.state.VALUE.name, 'finish'), transfer, e.k)
                e.coro = body()
                drv.check_flight(transfer)
                return e.coro
            return factory
        tm._queue_remotely = make('RQ', orig_qr)
        tm._initialize_upload = make('TR', orig_iu)
        tm._initialize_download = make('TR', tm._initialize_download, created_note='peermsg')

        async def send(username, *messages, **kw):
            e = drv._entry_of_current()
            r = await orig_send(username, *messages, **kw)
            if e is not None:
                e.delivered = True
                drv.note('deliver', e.transfer, e.k)
            return r
        net.send_peer_messages = send

        def mt():
            # the cycle skips transfers whose state lock is held (repair F29): for those it is not an event of their machine
            drv.log.append(('cycle', None, frozenset(id(t) for t in tm.transfers if t._state_lock.locked())))
            return orig_mt()
        tm.manage_transfers = mt

        orig_add = tm.add

        async def add(transfer):
            r = await orig_add(transfer)
            if r is transfer and transfer not in drv.ts:
                drv.hook_transfer(r)
                drv.ts.append(r)
                drv.cursor[len(drv.ts) - 1] = len(drv.log)
            return r
        tm.add = add

    def hook_transfer(self, t):
        drv = self
        o1, o2 = t._remotely_queue_task_complete, t._transfer_task_complete

        def find(task):
            c = task.get_coro()
            for e in drv.entries.get(id(t), []):
                if e.coro is c:
                    return e.k
            return None

        def cb1(task):
            drv.note('donecb', t, find(task))
            o1(task)
            drv.check_flight(t)

        def cb2(task):
            drv.note('donecb', t, find(task))
            o2(task)
            drv.check_flight(t)
        t._remotely_queue_task_complete = cb1
        t._transfer_task_complete = cb2

        class L:
            async def on_transfer_state_changed(self, transfer, old, new):
                if drv.app.get('state') == 'suspend':     # an application listener that awaits something
                    await asyncio.sleep(0)
                e = drv._entry_of_current()
                if e is None or e.transfer is not transfer:
                    return
                if new.name in ('DOWNLOADING', 'UPLOADING'):
                    drv.note('begin', transfer, e.k)
                elif new.name == 'FAILED' and e.kind == 'TR' and old.name in ('INITIALIZING', 'DOWNLOADING', 'UPLOADING'):
                    e.failed = True
                    drv.note('fail', transfer, e.k)
        t.state_listeners.append(L())

    def note(self, what, transfer, k):
        i = self.ts.index(transfer) if transfer in self.ts else None
        self.log.append((what, i, k))

    # ---- liveness ------------------------------------------------------------------------------
    def live_entries(self, t):
        alive = {id(x.get_coro()) for x in asyncio.all_tasks(self.tw.w.loop) if not x.done()}
        return [e for e in self.entries.get(id(t), []) if not e.ended and id(e.coro) in alive]

    def slot_entry(self, t, kind):
        task = t._remotely_queue_task if kind == 'RQ' else t._transfer_task
        if task is None or task.done():
            return None
        c = task.get_coro()
        for e in self.entries.get(id(t), []):
            if e.coro is c:
                return e
        return None

    def check_flight(self, t):
        if t not in self.ts:
            return
        i = self.ts.index(t)
        live = self.live_entries(t)
        nrq = sum(1 for e in live if e.kind == 'RQ')
        ntr = sum(1 for e in live if e.kind == 'TR')
        held = {self.slot_entry(t, 'RQ'), self.slot_entry(t, 'TR')}
        untracked = [e.kind for e in live if e not in held]
        f = self.flight.setdefault(i, {'rq': 0, 'tr': 0, 'untracked': set()})
        f['rq'] = max(f['rq'], nrq)
        f['tr'] = max(f['tr'], ntr)
        f['untracked'] |= set(untracked)

    def snapshot(self, t):
        live = self.live_entries(t)
        return (CODE[t.state.VALUE.name], bool(t.remotely_queued),
                sum(1 for e in live if e.kind == 'RQ'), sum(1 for e in live if e.kind == 'TR'),
                self.slot_entry(t, 'RQ') is not None, self.slot_entry(t, 'TR') is not None)

    def nconnects(self, username):
        return sum(1 for u, _ in self.tw.connects if u == username)

    def fields(self, t):
        return (t.state.VALUE.name, t.remotely_queued, t.fail_reason, t.abort_reason, t.queue_attempts,
                t.upload_request_attempts, t.bytes_transfered, t.local_path)

    # ---- model events of what happened since the last observation ----------------------------------
    def flush(self, user_events):
        """user_events: {transfer index: [model event text]} placed at the START of the op's log slice."""
        for i, t in enumerate(self.ts):
            pos = self.cursor.get(i, 0)
            evs = list(user_events.get(i, []))
            for what, ti, k in self.log[pos:]:
                if what == 'cycle':
                    if id(t) not in (k or ()):
                        evs.append('Cycle')
                elif ti == i and what == 'peermsg':
                    evs.append('PeerMsg')
                elif ti == i and k is not None:
                    evs.append({'start': 'Start', 'begin': 'Begin', 'interrupt': 'Interrupt', 'fail': 'Fail', 'end': 'End_', 'deliver': 'Deliver', 'connfail': 'ConnFail', 'finish': 'Finish',
                                'donecb': 'DoneCb'}[what] + f' {k}')
            self.cursor[i] = len(self.log)
            self.check_flight(t)
            self.rows.setdefault(i, []).append((evs, self.snapshot(t)))

    # ---- operations ------------------------------------------------------------------------------
    def register_app_listeners(self):
        """Listeners an application registers on the event bus: they may suspend or raise (EventBus.emit awaits coroutine
        listeners in priority order and logs exceptions)."""
        how = self.app.get('bus')
        if not how or self.app_refs:
            return
        from aioslsk.events import TransferAddedEvent, TransferRemovedEvent

        async def slow(event):
            await asyncio.sleep(0)
            await asyncio.sleep(0)

        async def bad(event):
            raise RuntimeError('application listener failed')
        fn = slow if how == 'suspend' else bad
        self.app_refs.append(fn)
        for ev in (TransferAddedEvent, TransferRemovedEvent):
            self.tw.w.client.events.register(ev, fn, priority=rng_priority(self.app))

    def do(self, op):
        tw = self.tw
        kind = op[0]
        if self.nop >= self.app.get('late', 0):
            self.register_app_listeners()
        self.nop += 1
        ue = {}
        pre_len = len(self.log)
        if kind == 'D' or kind == 'U':
            u = f'u{op[1]}'
            for m in self.markers:      # later connections to this peer may belong to the new transfer
                if self.ts[m['k']].username == u:
                    m['alone'] = False
            if kind == 'D':
                from aioslsk.transfer.model import Transfer, TransferDirection
                t = Transfer(u, f'd{len(self.ts)}', TransferDirection.DOWNLOAD)
                t = tw.w.run(tw.tm.add(t))
                self.cursor[self.ts.index(t)] = len(self.log)      # cycles that saw it VIRGIN do not count
                tw.w.run(t.state.queue())
            else:
                # the peer connects, asks for a shared file (PeerTransferQueue) and disconnects
                if any(x.username == u and x.is_upload() for x in self.ts):
                    return
                from aioslsk.protocol.messages import PeerTransferQueue
                ep = tw.incoming_peer(u)
                tw.settle(30)
                ep.feed(PeerTransferQueue.Request(self.shared[len(self.ts) % len(self.shared)]).serialize())
                ep.feed_eof()
            tw.settle(60)
        elif kind == 'T':
            tw.w.loop.run_for(op[1])
            tw.settle(100)
        elif kind == 'Poke':       # any server message the transfer manager reacts to with a cycle request
            from aioslsk.protocol.messages import GetUserStatus
            tw.w.server_send(GetUserStatus.Response('someone', 2, False))
            tw.settle(60)
        elif kind == 'Mode':       # behaviour of the peer for connects started from now on
            tw.mode[f'u{op[1]}'] = op[2]
        elif kind == 'Addr':
            tw.addr_mode[f'u{op[1]}'] = op[2]
            if op[2] == 'auto':
                tw.release_addr(f'u{op[1]}')
            tw.settle(100)
        elif kind == 'Rel':        # release held connects of a user
            tw.release_slow(f'u{op[1]}', ok=op[2])
            tw.settle(100)
        elif kind == 'Reply':      # the peer refuses the upload request of transfer k
            k = op[1]
            if k < len(self.ts) and self.ts[k].is_upload() and self.ts[k].state.VALUE.name == 'INITIALIZING':
                from aioslsk.protocol.messages import PeerTransferReply, PeerTransferRequest
                t = self.ts[k]
                reqs = [m for u, m in tw.peer_frames(t.username) if isinstance(m, PeerTransferRequest.Request) and m.filename == t.remote_path]
                ep = tw.peer_ep(t.username)
                if reqs and ep is not None:
                    ep.feed(PeerTransferReply.Request(reqs[-1].ticket, False, reason='Cancelled').serialize())
                    tw.settle(100)
        elif kind == 'PReq':     # the peer announces it is ready to upload the file of download k to us
            k = op[1]
            # (a request for a FAILED download re-queues it first: COMPLETE and FAILED are one model state, not driven)
            if k < len(self.ts) and self.ts[k].is_download() and self.ts[k] in tw.tm.transfers \
                    and self.ts[k].state.VALUE.name != 'FAILED':
                from aioslsk.protocol.messages import PeerTransferRequest
                t = self.ts[k]
                ep = tw.peer_ep(t.username)
                if ep is None:          # the peer connects to us (our own attempt may still be pending)
                    ep = tw.incoming_peer(t.username)
                    tw.settle(30)
                if ep is not None and not ep.remote_closed:
                    self.ticket = getattr(self, 'ticket', 9000) + 1
                    self.ptickets = getattr(self, 'ptickets', {})
                    self.ptickets[k] = self.ticket
                    ep.feed(PeerTransferRequest.Request(1, self.ticket, t.remote_path, filesize=10).serialize())
                    tw.settle(100)
        elif kind == 'FConn':    # the peer opens the file connection for download k and sends the ticket; then
            k, how = op[1], op[2]    # 'open' nothing more | 'err' read error | 'eof' early EOF | 'data' the whole file
            tk = getattr(self, 'ptickets', {}).get(k)
            if tk is not None and k < len(self.ts) and self.ts[k].state.VALUE.name == 'INITIALIZING':
                from aioslsk.protocol.messages import PeerInit
                from aioslsk.protocol.primitives import uint32
                t = self.ts[k]
                self.fconn = getattr(self, 'fconn', {})
                fe = tw.w.net.incoming(60000, peername=(tw.user_ip(t.username), 41000 + len(self.fconn)))
                self.fconn[k] = fe
                del self.ptickets[k]
                fe.feed(PeerInit.Request(t.username, 'F', 0).serialize() + uint32(tk).serialize())
                tw.settle(100)
                self._fend(k, how)
        elif kind == 'FEnd':
            self._fend(op[1], op[2])
        elif kind == 'ReplyOK':  # the peer accepts the upload request of transfer k; we open the file connection
            k = op[1]
            if k < len(self.ts) and self.ts[k].is_upload() and self.ts[k].state.VALUE.name == 'INITIALIZING':
                from aioslsk.protocol.messages import PeerTransferReply, PeerTransferRequest
                t = self.ts[k]
                reqs = [m for u, m in tw.peer_frames(t.username) if isinstance(m, PeerTransferRequest.Request) and m.filename == t.remote_path]
                ep = tw.peer_ep(t.username)
                if reqs and ep is not None and reqs[-1].ticket not in self.answered:
                    self.answered.add(reqs[-1].ticket)
                    n0 = len(tw.eps)
                    ep.feed(PeerTransferReply.Request(reqs[-1].ticket, True).serialize())
                    tw.settle(150)
                    if len(tw.eps) > n0:
                        self.fup[k] = tw.eps[-1][1]
                        self.file_eps.add(id(tw.eps[-1][1]))
        elif kind == 'FOff':     # the peer sends the offset on the file connection of upload k; 'err': our writes then fail
            k, how = op[1], op[2]
            fe = self.fup.get(k)
            if fe is not None and k < len(self.ts) and self.ts[k].state.VALUE.name == 'INITIALIZING':
                from aioslsk.protocol.primitives import uint64
                if how == 'err':
                    fe.write_error = ConnectionResetError('reset by peer')
                fe.feed(uint64(0).serialize())
                tw.settle(150)
                if how == 'err':
                    self.fup.pop(k, None)
        elif kind == 'FEof':     # the peer closes the file connection of upload k (after receiving the file)
            fe = self.fup.pop(op[1], None)
            if fe is not None:
                fe.feed_eof()
                tw.settle(150)
        elif kind == 'DropP':    # the peer closes its message connections (file connections stay)
            for u, ep in tw.eps:
                if u == f'u{op[1]}' and not ep.remote_closed and id(ep) not in self.file_eps:
                    ep.feed_eof()
            tw.settle(100)
        elif kind == 'PQ':       # the peer repeats its PeerTransferQueue request for upload k (clients do so periodically)
            k = op[1]
            if k < len(self.ts) and self.ts[k].is_upload() and self.ts[k] in tw.tm.transfers:
                from aioslsk.protocol.messages import PeerTransferQueue
                t = self.ts[k]
                if t.state.VALUE.name in ('FAILED', 'COMPLETE'):      # a legitimate re-queue by the peer
                    for m in self.markers:
                        if m['k'] == k and m['end'] is None:
                            m['end'] = (len(tw.wlog), self.fields(t), self.nconnects(t.username))
                        if self.ts[m['k']].username == t.username:
                            m['alone'] = False
                ue[k] = ['PeerMsg']
                ep = tw.incoming_peer(t.username)
                tw.settle(30)
                ep.feed(PeerTransferQueue.Request(t.remote_path).serialize())
                ep.feed_eof()
                tw.settle(100)
        elif kind == 'Blk':      # the user blocks / unblocks uploads to peer u (the user manager notices within 1 s)
            u = f'u{op[1]}'
            ups = [x for x in self.ts if x.is_upload() and x.username == u and x in tw.tm.transfers]
            # only while every upload to that peer is finished or aborted BY THE USER: then nothing may happen
            if all(x.state.VALUE.name in ('COMPLETE', 'FAILED') or
                   (x.state.VALUE.name == 'ABORTED' and x.abort_reason == 'Requested') for x in ups):
                from aioslsk.user.model import BlockingFlag
                if op[2]:
                    tw.w.settings.users.blocked[u] = BlockingFlag.UPLOADS
                else:
                    tw.w.settings.users.blocked.pop(u, None)
                tw.w.loop.run_for(1.2)
                tw.settle(100)
        elif kind == 'Drop':     # the peer closes its message connections
            for u, ep in tw.eps:
                if u == f'u{op[1]}' and not ep.remote_closed:
                    ep.feed_eof()
            tw.settle(100)
        elif kind in ('A', 'P', 'X', 'RQ', 'AI'):
            k = op[1]
            inter = None
            if kind == 'AI':        # ['AI', k, 'A'|'P', offset]: a server message arrives `offset` loop iterations into the call
                kind, inter = op[2], op[3]
                self.nomodel = True  # the model's stop calls are atomic: monitor only
            if k >= len(self.ts):
                return
            t = self.ts[k]
            if t not in tw.tm.transfers:
                return
            # any further user call on the transfer ends the observation window of an earlier stop
            for m in self.markers:
                if m['k'] == k and m['end'] is None:
                    m['end'] = (len(tw.wlog), self.fields(t), self.nconnects(t.username))
            if kind == 'RQ':
                if t.state.VALUE.name in ('ABORTED', 'PAUSED', 'FAILED', 'COMPLETE'):
                    ok, exc = tw.call(tw.tm.queue(t))
                    if ok:
                        ue[k] = ['Requeue']
                        for m in self.markers:      # connections to this peer now legitimately belong to the re-queued transfer
                            if self.ts[m['k']].username == t.username:
                                m['alone'] = False
                    tw.settle(60)
            else:
                stoppable = t.state.VALUE.name in ('QUEUED', 'INITIALIZING', 'UPLOADING', 'DOWNLOADING', 'INCOMPLETE')
                in_slots = [e for e in (self.slot_entry(t, 'RQ'), self.slot_entry(t, 'TR')) if e is not None]
                live_before = self.live_entries(t)
                api = {'A': tw.tm.abort, 'P': tw.tm.pause, 'X': tw.tm.remove}[kind]
                at_return = {}

                n_before = len(self.entries.get(id(t), []))

                async def stopper():
                    await api(t)
                    # the very instant the call returned (no loop iteration in between)
                    at_return['live'] = self.live_entries(t)
                if inter is None:
                    ok, exc = tw.call(stopper())
                else:
                    from aioslsk.protocol.messages import GetUserStatus
                    task = tw.w.loop.create_task(stopper())
                    tw.w.loop.run_ready(inter)
                    tw.w.server_send(GetUserStatus.Response('someone', 2, False))
                    tw.settle(100)
                    ok, exc = (task.done() and task.exception() is None), (None if not task.done() or task.exception() is None else type(task.exception()).__name__)
                    if not task.done():
                        task.cancel()
                if ok and (stoppable or kind == 'X'):
                    ue[k] = [{'A': 'Abort', 'P': 'Pause', 'X': 'Remove'}[kind]]
                    if stoppable or kind == 'X':
                        others_active = any(x is not t and x.username == t.username and x.state.VALUE.name in
                                            ('QUEUED', 'INITIALIZING', 'UPLOADING', 'DOWNLOADING', 'INCOMPLETE') for x in self.ts)
                        self.markers.append({
                            'k': k, 'op': kind, 'wlog': len(tw.wlog), 'fields': self.fields(t), 'connects': self.nconnects(t.username),
                            'live_at_return': [(e.kind, e.k) for e in at_return.get('live', [])],
                            'slot_survivors': [(e.kind, e.k) for e in in_slots if e in at_return.get('live', [])],
                            'orphans_at_call': [(e.kind, e.k) for e in live_before if e not in in_slots],
                            'race_children': [x.get_name() for x in asyncio.all_tasks(tw.w.loop) if not x.done()
                                              and x.get_name().startswith((f'direct-connect-{t.username}-', f'indirect-connect-{t.username}-'))],
                            'created_during_call': [(e.kind, e.k) for e in at_return.get('live', []) if e.k >= n_before],
                            'finished': not stoppable,
                            'alone': not others_active, 'end': None})
                elif not ok and exc not in ('InvalidStateTransition',):
                    self.viol.append(('stop-call-raised', f'{kind} on transfer {k} raised {exc}'))
                tw.settle(60)
        else:
            raise ValueError(op)
        self.flush(ue)

    def _fend(self, k, how):
        fe = getattr(self, 'fconn', {}).get(k)
        if fe is None or how == 'open' or k >= len(self.ts) or self.ts[k].state.VALUE.name != 'DOWNLOADING':
            return
        if how == 'err':
            fe.set_exception(ConnectionResetError('reset by peer'))
        elif how == 'eof':
            fe.feed(b'1234')
            fe.feed_eof()
        else:
            fe.feed(b'0123456789')
        del self.fconn[k]
        self.tw.settle(100)

    def window(self):
        """Observation window: release everything as successful, let 70 virtual seconds pass."""
        tw = self.tw
        for n in tw.names:
            tw.mode[n] = 'ok'
            tw.addr_mode[n] = 'auto'
        tw.release_addr()
        tw.release_slow(ok=True)
        tw.settle(200)
        self.flush({})
        tw.w.loop.run_for(70.0)
        tw.settle(200)
        self.flush({})

    def evaluate(self):
        """The property text over the run. Returns [(key, text)]."""
        from aioslsk.protocol.messages import PeerTransferQueue, PeerTransferRequest, PeerTransferReply, PeerUploadFailed
        tw = self.tw
        out = list(self.viol)
        for m in self.markers:
            t = self.ts[m['k']]
            end_w, end_f, end_c = m['end'] if m['end'] else (len(tw.wlog), self.fields(t), self.nconnects(t.username))
            frames = []
            # frames about the file written after the call returned
            for seq, u, idx, data in tw.wlog[m['wlog']:end_w]:
                if u != t.username:
                    continue
                from vlib import fakes
                from aioslsk.protocol.messages import PeerMessage
                for fr in fakes.split_frames(data):
                    try:
                        msg = PeerMessage.deserialize_request(fr)
                    except Exception:
                        continue
                    if isinstance(msg, (PeerTransferQueue.Request, PeerTransferRequest.Request, PeerUploadFailed.Request)) \
                            and getattr(msg, 'filename', None) == t.remote_path:
                        frames.append(type(msg).__qualname__)
            changed = [n for n, a, b in zip(('state', 'remotely_queued', 'fail_reason', 'abort_reason', 'queue_attempts',
                                             'upload_request_attempts', 'bytes_transfered', 'local_path'), m['fields'], end_f) if a != b]
            new_conn = end_c - m['connects']
            what = []
            if m['live_at_return']:
                what.append(f"live tasks {m['live_at_return']}")
            if frames:
                what.append(f'frames {frames}')
            if changed:
                what.append(f'fields changed {changed}')
            if m['created_during_call'] and set(m['live_at_return']) == set(m['created_during_call']):
                out.append((K_LOCK, f"{m['op']} of transfer {m['k']}: a management cycle that ran while the call was awaiting the cancelled "
                                    f"task created {m['created_during_call']}, alive after the call returned" + ('; ' + '; '.join(what) if what else '')))
                continue
            if m['finished'] and m['slot_survivors'] and set(m['live_at_return']) == set(m['slot_survivors']):
                out.append((K_RMFIN, f"remove() of the finished transfer {m['k']} returned with {m['slot_survivors']} still running"
                                     + ('; ' + '; '.join(what) if what else '')))
                continue
            if m['slot_survivors']:
                out.append(('slot-task-survives-stop', f"{m['op']} of transfer {m['k']} returned while the task(s) {m['slot_survivors']} "
                                                       f'held by its slots at the call are still running'))
                continue
            if what:
                f = self.flight.get(m['k'], {'rq': 0, 'tr': 0, 'untracked': set()})
                if m['orphans_at_call'] and m['live_at_return'] and max(f['rq'], f['tr']) > 1:
                    out.append((K_RQ, f"after {m['op']} of transfer {m['k']} returned: " + '; '.join(what)))
                elif m['orphans_at_call'] and m['live_at_return'] and f['untracked']:
                    out.append((K_TR, f"after {m['op']} of transfer {m['k']} returned: " + '; '.join(what)))
                else:
                    out.append(('activity-after-stop', f"after {m['op']} of transfer {m['k']} returned: " + '; '.join(what)))
            elif new_conn and m['alone']:
                direct = [n for n in m['race_children'] if n.startswith('direct-connect-')]
                if self.mode == 'race' and direct and new_conn <= len(direct):
                    out.append((K_RACE, f"after {m['op']} of transfer {m['k']} returned (no task of it live): {new_conn} new connection "
                                        f"attempt(s) to {t.username} by {m['race_children']}"))
                else:
                    out.append(('connect-after-stop', f"after {m['op']} of transfer {m['k']} returned: {new_conn} new connection attempt(s)"))
        for i, f in self.flight.items():
            t = self.ts[i]
            if f['rq'] > 1 or f['tr'] > 1:
                out.append((K_RQ, f"{max(f['rq'], f['tr'])} negotiation tasks of one kind of transfer {i} in flight at once"))
            elif f['untracked']:
                out.append((K_TR, f'a live {sorted(f["untracked"])} task of transfer {i} is not held by its slot (cancel cannot reach it)'))
        return out

    def close(self):
        self.tw.close()


def execute(mode, ops, window=True, app=None):
    d = Driver(mode, app)
    try:
        for op in ops:
            d.do(op)
        if window:
            d.window()
        return ({} if d.nomodel else d.rows), d.evaluate(), [t.is_upload() for t in d.ts]
    finally:
        d.close()


# the two stored witnesses (also what known_findings replays)
W_RQ = {'mode': 'fallback', 'ops': [['Addr', 0, 'hold'], ['D', 0], ['T', 0.3], ['Poke'], ['T', 0.3], ['A', 0]]}
W_TR = {'mode': 'fallback', 'ops': [['Mode', 0, 'slow'], ['U', 0], ['T', 0.3], ['T', 0.3], ['Rel', 0, False], ['T', 0.3], ['A', 0]]}
W_LOCK = {'mode': 'fallback', 'ops': [['Addr', 0, 'hold'], ['D', 0], ['T', 0.5], ['AI', 0, 'A', 1]]}
W_RMFIN = {'mode': 'fallback', 'ops': [['Mode', 0, 'slow'], ['D', 0], ['T', 0.3], ['PReq', 0], ['FConn', 0, 'data'], ['X', 0]]}
W_RACE = {'mode': 'race', 'ops': [['Addr', 0, 'hold'], ['D', 0], ['T', 0.3], ['A', 0]]}


def gen_peer_ops(rng):
    """Peer-initiated negotiation: the download is remotely queued, the peer offers the file, the file
    connection ends one way or another; stops / cycles / connection loss at random points."""
    u = rng.randrange(0, 2)
    if rng.random() < 0.35:     # our own remote-queue attempt is still pending when the peer offers the file
        ops = [rng.choice([['Mode', u, 'slow'], ['Addr', u, 'hold'], ['Mode', u, 'hang']]), ['D', u], ['T', 0.3]]
    else:
        ops = [['D', u], ['T', 0.3]]
    extra = lambda: rng.choice([['T', rng.choice([0.0, 0.06, 0.3, 1.0])], ['Poke'], [rng.choice(['A', 'P', 'X']), 0], ['RQ', 0],
                                ['Drop', u], ['Mode', u, rng.choice(['slow', 'hang', 'ok', 'refuse'])], ['Addr', u, 'hold'],
                                ['PReq', 0], ['Rel', u, rng.random() < 0.5]])
    def maybe(p=0.3):
        while rng.random() < p:
            ops.append(extra())
    maybe()
    ops.append(['PReq', 0])
    maybe()
    if rng.random() < 0.85:
        ops.append(['FConn', 0, rng.choice(['open', 'open', 'err', 'err', 'eof', 'data'])])
        if ops[-1][2] == 'open' and rng.random() < 0.6:      # stop in the middle of the file transfer, then the peer goes on sending
            ops += [[rng.choice(['A', 'P', 'P', 'X']), 0], ['FEnd', 0, rng.choice(['data', 'eof', 'err'])], ['T', 0.3]]
        maybe()
        if ops[-1][:1] == ['FConn'] and ops[-1][2] == 'open' or rng.random() < 0.3:
            ops.append(['FEnd', 0, rng.choice(['err', 'eof', 'data'])])
    if rng.random() < 0.7:
        ops += [['Drop', u], rng.choice([['Mode', u, 'slow'], ['Addr', u, 'hold'], ['Mode', u, 'hang']]), ['T', 0.3]]
    maybe(0.5)
    ops.append([rng.choice(['A', 'P', 'X', 'A']), 0])
    maybe(0.4)
    return ops


def core_scenarios():
    """Run on every check: abort / pause / remove at every phase of every kind of negotiation (the random families
    reach these phases only with some probability)."""
    phases = {
        'rq-connecting': [['Mode', 0, 'slow'], ['D', 0], ['T', 0.3]],
        'rq-and-peer-init': [['Mode', 0, 'slow'], ['D', 0], ['T', 0.3], ['PReq', 0]],
        'download-init': [['D', 0], ['T', 0.3], ['PReq', 0]],
        'downloading': [['D', 0], ['T', 0.3], ['PReq', 0], ['FConn', 0, 'open']],
        'incomplete-retry': [['D', 0], ['T', 0.3], ['PReq', 0], ['FConn', 0, 'err'], ['Drop', 0], ['Mode', 0, 'slow'], ['T', 0.3]],
        'upload-connecting': [['Mode', 0, 'slow'], ['U', 0], ['T', 0.3]],
        'upload-waiting-reply': [['U', 0], ['T', 0.3]],
        'upload-file-connecting': [['U', 0], ['T', 0.3], ['Mode', 0, 'slow'], ['ReplyOK', 0]],
        'uploading': [['U', 0], ['T', 0.3], ['ReplyOK', 0], ['FOff', 0, 'ok']],
        'upload-failed-notifying': [['U', 0], ['T', 0.3], ['ReplyOK', 0], ['DropP', 0], ['Mode', 0, 'slow'], ['FOff', 0, 'err']],
    }
    out = []
    for name, pre in phases.items():
        for stop in ('A', 'P', 'X'):
            tail = [['FEnd', 0, 'data']] if name == 'downloading' else ([['PQ', 0], ['T', 0.3]] if name.startswith('upload') else [['Poke'], ['T', 0.3]])
            out.append((name + '/' + stop, 'fallback', pre + [[stop, 0]] + tail))
    return out


def gen_block_ops(rng):
    """An upload the user aborted must stay aborted whatever happens to the block list."""
    u = rng.randrange(0, 2)
    ops = [['U', u], ['T', rng.choice([0.0, 0.3])]]
    if rng.random() < 0.3:
        ops.append(['Reply', 0])
    ops.append(['A', 0])
    for _ in range(rng.randrange(1, 4)):
        ops.append(rng.choice([['Blk', u, True], ['Blk', u, False], ['T', 0.3], ['Poke']]))
    ops += [['Blk', u, True], ['Blk', u, False], ['T', 0.3]]
    return ops


def gen_upload_ops(rng):
    """An upload driven into the file phase; write errors; the peer's message connection gone or slow while
    we still have to tell it; the peer repeating its queue request; stops at every point."""
    u = rng.randrange(0, 2)
    ops = [['U', u], ['T', 0.3]]
    extra = lambda: rng.choice([['T', rng.choice([0.0, 0.06, 0.3, 1.0])], ['Poke'], [rng.choice(['A', 'P', 'X']), 0], ['RQ', 0],
                                ['PQ', 0], ['PQ', 0], ['DropP', u], ['Mode', u, rng.choice(['slow', 'hang', 'ok'])],
                                ['Rel', u, rng.random() < 0.5]])
    def maybe(p=0.25):
        while rng.random() < p:
            ops.append(extra())
    maybe()
    if rng.random() < 0.8:
        ops.append(['ReplyOK', 0])
        maybe()
        if rng.random() < 0.7:
            ops += [['DropP', u], rng.choice([['Mode', u, 'slow'], ['Mode', u, 'hang'], ['Addr', u, 'hold']])]
        how = rng.choice(['err', 'err', 'ok'])
        ops.append(['FOff', 0, how])
        if how == 'ok' and rng.random() < 0.6:
            ops.append(['FEof', 0])
    else:
        ops.append(rng.choice([['P', 0], ['A', 0], ['Reply', 0]]))
    maybe(0.4)
    ops.append(rng.choice([['X', 0], ['PQ', 0], ['P', 0], ['A', 0]]))
    if ops[-1][0] == 'PQ':
        ops += [['T', rng.choice([0.0, 0.3])], [rng.choice(['A', 'P', 'X']), 0]]
    else:
        ops += [['PQ', 0], ['T', 0.3]]
    maybe(0.3)
    return ops


def gen_ops(rng):
    r0 = rng.random()
    if r0 < 0.22:
        return gen_peer_ops(rng)
    if r0 < 0.30:
        return gen_block_ops(rng)
    if r0 < 0.48:
        return gen_upload_ops(rng)
    ops = []
    nt = 0
    style = rng.choice(['dl', 'dl', 'ul', 'mix'])
    for u in range(rng.randrange(1, 3)):
        r = rng.random()
        if r < 0.45:
            ops.append(['Addr', u, 'hold'])
        elif r < 0.7:
            ops.append(['Mode', u, 'slow'])
        elif r < 0.85:
            ops.append(['Mode', u, 'refuse'])
    n = rng.randrange(4, 16)
    for _ in range(n):
        r = rng.random()
        if nt == 0 or r < 0.15:
            u = rng.randrange(0, 2)
            if style == 'ul' or (style == 'mix' and rng.random() < 0.4):
                ops.append(['U', u])
            else:
                ops.append(['D', u])
            nt += 1
            if len([o for o in ops if o[0] in ('D', 'U')]) > 3:
                ops.pop()
                nt -= 1
        elif r < 0.40:
            ops.append(['T', rng.choice([0.0, 0.05, 0.06, 0.3, 0.3, 1.0, 11.0, 31.0])])
        elif r < 0.52:
            ops.append(['Poke'])
        elif r < 0.60:
            ops.append(['Mode', rng.randrange(0, 2), rng.choice(['ok', 'slow', 'refuse', 'hang'])])
        elif r < 0.66:
            ops.append(['Addr', rng.randrange(0, 2), rng.choice(['hold', 'auto'])])
        elif r < 0.74:
            ops.append(['Rel', rng.randrange(0, 2), rng.random() < 0.6])
        elif r < 0.78:
            ops.append(['Reply', rng.randrange(0, max(1, nt))])
        elif r < 0.82:
            ops.append(['AI', rng.randrange(0, max(1, nt)), rng.choice(['A', 'P']), rng.randrange(0, 7)])
        elif r < 0.92:
            ops.append([rng.choice(['A', 'A', 'P', 'X']), rng.randrange(0, max(1, nt))])
        else:
            ops.append(['RQ', rng.randrange(0, max(1, nt))])
    return ops


COQ_HEAD = '''From Coq Require Import List Bool Arith.
From Slsk Require Import C06.Model.
Import ListNotations.
Definition snap := (nat * bool * nat * nat * bool * bool)%type.
Definition eqs (a b : snap) : bool :=
  let '(a1, a2, a3, a4, a5, a6) := a in let '(b1, b2, b3, b4, b5, b6) := b in
  (a1 =? b1) && Bool.eqb a2 b2 && (a3 =? b3) && (a4 =? b4) && Bool.eqb a5 b5 && Bool.eqb a6 b6.
Fixpoint first_bad (i : nat) (s : st) (ops : list (list event * snap)) : option nat :=
  match ops with
  | [] => None
  | (evs, e) :: r => let s' := run cur s evs in if eqs (snapshot s') e then first_bad (S i) s' r else Some i
  end.
'''


def coq_cases(cases):
    def b(x):
        return 'true' if x else 'false'
    lines = [COQ_HEAD, 'Definition cases : list (nat * dir * list (list event * snap)) := [']
    rows = []
    for idx, (up, oprows) in enumerate(cases):
        ops = listlit(f'({listlit(evs)}, ({s[0]}, {b(s[1])}, {s[2]}, {s[3]}, {b(s[4])}, {b(s[5])}))' for evs, s in oprows)
        rows.append(f' ({idx}, {"Up" if up else "Down"}, {ops})')
    lines.append(';\n'.join(rows))
    lines.append('].')
    lines.append('Definition bad := flat_map (fun c => match first_bad 0 (init (snd (fst c))) (snd c) with '
                 'Some i => [(fst (fst c), i)] | None => [] end) cases.')
    lines.append('Eval vm_compute in bad.')
    return '\n'.join(lines) + '\n'


def model_agrees(cases):
    import re
    shard = 100
    texts = [coq_cases(cases[i:i + shard]) for i in range(0, len(cases), shard)]
    outs = coq_eval_many('c06', texts, timeout=900)
    bad = []
    for k, out in enumerate(outs):
        vals = parse_eval(out)
        if not vals:
            raise BrokenTie('correspondence:C06', f'no output from shard {k}')
        for a, bb in re.findall(r'\((\d+)(?:%nat)?\s*,\s*(\d+)(?:%nat)?\)', vals[0]):
            bad.append((k * shard + int(a), int(bb)))
    return bad


WHAT = {
    K_RQ: 'a management cycle creates a second negotiation task while the first is still in flight; its handle is lost '
          '(slot overwritten / cleared by the other task\'s done-callback); abort/pause/remove cancel only the slot, the other attempt goes on '
          '(PeerTransferQueue sent, remotely_queued set, or the transfer re-queued) after the call returned',
    K_TR: 'a cycle that runs between the end of a task and its done-callback stores the new task in the slot, the callback then clears it '
          '(typical: failed upload attempt re-queues the transfer): the running negotiation is unreachable for abort/pause/remove',
    K_LOCK: 'abort/pause hold the state lock while they await the cancelled task; the transfer is still QUEUED and, once that task is done, '
            'its slot is free: a management cycle in that window (any server message that requests one) starts a new queue-remotely / '
            'initialize task which the call never cancels; it goes on after the call returned',
    K_RMFIN: 'remove() swallows the refused abort of a COMPLETE/FAILED/ABORTED/PAUSED transfer and cancels nothing: a remote-queue attempt '
             'still connecting (the download finished through a transfer the peer initiated) keeps running and sends PeerTransferQueue for the removed file',
    K_RACE: 'connect_mode RACE: cancelling the task awaiting create_peer_connection leaves its direct-/indirect-connect child tasks '
            'running; a connection to the peer is still opened after abort returned',
}


def run(run: Run):
    run.rule = ('scenarios on the real client with the real management job: 1..3 transfers (downloads and/or uploads) over 1..2 '
                'peers whose address reply is held or whose connects are slow / refused / hanging; operations: virtual time steps '
                '(0..31 s), server messages that request a cycle, release of held connects (success or failure), peer refusing the '
                'upload, abort / pause / remove / queue at any point; every scenario ends with an observation window (everything '
                'released, 70 s); distinct = distinct operation list; non-trivial = a stop call was issued while a negotiation '
                'task of the transfer was live')
    run.trusted += ['recorders wrap bound methods of the instances under test from outside (task creation, first segment, send result, '
                    'done-callbacks, manage_transfers); task identity by coroutine object',
                    'abort/pause/remove are atomic events of the model (the awaited cancellation is inside the event); cycles that '
                    'interleave with a running stop call are explored by the harness only',
                    'peer-initiated negotiations (PeerTransferRequest -> initialize-download) are modelled (PeerMsg) but not driven by the harness']
    run.assumptions += ['users of the scenario are not OFFLINE; upload slots are not the limiting factor (limit 10, one upload per user)']
    proved = run.prove(['tr_prio'])
    boost = 1 if proved else 3      # a broken tie triggers the longer directed search

    # stored witnesses first (deterministic KNOWN-FINDING lines)
    stored = {K_RQ: W_RQ, K_TR: W_TR, K_RACE: W_RACE, K_LOCK: W_LOCK, K_RMFIN: W_RMFIN}
    for key, wit, fixed in run.known_witnesses():
        if wit:
            stored[key] = wit
    cases = []
    for key, wit in stored.items():
        try:
            rows, viol, ups = execute(wit['mode'], wit['ops'])
        except Exception as e:
            run.add_broken('correspondence:C06 witness run crashed', f'{key}: {type(e).__name__}: {e}')
            continue
        run.case({'witness': key}, kind='stored-witness')
        for i, r in rows.items():
            cases.append((ups[i], r, wit))
        for k, text in viol:
            run.add_finding(Finding(k, WHAT.get(k, text), wit, observed=text, expected='no activity after the call returned; one task per slot'))

    core = [(n, m, o, None) for n, m, o in core_scenarios()]
    core += [(n + '+suspending-listeners', m, o, {'bus': 'suspend', 'state': 'suspend', 'late': 1}) for n, m, o in core_scenarios()[::4]]
    for name, mode, ops, app in core:
        try:
            rows, viol, ups = execute(mode, ops, app=app)
        except Exception as e:
            run.add_broken('correspondence:C06 core scenario crashed', f'{name}: {type(e).__name__}: {e}')
            continue
        run.case({'core': name}, nontrivial=True, kind='core')
        for ti, r in rows.items():
            cases.append((ups[ti], r, {'mode': mode, 'ops': ops, 'app': app}))
        for k, text in viol:
            run.add_finding(Finding(k, WHAT.get(k, text), {'mode': mode, 'ops': ops, 'app': app}, observed=text,
                                    expected='no activity after the call returned; one task per slot, held by the slot'))

    n = (90 if run.tier == "quick" else 450) * boost
    seen_new = set()
    for i in range(n):
        ops = gen_ops(run.rng)
        mode = run.rng.choice(['race', 'fallback', 'fallback'])
        app = None
        if run.rng.random() < 0.3:
            app = {'bus': run.rng.choice(['suspend', 'raise', None]), 'state': run.rng.choice([None, 'suspend']), 'late': run.rng.randrange(0, 4),
                   'priority': run.rng.choice([1, 100, 1000])}
        try:
            rows, viol, ups = execute(mode, ops, app=app)
        except Exception as e:
            run.add_broken('correspondence:C06 scenario crashed', f'{type(e).__name__}: {e} mode={mode} ops={ops}')
            break
        stops_live = any(o[0] in ('A', 'P', 'X', 'AI') for o in ops)
        run.case({'mode': mode, 'ops': ops, 'app': app}, nontrivial=stops_live and any(s[2] + s[3] > 0 for r in rows.values() for _, s in r),
                 kind=mode)
        run.count('ops', len(ops))
        run.count('stops', sum(1 for o in ops if o[0] in ('A', 'P', 'X')))
        for ti, r in rows.items():
            cases.append((ups[ti], r, {'mode': mode, 'ops': ops, 'app': app}))
        for k, text in viol:
            if k in (K_RQ, K_TR, K_RACE, K_LOCK, K_RMFIN):
                run.add_finding(Finding(k, WHAT[k], {'mode': mode, 'ops': ops, 'app': app}, observed=text))
            elif k not in seen_new:
                seen_new.add(k)
                small = shrink(mode, ops, k, app)
                run.add_finding(Finding(k, text, {'mode': mode, 'ops': small, 'app': app}, observed=text,
                                        expected='no activity after the call returned; one task per slot, held by the slot'))

    try:
        bad = model_agrees([(up, r) for up, r, _ in cases])
        for j, (ci, oi) in enumerate(bad):
            if j == 0:
                up, r, wit = cases[ci]
                run.add_broken('correspondence:C06 model(step cur) vs real transfer tasks',
                               f'first difference at op {oi}: dir={"Up" if up else "Down"} scenario={wit} events={[e for e, _ in r[:oi + 1]]} impl snapshot={r[oi][1]}')
        run.cov['traces_validated_against_impl'] = len(cases) - len({c for c, _ in bad})
    except BrokenTie as e:
        run.add_broken(e.obligation, e.detail)


def shrink(mode, ops, key, app=None):
    def fails(cand):
        try:
            _, viol, _ = execute(mode, cand, app=app)
        except Exception:
            return False
        return any(k == key for k, _ in viol)
    try:
        return shrink_list(ops, fails, max_steps=60)
    except Exception:
        return ops


def replay(rep) -> int:
    w = rep['witness']
    rows, viol, ups = execute(w['mode'], w['ops'], app=w.get('app'))
    print('scenario:', w)
    for i, r in rows.items():
        print(f'transfer {i} ({"upload" if ups[i] else "download"}):')
        for evs, s in r:
            print('   events', evs, '-> (state, remotely_queued, liveRQ, liveTR, slotRQ, slotTR) =', s)
    print('violations:', viol)
    return 1 if viol else 0
