"""C12 — a reply completes exactly the requests it answers; a timeout is a timeout.

L1  coq/theories/C12/Props.v : theorems over every event list of the waiter-list machine (Model.v).
L2  correspondence: scripted stimuli (register / feed frames / advance virtual time / cancel / release a command's
    send) on the real Network + SoulSeekClient.execute inside vlib.world.World.  The order in which the real code
    registers waiters, runs the completion loop of on_message_received, removes done futures (done-callbacks) and
    leaves command.send is OBSERVED (logging list in place of Network._expected_response_futures, wrapper around
    on_message_received); timeouts are placed by the virtual clock.  The observed event list is run through the
    model (vm_compute) and future states, caller outcomes, list membership and "the completion loop raised" are
    compared per waiter / per message.
L3  monitor = the property text evaluated on the observed trace with an independent (all-fields) matcher.
"""
from __future__ import annotations

import asyncio
import logging

from vlib.common import Run, Finding, BrokenTie, coq_eval_many, parse_eval, parse_coq_list, shrink_list

# ---------------------------------------------------------------------------------------------
# vocabulary shared by generator, implementation driver and model printer
# ---------------------------------------------------------------------------------------------
FNAMES = ['username', 'status', 'privileged', 'time_left', 'port', 'upload_slots', 'queue_size', 'filename', 'place',
          'ticket', 'allowed', 'no_such_attribute']
STR_FIELDS = {0, 7}
BOOL_FIELDS = {2, 10}
# message class -> (connection kind, [field ids present on the object])
CLASSES = {
    0: ('S', [0, 1, 2]),      # GetUserStatus.Response
    1: ('S', [0]),            # GetUserStats.Response
    2: ('S', [3]),            # CheckPrivileges.Response
    3: ('S', [0, 4]),         # GetPeerAddress.Response
    4: ('P', [5, 6]),         # PeerUserInfoReply.Request
    5: ('P', [7, 8]),         # PeerPlaceInQueueReply.Request
    6: ('P', [9, 10]),        # PeerTransferReply.Request
}
PEER_NAMES = {0: 1, 1: 2, 2: 1}     # peer connection index -> user number (connections 0 and 2 belong to the same user)

F02A = 'F02a-set-result-on-done-waiter-aborts-delivery'
F02B = 'F02b-wait-for-message-timeout-raises-invalidstate'
F02C = 'F02c-callable-matcher-skips-later-fields'


def msg_classes():
    from aioslsk.protocol import messages as M
    return {0: M.GetUserStatus.Response, 1: M.GetUserStats.Response, 2: M.CheckPrivileges.Response,
            3: M.GetPeerAddress.Response, 4: M.PeerUserInfoReply.Request, 5: M.PeerPlaceInQueueReply.Request,
            6: M.PeerTransferReply.Request}


def py_value(fid, v):
    if v is None:
        return None
    if fid in STR_FIELDS:
        return f'u{v}'
    if fid in BOOL_FIELDS:
        return bool(v)
    return v


def build_message(cls, vals):
    from aioslsk.protocol import messages as M
    from aioslsk.protocol.primitives import UserStats
    g = lambda f, d=0: vals.get(str(f), vals.get(f, d))
    if cls == 0:
        return M.GetUserStatus.Response(py_value(0, g(0)), g(1), bool(g(2)))
    if cls == 1:
        return M.GetUserStats.Response(py_value(0, g(0)), UserStats(1, 2, 3, 4))
    if cls == 2:
        return M.CheckPrivileges.Response(g(3))
    if cls == 3:
        return M.GetPeerAddress.Response(py_value(0, g(0)), '1.2.3.4', g(4), 0, 0)
    if cls == 4:
        return M.PeerUserInfoReply.Request('d', False, None, g(5), g(6), True)
    if cls == 5:
        return M.PeerPlaceInQueueReply.Request(py_value(7, g(7)), g(8))
    if cls == 6:
        return M.PeerTransferReply.Request(g(9), bool(g(10)), filesize=1 if g(10) else None, reason=None if g(10) else 'x')
    raise ValueError(cls)


def py_fields(fields):
    """[[fid, ['eq', v] | ['ge', z] | ['lt', z]], ...] -> dict in the same order (dict order = iteration order)."""
    d = {}
    for fid, (op, v) in fields:
        name = FNAMES[fid]
        if op == 'eq':
            d[name] = py_value(fid, v)
        elif op == 'ge':
            d[name] = (lambda z: (lambda x: x >= z))(v)
        elif op == 'lt':
            d[name] = (lambda z: (lambda x: x < z))(v)
        else:
            raise ValueError(op)
    return d


def spec_matches(w, m):
    """The property text: expected type, expected server/peer, EVERY expected field value."""
    mconn = 'S' if m['conn'] == 'S' else 'P'
    if w['conn'] != mconn or w['cls'] != m['cls']:
        return False
    if w['peer'] is not None and mconn == 'P' and PEER_NAMES[m['conn']] != w['peer']:
        return False
    present = CLASSES[m['cls']][1]
    for fid, (op, v) in w['fields']:
        have = fid in present
        val = m['vals'].get(str(fid), m['vals'].get(fid, 0)) if have else None
        if op == 'eq':
            if val != v:
                return False
        elif not have:
            return False
        elif op == 'ge':
            if not val >= v:
                return False
        elif op == 'lt':
            if not val < v:
                return False
    return True


def callable_then_more(w):
    fs = w['fields']
    return any(op != 'eq' and i < len(fs) - 1 for i, (_, (op, _v)) in enumerate(fs))


class SendFailure(Exception):
    pass


# ---------------------------------------------------------------------------------------------
# implementation driver
# ---------------------------------------------------------------------------------------------
class _LogList(list):
    """Stands in for Network._expected_response_futures: same behaviour, but append / remove / iteration are logged."""

    def __init__(self, drv):
        super().__init__()
        self.drv = drv

    def append(self, fut):
        super().append(fut)
        self.drv.on_append(fut)

    def remove(self, fut):
        super().remove(fut)
        self.drv.on_remove(fut)

    def insert(self, pos, fut):          # not used by the current code; kept observable for changed code
        super().insert(pos, fut)
        self.drv.on_append(fut)

    def extend(self, futs):
        for f in futs:
            self.append(f)

    def __iter__(self):
        self.drv.on_iterate()
        return super().__iter__()


class Driver:
    def __init__(self, npeers=3):
        from vlib.world import World
        from aioslsk.protocol.messages import AddUser, PeerInit
        from aioslsk.protocol.primitives import UserStats
        self.w = World()
        w = self.w
        w.start()
        w.login()
        w.server_send(AddUser.Response('me', True, 2, UserStats(1, 2, 3, 4), 'BE'))   # settle the self-tracking worker
        w.settle(10)
        w.server_received(clear=True)
        self.net = w.client.network
        self.loop = w.loop
        # the login sequence itself uses the waiter list (AddUser reply of the self-tracking worker): it must be empty again
        self.setup_residue = [(type(f).__name__, getattr(f.message_class, '__qualname__', '?'), 'done' if f.done() else 'pending')
                              for f in self.net._expected_response_futures]
        self.peers = []
        for k in range(npeers):
            ep = w.net.incoming(60000, peername=('10.0.0.%d' % (20 + k), 41000 + k))
            ep.feed(PeerInit.Request(f'u{PEER_NAMES[k]}', 'P', 0).serialize())
            self.peers.append(ep)
        w.settle(6)
        names = sorted(c.username for c in self.net.peer_connections)
        if names != sorted(f'u{PEER_NAMES[k]}' for k in range(npeers)):
            raise BrokenTie('correspondence:C12 setup', f'peer connections not established: {names}')
        # --- observation points
        self.events = []        # model events (tuples)
        self.raised = []        # parallel to events
        self.futs = []          # registration order
        self.fut_waiter = {}    # id(fut) -> harness waiter number
        self.waiters = []       # harness waiters: dict(spec, task, fut, arm, deadline, timeout_emitted)
        self.msg_of_task = {}
        self.msg_index = {}     # id(message object) -> delivery index
        self.keep = []
        self.deliveries = []    # script message dicts in delivery order
        self.pending_msgs = {}  # connection key -> queue of script message dicts fed
        self.errlog = 0
        self.cur_waiter = None
        lst = _LogList(self)
        self.net._expected_response_futures = lst
        orig = self.net.on_message_received
        drv = self

        async def on_message_received(message, connection):
            key = 'S' if connection is drv.net.server_connection else drv._peer_key(connection)
            q = drv.pending_msgs.get(key) or []
            sm = q.pop(0) if q else None
            drv.msg_of_task[asyncio.current_task()] = (message, sm)
            arr = {'conn': str(key), 'order': len(drv.arrivals), 'at': len(drv.events), 'msg': None}
            drv.arrivals.append(arr)
            drv.arrival_of[id(message)] = arr
            drv.delay_of[id(message)] = sm or {}
            drv.keep.append(message)
            try:
                await orig(message, connection)
                if arr['msg'] is None:
                    # the completion step returned without looking at the waiter list: for the waiters this message was
                    # handled here, completing nobody
                    drv.on_iterate()
            except Exception:
                if arr['msg'] is None:
                    drv.on_iterate()        # the handlers / listeners raised before the completion step: nobody was completed
                    drv.pre_loop_raise.append(arr['msg'])
                # attribute the raise to the Message event of this message (it is the last Message logged by this task)
                for k in range(len(drv.events) - 1, -1, -1):
                    if drv.events[k][0] == 'Message' and drv.events[k][2] is message:
                        drv.raised[k] = True
                        break
                raise
        self.net.on_message_received = on_message_received
        self.arrivals = []
        self.pre_loop_raise = []
        self.arrival_of = {}
        self.delay_of = {}

        # an application listener for MessageReceivedEvent that really suspends (it runs before the completion step)
        from aioslsk.events import MessageReceivedEvent

        async def slow_listener(event):
            plan = drv.delay_of.get(id(event.message)) or {}
            for _ in range(plan.get('delay', 0) + drv.extra_delay):
                await asyncio.sleep(0)
            if plan.get('reenter'):            # a listener that issues a new request while the message is being handled
                drv.register(plan['reenter'])
            if plan.get('raise'):              # a listener that fails: EventBus.emit logs it and goes on
                raise RuntimeError('listener failed')
        self.extra_delay = 0
        self._slow_listener = slow_listener          # the event bus keeps weak references only
        w.client.events.register(MessageReceivedEvent, self._slow_listener)

        class H(logging.Handler):
            def emit(self, rec):
                try:
                    if 'error during callback' in rec.getMessage():
                        drv.errlog += 1
                except Exception:
                    pass
        self.handler = H()
        self.logger = logging.getLogger('aioslsk')
        self.saved_log = (self.logger.propagate, self.logger.level, logging.root.manager.disable)
        self.logger.propagate = False
        self.logger.setLevel(logging.WARNING)
        self.logger.addHandler(self.handler)
        logging.disable(logging.NOTSET)

    def _peer_key(self, connection):
        for k, ep in enumerate(self.peers):
            if connection._writer is ep.writer:
                return k
        return None

    # --- observation callbacks
    def on_append(self, fut):
        i = len(self.futs)
        self.futs.append(fut)
        wn = self.cur_waiter
        if wn is None:
            t = asyncio.current_task()
            for n, hw in enumerate(self.waiters):
                if hw.get('task') is t and hw.get('index') is None:
                    wn = n
        if wn is None:
            raise BrokenTie('correspondence:C12', 'a waiter was registered that the harness did not create')
        hw = self.waiters[wn]
        hw['index'] = i
        hw['fut'] = fut
        self.fut_waiter[id(fut)] = wn
        sp = hw['spec']
        kind = {'raw_s': 'KRaw', 'raw_p': 'KRaw', 'reg': 'KRaw', 'wait_s': 'KWait', 'wait_p': 'KWait', 'exec': 'KExec'}[sp['kind']]
        self._ev(('Register', kind, sp))
        if kind == 'KWait':
            hw['deadline'] = self.loop.time() + sp['timeout']

    def on_remove(self, fut):
        self._ev(('DoneCb', self.waiters[self.fut_waiter[id(fut)]]['index']))

    def on_iterate(self):
        message, sm = self.msg_of_task.get(asyncio.current_task(), (None, None))
        if message is None:
            raise BrokenTie('correspondence:C12', 'waiter list iterated outside on_message_received')
        idx = len(self.deliveries)
        self.deliveries.append(sm)
        self.msg_index[id(message)] = idx
        if id(message) in self.arrival_of:
            self.arrival_of[id(message)]['msg'] = idx
        self.keep.append(message)
        self._ev(('Message', idx, message, sm))

    def _ev(self, e):
        self.events.append(e)
        self.raised.append(False)

    # --- stimuli
    def register(self, spec):
        from aioslsk.network.network import ExpectedResponse
        from aioslsk.network.connection import PeerConnection, ServerConnection, DataConnection
        from aioslsk.commands import BaseCommand
        MC = msg_classes()
        wn = len(self.waiters)
        hw = {'spec': spec, 'index': None, 'task': None, 'fut': None, 'deadline': None, 'tmo_emitted': False}
        self.waiters.append(hw)
        k = spec['kind']
        fields = py_fields(spec['fields'])
        cls = MC[spec['cls']]
        peer = None if spec['peer'] is None else f"u{spec['peer']}"
        cc = {'S': ServerConnection, 'P': PeerConnection, 'O': DataConnection}[spec['conn']]
        net = self.net
        if k in ('raw_s', 'raw_p', 'reg'):
            self.cur_waiter = wn
            try:
                if k == 'raw_s':
                    net.create_server_response_future(cls, fields)
                elif k == 'raw_p':
                    net.create_peer_response_future(peer, cls, fields)
                else:
                    net.register_response_future(ExpectedResponse(cc, cls, peer=peer, fields=fields))
            finally:
                self.cur_waiter = None
            return
        if k == 'wait_s':
            coro = net.wait_for_server_message(cls, fields, timeout=spec['timeout'])
        elif k == 'wait_p':
            coro = net.wait_for_peer_message(peer, cls, fields, timeout=spec['timeout'])
        else:
            drv = self
            go = self.loop.create_future()
            hw['go'] = go

            hold = self.loop.create_future() if spec.get('hold') else None
            hw['hold'] = hold

            class Cmd(BaseCommand):
                async def send(self, client):
                    hw['issued_at'] = len(drv.events)          # execute() has been entered: the request is issued
                    ok = await go
                    if not ok:
                        hw['send_failed'] = True
                        if hw['index'] is not None:
                            drv._ev(('SendFail', hw['index']))
                        raise SendFailure()
                    from aioslsk.protocol.messages import GetUserStatus
                    await client.network.send_server_messages(GetUserStatus.Request('u0'))
                    hw['sent_at'] = len(drv.events)            # the request frame is on the wire
                    if hold is not None:
                        await hold                              # a slow send: command.send() has not returned to execute() yet
                    if hw['index'] is not None:
                        drv._ev(('SendOk', hw['index']))
                    else:
                        hw['late_registration'] = True          # the waiter does not exist yet although the request is out
                    hw['deadline'] = drv.loop.time() + spec['timeout']

                def build_expected_response(self, client):
                    return ExpectedResponse(cc, cls, peer=peer, fields=fields)

                def handle_response(self, client, response):
                    return response
            coro = self.w.client.execute(Cmd(), response=True, timeout=spec['timeout'])
        hw['task'] = self.loop.create_task(coro)

    def feed(self, msgs, soon=False):
        by_conn = {}
        order = []
        for m in msgs:
            key = m['conn']
            if key not in by_conn:
                by_conn[key] = (bytearray(), [])
                order.append(key)
            by_conn[key][0].extend(build_message(m['cls'], m['vals']).serialize())
            by_conn[key][1].append(m)
        for key in order:
            data, ms = by_conn[key]
            if soon:
                self.loop.call_soon(self._do_feed, key, bytes(data), ms)
            else:
                self._do_feed(key, bytes(data), ms)

    def _do_feed(self, key, data, ms):
        ep = self.w.server if key == 'S' else self.peers[key]
        self.pending_msgs.setdefault(key, []).extend(ms)
        ep.feed(data)

    def step(self):
        self.loop.run_ready(1)
        # timers run after every handle that was ready; those of finished tasks were cancelled (the model ignores them)
        now = self.loop.time() + self.loop._clock_resolution
        due = [hw for hw in self.waiters if hw['deadline'] is not None and not hw['tmo_emitted'] and hw['deadline'] < now]
        for hw in sorted(due, key=lambda h: h['deadline']):
            hw['tmo_emitted'] = True
            self._ev(('Timeout', hw['index']))

    def cancel(self, wn):
        if wn >= len(self.waiters):
            return
        hw = self.waiters[wn]
        if hw['index'] is None and hw['task'] is not None:
            return    # task not started yet: not a waiter so far
        if hw['task'] is not None:
            hw['task'].cancel()
        else:
            hw['fut'].cancel()
        self._ev(('Cancel', hw['index']))

    def go(self, wn, ok):
        if wn < len(self.waiters) and self.waiters[wn].get('go') is not None and not self.waiters[wn]['go'].done():
            self.waiters[wn]['go'].set_result(ok)

    def release(self, wn):
        if wn < len(self.waiters) and self.waiters[wn].get('hold') is not None and not self.waiters[wn]['hold'].done():
            self.waiters[wn]['hold'].set_result(None)

    # --- results
    def result(self):
        from asyncio import InvalidStateError, CancelledError
        out = []
        for hw in self.waiters:
            if hw['index'] is None:
                continue
            fut = hw['fut']
            if not fut.done():
                fc = (0, 0)
            elif fut.cancelled():
                fc = (3, 0)
            elif fut.exception() is not None:
                fc = (2, 0)
            else:
                fc = (1, self.msg_index.get(id(fut.result()[1]), 999))
            t = hw['task']
            if t is None or not t.done():
                oc = (0, 0)
            elif t.cancelled():
                oc = (3, 0)
            else:
                e = t.exception()
                if e is None:
                    oc = (1, self.msg_index.get(id(t.result()), 999))
                elif isinstance(e, InvalidStateError):
                    oc = (4, 0)
                elif isinstance(e, TimeoutError):
                    oc = (2, 0)
                elif isinstance(e, SendFailure):
                    oc = (5, 0)
                else:
                    oc = (6, 0)
                    hw['other_exc'] = repr(e)
            out.append({'index': hw['index'], 'fut': fc, 'out': oc, 'inlist': any(f is fut for f in list.__iter__(self.net._expected_response_futures)),
                        'spec': hw['spec']})
        out.sort(key=lambda d: d['index'])
        return out

    def close(self):
        try:
            for hw in self.waiters:
                if hw['task'] is not None and not hw['task'].done():
                    hw['task'].cancel()
                if hw.get('go') is not None and not hw['go'].done():
                    hw['go'].cancel()
                if hw.get('hold') is not None and not hw['hold'].done():
                    hw['hold'].cancel()
            self.loop.run_ready(3)
            for hw in self.waiters:      # retrieve exceptions so that nothing is reported at GC time
                t = hw['task']
                if t is not None and t.done() and not t.cancelled():
                    t.exception()
        finally:
            self.logger.removeHandler(self.handler)
            self.logger.propagate, lvl, dis = self.saved_log
            self.logger.setLevel(lvl)
            logging.disable(dis)
            try:
                self.w.loop.run_coro(self.w.client.stop(), timeout_virtual=30.0, max_iters=20000)     # bounded
                self.w.close()
            except Exception:
                self.w.close()


def run_script(script):
    """script: {'ops': [...]}.  Returns the observed trace."""
    d = Driver()
    try:
        for op in script['ops']:
            k = op[0]
            if k == 'reg':
                d.register(op[1])
            elif k == 'feed':
                d.feed(op[1])
            elif k == 'feed_soon':
                d.feed(op[1], soon=True)
            elif k == 'adv':
                d.loop.advance(op[1])
            elif k == 'adv_to':      # advance to the deadline of harness waiter op[1] (if it is armed)
                hw = d.waiters[op[1]] if op[1] < len(d.waiters) else None
                if hw and hw['deadline'] is not None and hw['deadline'] > d.loop.time():
                    d.loop.advance(hw['deadline'] - d.loop.time())
            elif k == 'step':
                for _ in range(op[1] if len(op) > 1 else 1):
                    d.step()
            elif k == 'cancel':
                d.cancel(op[1])
            elif k == 'release':
                d.release(op[1])
            elif k == 'late_listener':          # a second suspending listener registered while requests are pending
                from aioslsk.events import MessageReceivedEvent

                async def late(event, n=op[1]):
                    for _ in range(n):
                        await asyncio.sleep(0)
                d._late = getattr(d, '_late', []) + [late]
                d.w.client.events.register(MessageReceivedEvent, late, priority=op[2] if len(op) > 2 else 100)
            elif k == 'go':
                d.go(op[1], op[2])
            else:
                raise ValueError(op)
        for k_ in range(80):               # quiescence: at least four iterations, then until nothing is ready any more
            d.step()
            if k_ >= 3 and not d.loop._ready:
                break
        res = d.result()
        events = []
        for e in d.events:
            if e[0] == 'Message':
                events.append(['Message', e[1], e[3]])
            elif e[0] == 'Register':
                events.append(['Register', e[1], e[2]])
            else:
                events.append(list(e))
        return {'events': events, 'raised': list(d.raised), 'waiters': res,
                'list_len': len(d.net._expected_response_futures), 'errlog': d.errlog,
                'unhandled': [str(c.get('message')) + ':' + repr(c.get('exception')) for c in d.loop.unhandled],
                'unmatched_feeds': {str(k): len(v) for k, v in d.pending_msgs.items() if v},
                'arrivals': [dict(a) for a in d.arrivals], 'pre_loop_raise': list(d.pre_loop_raise),
                'execs': [{'wn': n, 'index': hw['index'], 'spec': hw['spec'], 'issued_at': hw.get('issued_at'), 'sent_at': hw.get('sent_at'),
                           'send_failed': bool(hw.get('send_failed')), 'late_registration': bool(hw.get('late_registration')),
                           'task_done': hw['task'].done(),
                           'task_out': (None if not hw['task'].done() else 'cancelled' if hw['task'].cancelled() else
                                        type(hw['task'].exception()).__name__ if hw['task'].exception() is not None else 'result')}
                          for n, hw in enumerate(d.waiters) if hw['spec']['kind'] == 'exec' and hw['task'] is not None],
                'setup_residue': d.setup_residue}
    finally:
        d.close()


# ---------------------------------------------------------------------------------------------
# monitor: the property text on an observed trace
# ---------------------------------------------------------------------------------------------
def monitor(tr):
    """Returns a list of (key, what, detail)."""
    v = []
    ev = tr['events']
    W = {w['index']: w for w in tr['waiters']}
    specs = {}
    reg_at = {}
    n = 0
    for k, e in enumerate(ev):
        if e[0] == 'Register':
            specs[n] = e[2]
            reg_at[n] = k
            n += 1
    msgs = {e[1]: (k, e[2]) for k, e in enumerate(ev) if e[0] == 'Message'}
    # replay of future states as far as the property text determines them
    state = {}           # index -> 'P' | ('R', msgid) | 'C'
    inlist = {}
    armed_tmo = set()
    due_pending = set()      # the timeout given by the caller expired (virtual clock) while the request was pending
    ext_cancel = set()
    raise_at = [k for k, r in enumerate(tr['raised']) if r]
    for k, e in enumerate(ev):
        if e[0] == 'Register':
            i = len(state)
            state[i] = 'P'
            inlist[i] = True
        elif e[0] == 'Message':
            mid, sm = e[1], e[2]
            should = [i for i in state if state[i] == 'P' and inlist[i] and spec_matches(specs[i], sm)]
            got = [i for i in state if W[i]['fut'] == (1, mid)]
            for i in got:
                if not spec_matches(specs[i], sm):
                    key = F02C if callable_then_more(specs[i]) else 'completed-by-non-matching-message'
                    v.append((key, f'waiter {i} was completed by message {mid} which does not carry all expected field values',
                              {'waiter': i, 'message': mid}))
                if state[i] != 'P':
                    v.append(('completed-after-done', f'waiter {i} completed by message {mid} after it was already done', {'waiter': i}))
            missed = [i for i in should if W[i]['fut'] != (1, mid)]
            if tr['raised'][k] and mid in tr.get('pre_loop_raise', []):
                if missed:
                    v.append(('completion-step-skipped-by-exception', f'message {mid}: a handler / listener exception ended on_message_received before '
                              f'the completion step; pending matching waiter(s) {missed} not completed', {'message': mid, 'missed': missed}))
            elif missed:
                if tr['raised'][k]:
                    v.append((F02A, f'message {mid}: InvalidStateError in the completion loop; pending matching waiter(s) {missed} not completed',
                              {'message': mid, 'missed': missed}))
                else:
                    # a waiter may legitimately be completed by this message through the *implementation* matcher only
                    v.append(('pending-matching-waiter-not-completed', f'message {mid} did not complete pending matching waiter(s) {missed}',
                              {'message': mid, 'missed': missed}))
            elif tr['raised'][k]:
                v.append((F02A, f'message {mid}: InvalidStateError in the completion loop (a done waiter still listed was completed again)',
                          {'message': mid, 'missed': []}))
            for i in got:
                state[i] = ('R', mid)
        elif e[0] in ('Timeout', 'Cancel', 'SendFail'):
            i = e[1]
            if e[0] == 'Timeout':
                armed_tmo.add(i)
                if state[i] == 'P' and i not in ext_cancel:
                    due_pending.add(i)
            elif e[0] == 'Cancel':
                ext_cancel.add(i)
            if state[i] == 'P' and W[i]['fut'] == (3, 0):
                state[i] = 'C'      # the first timeout / cancel / send failure of a waiter that ends cancelled
        elif e[0] == 'DoneCb':
            inlist[e[1]] = False
    for i, w in W.items():
        kind = specs[i]['kind']
        if w['out'] == (4, 0):
            key = F02B if kind in ('wait_s', 'wait_p') and i in armed_tmo else 'internal-state-error'
            v.append((key, f'waiter {i} ({kind}): the caller got InvalidStateError' + (' where a timeout error is due' if i in armed_tmo else ''),
                      {'waiter': i}))
        if w['out'] == (6, 0):
            v.append(('unexpected-exception', f'waiter {i} ({kind}) raised an unexpected exception', {'waiter': i}))
        if w['out'][0] == 1 and w['fut'] != w['out']:
            v.append(('result-mismatch', f'waiter {i}: caller result differs from the future result', {'waiter': i}))
        # quiescence: only pending entries are listed
        if w['inlist'] and w['fut'] != (0, 0):
            v.append(('residue', f'waiter {i} is done but still listed at quiescence', {'waiter': i}))
        if not w['inlist'] and w['fut'] == (0, 0):
            v.append(('pending-waiter-unlisted', f'waiter {i} is pending but not listed', {'waiter': i}))
        # first match: the completing message is the first matching message while the waiter was pending
        if w['fut'][0] == 1:
            mid = w['fut'][1]
            if mid in msgs:
                for k in range(reg_at[i] + 1, msgs[mid][0]):
                    e = ev[k]
                    if e[0] == 'Message' and spec_matches(specs[i], e[2]) and not tr['raised'][k]:
                        v.append(('not-first-match', f'waiter {i} completed by message {mid} although message {e[1]} matched earlier', {'waiter': i}))
                        break
        # ... also in ARRIVAL order on one connection: no matching message that arrived earlier on the same connection
        # (after the registration) may be overtaken by the completing one while its handlers / listeners are suspended
        if w['fut'][0] == 1:
            mid = w['fut'][1]
            arr = {a['msg']: a for a in tr.get('arrivals', []) if a['msg'] is not None}
            if mid in arr:
                for a in tr.get('arrivals', []):
                    if (a['msg'] is not None and a['conn'] == arr[mid]['conn'] and a['order'] < arr[mid]['order'] and a['at'] > reg_at[i]
                            and a['msg'] in msgs and spec_matches(specs[i], msgs[a['msg']][1])):
                        v.append(('overtaken-by-later-message', f'waiter {i} completed by message {mid} although message {a["msg"]}, which '
                                  f'also matches, arrived earlier on the same connection (its handlers were still running)', {'waiter': i}))
                        break
        # the timeout the caller asked for: at that instant a pending request ends (it is not completed or left pending later)
        if i in due_pending and w['fut'] != (3, 0):
            v.append(('timeout-not-at-deadline', f'waiter {i} ({kind}): still pending when its timeout of {specs[i]["timeout"]} s had expired '
                      f'(future afterwards: {w["fut"]}, caller: {w["out"]})', {'waiter': i}))
        # timeout is a timeout: timer fired while pending with no other cancel -> TimeoutError
        if i in armed_tmo and i not in ext_cancel and w['fut'] == (3, 0) and w['out'] not in ((2, 0), (4, 0)):
            v.append(('timeout-not-reported', f'waiter {i} timed out but the caller got {w["out"]}', {'waiter': i}))
    # a command executed with a response: the first matching message handled after the request went out completes it
    # (also while command.send() has not yet returned to execute()); a failed send leaves nothing listed
    for x in tr.get('execs', []):
        sp = x['spec']
        i = x['index']
        if x['send_failed']:
            if i is not None and W[i]['inlist']:
                v.append(('residue-after-send-failure', f'execute waiter {i}: command.send failed but its future is still listed', {'waiter': i}))
            continue
        if x['sent_at'] is None:
            continue
        def first_from(pos):
            for k in range(pos, len(ev)):
                e = ev[k]
                if e[0] in ('Timeout', 'Cancel') and i is not None and e[1] == i:
                    return None
                if e[0] == 'Message' and spec_matches(sp, e[2]):
                    return (k, e[1])
            return None
        first = first_from(x['sent_at'])
        if first is None:
            continue
        # a request is pending from the moment execute() is entered: a matching message handled between that moment and the
        # write of the request frame may legitimately have completed it already
        early = first_from(x['issued_at']) if x['issued_at'] is not None else None
        cancelled_early = any(e[0] == 'Cancel' and i is not None and e[1] == i for e in ev[:first[0]])
        if cancelled_early or (i is None and x['task_out'] == 'cancelled'):
            continue
        got = None if i is None else W[i]['fut']
        if got != (1, first[1]) and not (early is not None and got == (1, early[1])):
            v.append(('reply-after-request-not-delivered',
                      f'execute (harness waiter {x["wn"]}): message {first[1]} matches and was handled after the request had been sent, '
                      f'but the request was not completed by it (future: {got}, caller: {x["task_out"]}'
                      + (', the waiter was not registered yet' if x['late_registration'] or i is None else '') + ')',
                      {'waiter': x['wn'], 'message': first[1]}))
    if tr['errlog'] != sum(1 for r in tr['raised'] if r):
        v.append(('error-log-mismatch', f"'error during callback' logged {tr['errlog']} times, {sum(tr['raised'])} raises observed", {}))
    if any(r[2] == 'done' for r in tr.get('setup_residue', [])):
        v.append(('residue', f"done waiters still listed after the login sequence settled: {tr['setup_residue']}", {}))
    if tr['unhandled']:
        v.append(('unhandled-loop-error', f'event loop exception handler called: {tr["unhandled"][:2]}', {}))
    if tr['unmatched_feeds']:
        v.append(('message-not-delivered', f'fed frames were not processed: {tr["unmatched_feeds"]}', {}))
    return v


# ---------------------------------------------------------------------------------------------
# model printer
# ---------------------------------------------------------------------------------------------
def _opt(v, f=str):
    return 'None' if v is None else f'(Some {f(v)})'


def _z(v):
    return f'({v})%Z' if v < 0 else f'{v}%Z'


def coq_matcher(sp):
    conn = {'S': 'CServer', 'P': 'CPeer', 'O': 'COther'}[sp['conn']]
    fs = []
    for fid, (op, v) in sp['fields']:
        if op == 'eq':
            fs.append(f'({fid}, FEq {_opt(v, _z)})')
        else:
            fs.append(f'({fid}, FPred ({"PGe" if op == "ge" else "PLt"} {_z(v)}))')
    return f'(mkM {conn} {sp["cls"]} {_opt(sp["peer"])} [{"; ".join(fs)}])'


def coq_msg(mid, sm):
    conn = 'CServer' if sm['conn'] == 'S' else 'CPeer'
    user = None if sm['conn'] == 'S' else PEER_NAMES[sm['conn']]
    fs = [f'({fid}, {_z(sm["vals"].get(str(fid), sm["vals"].get(fid, 0)))})' for fid in CLASSES[sm['cls']][1]]
    return f'(mkG {conn} {_opt(user)} {sm["cls"]} [{"; ".join(fs)}] {mid})'


def coq_event(e):
    if e[0] == 'Register':
        return f'Register {e[1]} {coq_matcher(e[2])}'
    if e[0] == 'Message':
        return f'Message {coq_msg(e[1], e[2])}'
    return f'{e[0]} {e[1]}'


def coq_cases(traces):
    L = ['From Coq Require Import ZArith List Bool Arith.', 'From Slsk Require Import C12.Model.', 'Import ListNotations.',
         'Open Scope nat_scope.',
         'Definition eqp (a b : nat * nat) := Nat.eqb (fst a) (fst b) && Nat.eqb (snd a) (snd b).',
         'Definition eqo (a b : (nat*nat)*(nat*nat)*bool) := eqp (fst (fst a)) (fst (fst b)) && eqp (snd (fst a)) (snd (fst b)) && Bool.eqb (snd a) (snd b).',
         'Fixpoint eql {A} (f : A -> A -> bool) (a b : list A) := match a, b with [], [] => true | x :: a, y :: b => f x y && eql f a b | _, _ => false end.',
         'Definition agree (c : list event * (list ((nat*nat)*(nat*nat)*bool) * list bool)) :=',
         '  let o := observe (fst c) in eql eqo (fst o) (fst (snd c)) && eql Bool.eqb (snd o) (snd (snd c)).',
         'Definition cases : list (nat * (list event * (list ((nat*nat)*(nat*nat)*bool) * list bool))) := [']
    rows = []
    for idx, tr in enumerate(traces):
        evs = '[' + '; '.join(coq_event(e) for e in tr['events']) + ']'
        obs = '[' + '; '.join(f'(({w["fut"][0]},{w["fut"][1]}),({w["out"][0]},{w["out"][1]}),{"true" if w["inlist"] else "false"})'
                              for w in tr['waiters']) + ']'
        rs = '[' + '; '.join('true' if r else 'false' for r in tr['raised']) + ']'
        rows.append(f' ({idx}, ({evs}, ({obs}, {rs})))')
    L.append(';\n'.join(rows))
    L.append('].')
    L.append('Definition bad := map fst (filter (fun c => negb (agree (snd c))) cases).')
    L.append('Eval vm_compute in bad.')
    return '\n'.join(L) + '\n'


# ---------------------------------------------------------------------------------------------
# generator
# ---------------------------------------------------------------------------------------------
def gen_waiter(rng):
    kind = rng.choice(['raw_s', 'raw_p', 'reg', 'wait_s', 'wait_s', 'wait_p', 'exec', 'exec'])
    server = kind in ('raw_s', 'wait_s') or (kind in ('reg', 'exec') and rng.random() < 0.6)
    if kind in ('reg', 'exec'):
        conn = 'S' if server else rng.choice(['P', 'P', 'P', 'O'])
    else:
        conn = 'S' if server else 'P'
    cls = rng.choice([0, 0, 0, 1, 2, 3]) if (conn == 'S' or (conn == 'O' and rng.random() < 0.5)) else rng.choice([4, 5, 6, 4])
    if kind in ('reg', 'exec') and rng.random() < 0.08:
        cls = rng.choice(list(CLASSES))          # class of the other family: never matches
    peer = None
    if kind in ('raw_p', 'wait_p'):
        peer = rng.choice([1, 1, 2, 3])
    elif kind in ('reg', 'exec') and rng.random() < 0.6:
        peer = rng.choice([1, 1, 2, 3])          # also on server waiters: ignored there
    present = CLASSES[cls][1]
    fields = []
    nf = rng.choice([0, 1, 1, 1, 2, 2, 3])
    used = set()
    for _ in range(nf):
        fid = rng.choice(present + present + [11] + [f for f in range(11)])
        if fid in used:
            continue
        used.add(fid)
        r = rng.random()
        if fid in STR_FIELDS or fid in BOOL_FIELDS or fid == 11 or r < 0.6:
            if r < 0.1:
                fields.append([fid, ['eq', None]])
            else:
                fields.append([fid, ['eq', rng.choice([0, 1, 1] if fid in BOOL_FIELDS else [0, 1, 1, 2])]])
        else:
            fields.append([fid, [rng.choice(['ge', 'lt']), rng.choice([0, 1, 2, 3])]])
    timeout = rng.choice([1, 2, 3, 5]) + rng.choice([0, 1, 2, 3]) / 16.0
    sp = {'kind': kind, 'conn': conn, 'cls': cls, 'peer': peer, 'fields': fields, 'timeout': timeout}
    if kind == 'exec' and rng.random() < 0.35:
        sp['hold'] = True
    return sp


def gen_message_for(rng, sp):
    """A message that matches waiter spec sp (when possible) or misses it narrowly."""
    cls = sp['cls'] if rng.random() < 0.9 else rng.choice(list(CLASSES))
    fam = CLASSES[cls][0]
    if fam == 'S':
        conn = 'S'
    else:
        want = sp['peer']
        cands = [k for k, u in PEER_NAMES.items() if u == want] or [0, 1, 2]
        conn = rng.choice(cands) if rng.random() < 0.85 else rng.choice([0, 1, 2])
    vals = {}
    exp = {fid: ov for fid, ov in sp['fields']}
    for fid in CLASSES[cls][1]:
        hi = 1 if fid in BOOL_FIELDS else 3
        v = rng.randrange(0, hi + 1)
        if fid in exp and rng.random() < 0.85:
            op, x = exp[fid]
            if op == 'eq' and x is not None:
                v = x
            elif op == 'ge':
                v = x + rng.choice([0, 1])
            elif op == 'lt':
                v = max(0, x - 1)
        if fid in BOOL_FIELDS:
            v = min(v, 1)
        vals[str(fid)] = v
    return {'conn': conn, 'cls': cls, 'vals': vals}


def gen_script(rng):
    nw = rng.choice([1, 2, 2, 3, 3, 4])
    specs = [gen_waiter(rng)]
    for _ in range(nw - 1):
        if rng.random() < 0.55:
            b = dict(rng.choice(specs))          # same matcher, maybe another kind: two waiters for one message
            if rng.random() < 0.6:
                k = (rng.choice(['raw_s', 'wait_s', 'exec', 'reg']) if b['conn'] == 'S' else
                     rng.choice(['raw_p', 'wait_p', 'exec', 'reg']) if b['conn'] == 'P' else rng.choice(['exec', 'reg']))
                if k in ('raw_p', 'wait_p') and b['peer'] is None:
                    b['peer'] = 1
                if k in ('raw_s', 'wait_s'):
                    b['peer'] = None
                b['kind'] = k
            b['timeout'] = rng.choice([1, 2, 3, 5]) + rng.choice([0, 1, 2, 3]) / 16.0
            b['fields'] = [list(f) for f in b['fields']]
            specs.append(b)
        else:
            specs.append(gen_waiter(rng))
    ops = []
    registered = 0
    n_ops = rng.randrange(4, 14)
    for _ in range(n_ops):
        r = rng.random()
        if registered < nw and (r < 0.35 or registered == 0):
            ops.append(['reg', specs[registered]])
            if specs[registered]['kind'] == 'exec' and rng.random() < 0.7:
                ops.append(['step', 1])
                ops.append(['go', registered, rng.random() < 0.85])
            registered += 1
        elif r < 0.6:
            batch = []
            for _ in range(rng.choice([1, 1, 2, 2, 3])):
                if batch and rng.random() < 0.5:
                    batch.append(dict(rng.choice(batch)))          # the same message again, back-to-back
                else:
                    batch.append(gen_message_for(rng, rng.choice(specs[:max(registered, 1)])))
            if rng.random() < 0.25:          # listeners that suspend, longer for earlier messages
                batch = [dict(b_, delay=rng.choice([0, 1, 2, 3, 4])) for b_ in batch]
            if rng.random() < 0.1:           # ... or fail
                batch = [dict(b_, **{'raise': True}) if rng.random() < 0.5 else b_ for b_ in batch]
            if rng.random() < 0.08 and registered:
                batch[0] = dict(batch[0], reenter=dict(specs[0], kind='raw_s' if specs[0]['conn'] == 'S' else 'reg'))
            ops.append(['feed_soon' if rng.random() < 0.3 else 'feed', batch])
        elif r < 0.78:
            ops.append(['step', rng.choice([1, 1, 1, 2, 3])])
        elif r < 0.9:
            if rng.random() < 0.7 and registered:
                ops.append(['adv_to', rng.randrange(registered)])
            else:
                ops.append(['adv', rng.choice([0.5, 1, 2, 6])])
        elif r < 0.96 and registered:
            ops.append(['cancel', rng.randrange(registered)])
        elif registered:
            ops.append(['go', rng.randrange(registered), rng.random() < 0.8])
        if registered and rng.random() < 0.15:
            ops.append(['release', rng.randrange(registered)])
    for j in range(registered):
        if specs[j].get('hold') and rng.random() < 0.8:
            ops.append(['release', j])
            ops.append(['step', rng.choice([1, 2, 3])])
    return {'ops': ops}


def directed_scripts():
    """The placements named in the property (and the stored shapes of F02a/b/c), for every kind of waiter."""
    out = []
    m = {'conn': 'S', 'cls': 0, 'vals': {'0': 1, '1': 2, '2': 0}}
    base = {'conn': 'S', 'cls': 0, 'peer': None, 'fields': [[0, ['eq', 1]]], 'timeout': 2}
    for k1 in ('raw_s', 'wait_s', 'exec', 'reg'):
        for k2 in ('raw_s', 'wait_s', 'exec'):
            a, b = dict(base, kind=k1), dict(base, kind=k2, timeout=3.25)
            pre = [['reg', a], ['reg', b], ['step', 1], ['go', 0, True], ['go', 1, True], ['step', 3]]
            out.append({'ops': pre + [['feed', [m]], ['step', 3]]})                      # one message, two waiters
            out.append({'ops': pre + [['feed', [m, m]], ['step', 3]]})                   # back-to-back duplicate
            out.append({'ops': pre + [['feed', [m]], ['step', 1], ['feed', [m]], ['step', 2]]})     # separated by one iteration
            out.append({'ops': pre + [['adv_to', 0], ['feed', [m]], ['step', 3]]})       # message, then timeout, same iteration
            out.append({'ops': pre + [['adv_to', 0], ['feed_soon', [m]], ['step', 3]]})  # timeout, then message before the callbacks
            out.append({'ops': pre + [['adv_to', 0], ['step', 2], ['feed', [m]], ['step', 3]]})     # timeout well before
            out.append({'ops': pre + [['cancel', 0], ['feed', [m]], ['step', 3]]})       # cancelled, not yet removed
            out.append({'ops': pre + [['feed', [m]], ['cancel', 0], ['step', 3]]})
            out.append({'ops': pre + [['feed', [m]], ['step', 1], ['cancel', 0], ['step', 3]]})
            out.append({'ops': pre + [['adv_to', 0], ['step', 1], ['cancel', 0], ['step', 3]]})
    # exec: reply / cancel / failure while the command is still being sent
    e = dict(base, kind='exec')
    out.append({'ops': [['reg', e], ['step', 1], ['feed', [m]], ['step', 2], ['go', 0, True], ['step', 3]]})
    out.append({'ops': [['reg', e], ['step', 1], ['feed', [m]], ['go', 0, True], ['step', 3]]})
    out.append({'ops': [['reg', e], ['step', 1], ['go', 0, False], ['step', 3], ['feed', [m]], ['step', 2]]})
    out.append({'ops': [['reg', e], ['step', 1], ['cancel', 0], ['step', 2], ['feed', [m]], ['step', 2]]})
    # exec: the reply is handled while command.send() is still in flight (fast server / slow writer)
    eh = dict(base, kind='exec', hold=True)
    out.append({'ops': [['reg', eh], ['step', 1], ['go', 0, True], ['step', 4], ['feed', [m]], ['step', 2], ['release', 0], ['step', 3]]})
    out.append({'ops': [['reg', eh], ['step', 1], ['go', 0, True], ['step', 4], ['feed', [m_other0 := {'conn': 'S', 'cls': 0, 'vals': {'0': 2, '1': 2, '2': 0}}, m]],
                        ['step', 2], ['release', 0], ['step', 3], ['feed', [m]], ['step', 2]]})
    out.append({'ops': [['reg', eh], ['reg', dict(base, kind='raw_s')], ['step', 1], ['go', 0, True], ['step', 4], ['feed', [m]], ['step', 1], ['release', 0], ['step', 3]]})
    for k in range(0, 5):        # real send path only: the reply arrives k iterations after the send was started
        out.append({'ops': [['reg', e], ['step', 1], ['go', 0, True], ['step', k], ['feed', [m]], ['step', 6]]})
        out.append({'ops': [['reg', e], ['step', 1], ['go', 0, True], ['step', k], ['feed_soon', [m]], ['step', 6]]})
    out.append({'ops': [['reg', eh], ['step', 1], ['go', 0, False], ['step', 3], ['feed', [m]], ['step', 2]]})
    # a listener of the first message suspends longer than that of the second (both buffered back-to-back)
    for k1 in ('raw_s', 'wait_s', 'exec'):
        for d1, d2 in ((3, 0), (2, 1), (0, 3)):
            a = dict(base, kind=k1)
            pre = [['reg', a], ['step', 1], ['go', 0, True], ['step', 3]]
            out.append({'ops': pre + [['feed', [dict(m, delay=d1), dict(m, delay=d2)]], ['step', 8]]})
            out.append({'ops': pre + [['reg', dict(base, kind='raw_s', fields=[[0, ['eq', 1]], [1, ['eq', 2]]])],
                                      ['feed', [dict(m, delay=d1), dict(m, delay=d2, vals={'0': 1, '1': 3, '2': 0})]], ['step', 8]]})
    # helpers: listeners that fail, that issue a request themselves, that are registered late (EventBus.emit / register)
    for k1 in ('raw_s', 'wait_s', 'exec'):
        a = dict(base, kind=k1)
        pre = [['reg', a], ['step', 1], ['go', 0, True], ['step', 3]]
        out.append({'ops': pre + [['feed', [dict(m, **{'raise': True}), m]], ['step', 6]]})
        out.append({'ops': pre + [['feed', [dict(m, delay=2, reenter=dict(base, kind='raw_s')), m]], ['step', 8]]})
        out.append({'ops': pre + [['late_listener', 2, 50], ['feed', [m]], ['step', 2], ['late_listener', 1, 150], ['feed', [m, m]], ['step', 8]]})
    # callable matchers
    wc = dict(base, kind='wait_s', fields=[[1, ['ge', 2]], [0, ['eq', 1]]])
    m_other = {'conn': 'S', 'cls': 0, 'vals': {'0': 2, '1': 3, '2': 0}}
    out.append({'ops': [['reg', wc], ['step', 1], ['feed', [m_other]], ['step', 3]]})
    out.append({'ops': [['reg', dict(wc, fields=[[0, ['eq', 1]], [1, ['ge', 2]]])], ['step', 1], ['feed', [m_other, m]], ['step', 3]]})
    # peers
    pm = {'conn': 0, 'cls': 6, 'vals': {'9': 1, '10': 1}}
    pw = {'kind': 'raw_p', 'conn': 'P', 'cls': 6, 'peer': 1, 'fields': [[9, ['eq', 1]]], 'timeout': 2}
    for k in ('raw_p', 'wait_p'):
        out.append({'ops': [['reg', dict(pw, kind=k)], ['reg', dict(pw, kind=k, peer=2)], ['step', 1], ['feed', [pm, dict(pm, conn=1), dict(pm, conn=2)]], ['step', 3]]})
    return out



# ---------------------------------------------------------------------------------------------
# the real commands of commands.py: which reply answers which request
# ---------------------------------------------------------------------------------------------
ARG_TO_FIELD = {'enable': 'enabled'}


def _fill(ftype, fname=''):
    if fname == 'ip':
        return '1.2.3.4'
    t = getattr(ftype, '__name__', None) or str(ftype)
    t = t.replace('typing.', '')
    if t.startswith('Optional') or t.startswith('list') or t.startswith('List'):
        return [] if 'list' in t.lower() else None
    if t == 'bool':
        return False
    if t == 'int':
        return 0
    if t == 'str':
        return 'x'
    if t == 'UserStats':
        from aioslsk.protocol.primitives import UserStats
        return UserStats(0, 0, 0, 0)
    return None


def real_command_cases():
    """(command class, argument names, index of the one argument in which request B differs from request A)"""
    import inspect
    from aioslsk import commands as C
    from aioslsk.network.connection import ServerConnection
    out = []
    for name, cls in sorted(vars(C).items()):
        if not (inspect.isclass(cls) and issubclass(cls, C.BaseCommand) and cls is not C.BaseCommand):
            continue
        if name in ('TrackUserCommand',):        # goes through the tracking worker (C15)
            continue
        if cls.build_expected_response is C.BaseCommand.build_expected_response:
            continue
        if cls.__init__ is object.__init__:
            continue                             # no arguments: two such requests are the same request
        args = [a for a in inspect.signature(cls.__init__).parameters if a != 'self']
        out.append((name, args))
    return out


def run_command_pair(name, args, j):
    """Two concurrent execute(response=True) of one command class whose arguments differ only in position j; the server answers
    request A only.  Returns the observation."""
    import dataclasses
    import inspect
    from vlib.world import World
    from aioslsk import commands as C
    from aioslsk.network.connection import ServerConnection
    from aioslsk.protocol.messages import AddUser
    from aioslsk.protocol.primitives import UserStats
    cls = getattr(C, name)
    sig = inspect.signature(cls.__init__).parameters

    def val(a, variant):
        ann = str(sig[a].annotation)
        if 'bool' in ann:
            return bool(variant)
        if 'int' in ann:
            return 3 + variant
        return f'{a}{variant + 1}'
    a_args = {a: val(a, 0) for a in args}
    b_args = dict(a_args)
    b_args[args[j]] = val(args[j], 1)
    w = World()
    try:
        w.start()
        w.login()
        w.server_send(AddUser.Response('me', True, 2, UserStats(1, 2, 3, 4), 'BE'))
        w.settle(10)
        client = w.client
        ca, cb = cls(**a_args), cls(**b_args)
        era = ca.build_expected_response(client)
        if era is None or era.connection_class is not ServerConnection:
            return None
        ta = w.loop.create_task(client.execute(ca, response=True, timeout=5))
        tb = w.loop.create_task(client.execute(cb, response=True, timeout=5.25))
        w.loop.run_ready(10)
        listed = len(client.network._expected_response_futures)
        # the reply that answers request A: the response class the command itself names, carrying A's arguments
        R = era.message_class
        kw = {}
        fields = [f.name for f in dataclasses.fields(R)]
        for f in dataclasses.fields(R):
            src = [a for a in args if ARG_TO_FIELD.get(a, a) == f.name]
            if src:
                kw[f.name] = a_args[src[0]]
            elif f.name == 'username' and 'username' not in args:
                kw[f.name] = client.session.user.name
            elif f.default is dataclasses.MISSING and f.default_factory is dataclasses.MISSING:
                kw[f.name] = _fill(f.type, f.name)
        w.server.feed(R(**kw).serialize())
        w.loop.run_ready(10)
        done_a, done_b = ta.done(), tb.done()
        w.loop.advance(6)
        w.loop.run_ready(10)

        def outcome(t):
            if not t.done():
                return 'pending'
            if t.cancelled():
                return 'cancelled'
            e = t.exception()
            return 'result' if e is None else type(e).__name__
        # B is answered by A's reply iff it agrees with A on every argument that is a field of the reply
        answers_b = ARG_TO_FIELD.get(args[j], args[j]) not in fields
        return {'command': name, 'a': {k: str(v) for k, v in a_args.items()}, 'b': {k: str(v) for k, v in b_args.items()}, 'differs_in': args[j],
                'listed_before': listed, 'done_a': done_a, 'done_b': done_b, 'final_a': outcome(ta), 'final_b': outcome(tb),
                'answers_b': answers_b, 'residue': len(client.network._expected_response_futures)}
    finally:
        try:
            w.loop.run_coro(w.client.stop(), timeout_virtual=30.0, max_iters=20000)
        except Exception:
            pass
        w.close()


def command_pair_violations(o):
    v = []
    if o is None:
        return v
    what = f"{o['command']}: requests A{o['a']} and B{o['b']} pending together, the server answers A only"
    if o['listed_before'] != 2:
        v.append(('command-not-registered', f"{what}: {o['listed_before']} requests listed while both commands wait", o))
        return v
    if not o['done_a'] or o['final_a'] == 'TimeoutError':
        v.append(('reply-does-not-complete-its-request', f'{what}: A was not completed by its reply ({o["final_a"]})', o))
    if o['done_b'] and not o['answers_b']:
        v.append(('reply-completes-other-request', f"{what}: B, which differs in `{o['differs_in']}`, was completed by A's reply", o))
    if not o['answers_b'] and not o['done_b'] and o['final_b'] != 'TimeoutError':
        v.append(('timeout-not-reported', f'{what}: B got {o["final_b"]} instead of TimeoutError', o))
    if o['answers_b'] and not o['done_b']:
        v.append(('reply-does-not-complete-its-request', f"{what}: B does not differ in any field of the reply but was not completed", o))
    if o['residue']:
        v.append(('residue', f'{what}: {o["residue"]} requests still listed at the end', o))
    return v

# ---------------------------------------------------------------------------------------------
def classify(run, script, tr, viol):
    """Turn monitor output into findings.  Known keys are only attached to violations of exactly that shape."""
    for key, what, detail in viol:
        run.add_finding(Finding(key, what, {'script': script, 'detail': detail}, observed=detail))


def _script_has(script, key):
    try:
        return any(v[0] == key for v in monitor(run_script(script)))
    except Exception:
        return False


def shrink_script(script, key):
    ops = shrink_list(script['ops'], lambda o: _script_has({'ops': o}, key), max_steps=60)
    return {'ops': ops}


def run(run: Run):
    run.rule = ('scripts over 1..4 concurrent waiters (bare futures, wait_for_server/peer_message, execute with a response; same or '
                'overlapping matchers incl. callables, peers, non-matching classes), frames fed singly or several at once '
                '(processed back-to-back in one loop iteration), before or after the callbacks of the previous completion, '
                'virtual-time timeouts placed before / in the same iteration as / after arrival, cancellations at every point, '
                'send success / failure / reply during send for execute; distinct = distinct observed event list; non-trivial = '
                'at least one waiter completed or timed out and at least two events besides registrations')
    run.trusted += ['asyncio facts A2-A5 (validated by every correspondence run on CPython 3.12 / async_timeout 5)',
                    'the observation points of the harness (list subclass in place of Network._expected_response_futures, '
                    'wrapper around Network.on_message_received, virtual clock for timeouts)']
    run.assumptions += ['message handlers of the delivered message classes do not suspend (checked: every fed frame reaches the completion loop)',
                        'one waiter is awaited by at most one task']
    proved = run.prove(['tr_retry', 'tr_waiter'])

    traces = []

    def do(script, kind):
        try:
            tr = run_script(script)
        except BrokenTie:
            raise
        except Exception as e:
            run.add_broken('correspondence:C12 harness', f'{type(e).__name__}: {e} on {script}')
            return None
        nontriv = any(w['fut'] != (0, 0) for w in tr['waiters']) and sum(1 for e in tr['events'] if e[0] != 'Register') >= 2
        run.case(tr['events'], nontrivial=nontriv, kind=kind)
        run.count('events', len(tr['events']))
        for e in tr['events']:
            run.count('ev_' + e[0])
        traces.append((script, tr))
        viol = monitor(tr)
        if viol:
            classify(run, script, tr, viol)
        return tr

    # stored witnesses of listed findings first: the KNOWN-FINDING lines do not depend on the seed
    for key, wit, is_fixed in run.known_witnesses():
        tr = do(wit['script'], 'known-witness')
        if tr is not None and not is_fixed and not any(v[0] == key for v in monitor(tr)):
            run.notes.append(f'listed finding {key} no longer reproduces with its stored witness')

    for s in directed_scripts():
        do(s, 'directed')
    n = 260 if run.tier == "quick" else 2000
    if not proved:
        n *= 3          # a broken tie (translator refused, fingerprint or proof broke): search longer for a concrete failing input
    for _ in range(n):
        do(gen_script(run.rng), 'random')

    # the real commands of commands.py, two concurrent requests of one class differing in exactly one argument
    for name, args in real_command_cases():
        for j in range(len(args)):
            try:
                o = run_command_pair(name, args, j)
            except Exception as e:
                run.add_broken('correspondence:C12 harness (command pairs)', f'{name} differing in {args[j]}: {type(e).__name__}: {e}')
                continue
            if o is None:
                continue
            run.case({'command_pair': [name, args[j]]}, kind='command-pair')
            for key, what, detail in command_pair_violations(o):
                run.add_finding(Finding(key, what, {'command_pair': [name, args, j], 'detail': detail}, observed=detail))

    # shrink the witness of any finding that is not listed (helps the reader of the replay file)
    known = {k for k, _, f in run.known_witnesses() if not f}
    for f in run.findings:
        if f.key not in known:
            try:
                if 'script' in f.witness:
                    f.witness = {'script': shrink_script(f.witness['script'], f.key), 'detail': f.witness.get('detail')}
            except Exception:
                pass

    # L2: model vs implementation
    shard = 150
    items = [tr for _, tr in traces]
    texts = [coq_cases(items[i:i + shard]) for i in range(0, len(items), shard)]
    try:
        outs = coq_eval_many('c12', texts)
        nbad = 0
        for k, out in enumerate(outs):
            vals = parse_eval(out)
            if not vals:
                raise BrokenTie('correspondence:C12', f'no output from shard {k}')
            for b in parse_coq_list(vals[0]):
                nbad += 1
                script, tr = traces[k * shard + int(b)]
                if nbad <= 2:
                    run.add_broken('correspondence:C12 waiter-list model vs Network/execute',
                                   f'first diverging trace: events={[e[:2] for e in tr["events"]]} impl={[(w["fut"], w["out"], w["inlist"]) for w in tr["waiters"]]} '
                                   f'raised={tr["raised"]} script={script}')
        run.cov['traces_validated_against_impl'] = len(items) - nbad
    except BrokenTie as e:
        run.add_broken(e.obligation, e.detail)


def replay(rep) -> int:
    if 'command_pair' in rep['witness']:
        name, args, j = rep['witness']['command_pair']
        o = run_command_pair(name, args, j)
        print(o)
        viol = command_pair_violations(o)
        for v in viol:
            print('VIOLATION', v[0], v[1])
        return 1 if viol else 0
    script = rep['witness']['script']
    tr = run_script(script)
    print('script:', script)
    print('observed events:', [e[:2] for e in tr['events']])
    print('raised per event:', tr['raised'])
    for w in tr['waiters']:
        print('waiter', w['index'], w['spec']['kind'], 'future', w['fut'], 'caller', w['out'], 'listed', w['inlist'])
    viol = monitor(tr)
    for v in viol:
        print('VIOLATION', v[0], v[1])
    return 1 if viol else 0
