"""C08 — files are only offered and uploaded to users entitled to them.

L1  theories/C08/Props.v over C08/Model.v (entitlement, visible/locked split, search gate, decision
    functions of the transfer-request handlers, the shares-changed cycle) on top of the C07 model
L2  correspondence on a full client (vlib.world.World: real SoulSeekClient, fake network, scripted
    server, virtual time): share modes x friend / block / user lists over 3 users x excluded phrase
    lists in any letter case x requested paths (shared, locked, unknown, case variants, doubled
    separators) x change sequences interleaved with requests and management cycles.  Searches and
    excluded phrases arrive as real server frames; PeerTransferQueue / PeerTransferRequest /
    PeerDirectoryContentsRequest are real message objects handed to the managers' handlers on a
    recording connection; replies and Transfer.state / abort_reason / fail_reason are observed after
    every event and compared with the model run inside coqc.
L3  monitor = the property text on the same traces, written against the directory that HOLDS a file
    (not the item's own pointer): nothing of a friends/users directory visible for anyone else, no
    reply to a user blocked for searches, no result containing an excluded phrase case-insensitively,
    no upload created for blocked / unentitled / unknown, after a cycle every unfinished upload is
    permitted or ABORTED with the first applicable reason.
"""
from __future__ import annotations

import gc
import json
import os
import re
import shutil

from vlib.common import Run, Finding, BrokenTie, coq_eval_many, parse_eval
from checks import c07 as S

USERS = ['u1', 'u2', 'u3']
K_F05 = 'F05-moved-item-locked-by-rules-of-previous-directory'
K_F06 = 'F06-excluded-phrase-not-lowercased'
K_F28 = 'F28-directory-contents-reply-ignores-share-mode'

STATE_COQ = {'VIRGIN': 'Virgin', 'QUEUED': 'Queued', 'INITIALIZING': 'Initializing', 'UPLOADING': 'Uploading', 'INCOMPLETE': 'Incomplete',
             'PAUSED': 'Paused', 'ABORTED': 'Aborted', 'COMPLETE': 'Complete', 'FAILED': 'Failed'}
ABORT_COQ = {None: 'None', 'Requested': '(Some Requested)', 'Blocked': '(Some Blocked)', 'File not shared': '(Some NotShared)'}
FAIL_COQ = {None: 'None', 'File not shared.': '(Some FNotShared)', 'Cancelled': '(Some FCancelled)', 'Queued': '(Some FQueued)',
            'Complete': '(Some FComplete)'}


class Conn:
    """Recording stand-in for an established peer connection."""

    def __init__(self, username):
        self.username = username
        self.sent = []
        self.hostname, self.port = '9.9.9.9', 1234

    def queue_message(self, m):
        self.sent.append(m)

    async def send_message(self, m):
        self.sent.append(m)


class Scenario:
    def __init__(self, files, opts=None):
        self.opts = opts or {}
        from vlib.world import World
        self.gc_was = gc.isenabled()
        gc.disable()
        self.w = World(**{'transfers.limits.upload_slots': 0})
        self.root = os.path.realpath(str(self.w.tmp / 'tree'))
        os.makedirs(self.root)
        self.disk = {}
        for comps, mt in files:
            self.mkfile(comps, mt)
        self.w.start()
        self.w.login()
        self.replies = []
        net = self.w.client.network

        async def send_peer_messages(username, *messages, **kw):
            for m in messages:
                self.replies.append((username, m))
            return []
        net.send_peer_messages = send_peer_messages
        self.sm = self.w.client.shares
        self.tm = self.w.client.transfers
        if self.opts.get('hostile'):
            self._register_hostile_listeners()
        self.cfg = {'friends': [], 'blocked': {}, 'phrases': [], 'max': 100}
        self.ticket = 100

    def _register_hostile_listeners(self):
        """Application listeners registered late on the client's event bus for the events the entitlement logic lives on: one that
        raises (before the managers' listeners: priority 0), one coroutine that suspends, one coroutine that raises.  The event
        bus must keep delivering to the managers."""
        import asyncio
        from aioslsk.events import SharedDirectoryChangeEvent, FriendListChangedEvent, BlockListChangedEvent, TransferAddedEvent

        def raising(event):
            raise RuntimeError('listener failure')

        async def suspending(event):
            for _ in range(3):
                await asyncio.sleep(0)

        async def raising_async(event):
            await asyncio.sleep(0)
            raise ValueError('async listener failure')
        self._listeners = [raising, suspending, raising_async]      # the bus only keeps weak references
        bus = self.w.client.events
        for ev in (SharedDirectoryChangeEvent, FriendListChangedEvent, BlockListChangedEvent, TransferAddedEvent):
            bus.register(ev, raising, priority=0)
            bus.register(ev, suspending, priority=1)
            bus.register(ev, raising_async, priority=200)

    def close(self):
        try:
            self.w.stop()
        except Exception:
            self.w.close()
        gc.collect()
        if self.gc_was:
            gc.enable()

    mkfile = S.Impl.mkfile
    abs = S.Impl.abs
    rel = S.Impl.rel
    alias = S.Impl.alias

    def snapshot(self):
        return sorted((list(k), v) for k, v in self.disk.items())

    def settle(self, dt=0.0):
        if dt:
            self.w.loop.run_for(dt)
        self.w.settle(60)

    # ---- events
    def share(self, st):
        from aioslsk.shares.model import DirectoryShareMode
        from aioslsk.exceptions import SharedDirectoryError
        ob = {}
        try:
            if st[0] == 'add':
                ob['aliases'] = [self.alias(st[1])]
                self.sm.add_shared_directory(self.abs(st[1]), share_mode=DirectoryShareMode(st[2]), users=list(st[3]))
            elif st[0] == 'remove':
                self.sm.remove_shared_directory(self.abs(st[1]))
            elif st[0] == 'update':
                self.sm.update_shared_directory(self.abs(st[1]), share_mode=DirectoryShareMode(st[2]) if st[2] else None,
                                                users=list(st[3]) if st[3] is not None else None)
            elif st[0] == 'load':
                from aioslsk.settings import SharedDirectorySettingEntry
                ob['aliases'] = [self.alias(c) for c, _, _ in st[1]]
                self.w.client.settings.shares.directories = [
                    SharedDirectorySettingEntry(path=self.abs(c), share_mode=DirectoryShareMode(m), users=list(us)) for c, m, us in st[1]]
                self.sm.load_from_settings()
            elif st[0] == 'scan':
                ob['disk'] = self.snapshot()
                d = self.sm.get_shared_directory(self.abs(st[1]))
                self.w.run(self.sm.scan_directory_files(d))
                d = None
        except SharedDirectoryError:
            ob['err'] = 'SharedDirectoryError'
        gc.collect()
        return ob

    def set_cfg(self, cfg):
        from aioslsk.user.model import BlockingFlag
        from aioslsk.protocol.messages import ExcludedSearchPhrases
        st = self.w.client.settings
        if self.opts.get('whole_cfg'):
            from aioslsk.settings import UsersSettings
            st.users = UsersSettings(friends=set(cfg['friends']), blocked={u: BlockingFlag[f] for u, f in cfg['blocked'].items()})
        elif self.opts.get('inplace_cfg'):
            # the application edits the live collections in place (add / discard), it does not assign new ones
            for u in set(st.users.friends) - set(cfg['friends']):
                st.users.friends.discard(u)
            for u in cfg['friends']:
                st.users.friends.add(u)
            for u in set(st.users.blocked) - set(cfg['blocked']):
                del st.users.blocked[u]
            for u, f in cfg['blocked'].items():
                st.users.blocked[u] = BlockingFlag[f]
        else:
            st.users.friends = set(cfg['friends'])
            st.users.blocked = {u: BlockingFlag[f] for u, f in cfg['blocked'].items()}
        st.searches.receive.max_results = cfg['max']
        if cfg['phrases'] != self.cfg['phrases']:
            self.w.server_send(ExcludedSearchPhrases.Response(phrases=list(cfg['phrases'])))
            self.settle()
        self.cfg = cfg
        return {}

    def set_cfg_with_events(self, cfg):
        """The configuration change AND the FriendListChanged / BlockListChanged events the user manager's job derives from it,
        delivered at once (i.e. within the same transfer-management interval as whatever was requested just before)."""
        from aioslsk.events import FriendListChangedEvent, BlockListChangedEvent
        from aioslsk.user.model import BlockingFlag
        old = self.cfg
        self.set_cfg(cfg)
        bus = self.w.client.events
        a, b = set(old['friends']), set(cfg['friends'])
        if a != b:
            bus.emit_sync(FriendListChangedEvent(added=b - a, removed=a - b))
        ch = {}
        for u in set(old['blocked']) | set(cfg['blocked']):
            o, n = old['blocked'].get(u), cfg['blocked'].get(u)
            if o != n:
                ch[u] = (BlockingFlag[o] if o else BlockingFlag.NONE, BlockingFlag[n] if n else BlockingFlag.NONE)
        if ch:
            bus.emit_sync(BlockListChangedEvent(changes=ch))
        return {}

    def transfers_obs(self):
        return [(t.username, t.remote_path, t.state.VALUE.name, t.abort_reason, t.fail_reason) for t in self.tm.transfers if t.is_upload()]

    def force(self, idx, state, abort_reason, live=False):
        from aioslsk.transfer.state import TransferState
        ups = [t for t in self.tm.transfers if t.is_upload()]
        if idx < len(ups):
            t = ups[idx]
            t.state = TransferState.init_from_state(TransferState.State[state], t)
            t.abort_reason = abort_reason
            t.fail_reason = None
            if live:
                # the upload has a running task (waiting for the peer), so that aborting it really suspends
                async def waiting():
                    await self.w.loop.create_future()
                t._transfer_task = self.w.loop.create_task(waiting())
        return {'transfers': self.transfers_obs()}

    def resolve(self, spec):
        """remote path string for a request: ['item', abs comps, variant] / ['raw', text]"""
        if spec[0] == 'raw':
            return spec[1]
        target = list(spec[1])
        rp = None
        for d in self.sm.shared_directories:
            for it in d.items:
                if self.rel(it.get_absolute_path()) == target:
                    rp = it.get_remote_path()
        it = d = None
        if rp is None:
            return '@@zzzzz\\' + '\\'.join(target)
        v = spec[2]
        if v == 'upper':
            return rp.upper()
        if v == 'doubled':
            return rp.replace('\\', '\\\\', 2)
        if v == 'fwd':
            return rp.replace('\\', '/')
        if v == 'noalias':
            return '\\'.join(rp.split('\\')[1:])
        if v == 'trunc':
            return rp[:-1]
        return rp

    def peer_request(self, kind, user, spec):
        from aioslsk.protocol.messages import PeerTransferQueue, PeerTransferRequest, PeerTransferQueueFailed, PeerTransferReply
        rp = self.resolve(spec)
        conn = Conn(user)
        if kind == 'queue':
            self.w.run(self.tm._on_peer_transfer_queue(PeerTransferQueue.Request(filename=rp), conn))
        else:
            self.ticket += 1
            self.w.run(self.tm._on_peer_transfer_request(PeerTransferRequest.Request(direction=0, ticket=self.ticket, filename=rp), conn))
        self.settle()
        reply = None
        extra = []
        for m in conn.sent:
            if isinstance(m, PeerTransferQueueFailed.Request) and kind == 'queue' and reply is None:
                reply = m.reason
            elif isinstance(m, PeerTransferReply.Request) and kind == 'request' and reply is None and not m.allowed:
                reply = m.reason
            else:
                extra.append(repr(m))
        return {'rp': rp, 'reply': reply, 'extra': extra, 'transfers': self.transfers_obs(), 'holder': self.holder_info(rp)}

    def holder_info(self, rp):
        """which listed directory holds an item with that remote path (for the monitor): (mode, users) or None"""
        for d in self.sm.shared_directories:
            for it in d.items:
                if it.get_remote_path() == rp:
                    return (d.share_mode.value, list(d.users), os.path.exists(it.get_absolute_path()), it.shared_directory is not d, self.rel(d.absolute_path))
        return None

    def search(self, user, query):
        from aioslsk.protocol.messages import FileSearch, PeerSearchReply
        self.ticket += 1
        n0 = len(self.replies)
        self.w.server_send(FileSearch.Response(username=user, ticket=self.ticket, query=query))
        self.settle()
        new = self.replies[n0:]
        out = {'reply': None, 'others': []}
        holders = {}
        for d in self.sm.shared_directories:
            for it in d.items:
                holders[it.get_remote_path()] = (self.rel(it.get_absolute_path()), d.share_mode.value, list(d.users), self.rel(d.absolute_path), it.shared_directory is not d)
        it = d = None
        for to, m in new:
            if isinstance(m, PeerSearchReply.Request) and m.ticket == self.ticket:
                def conv(fds):
                    return [([], fd.filename) for fd in fds]
                out['reply'] = {'to': to, 'visible': conv(m.results), 'locked': conv(m.locked_results or [])}
            else:
                out['others'].append(repr(m)[:100])
        out['holders'] = holders
        return out

    def directory_contents(self, user, abs_dir_comps):
        from aioslsk.protocol.messages import PeerDirectoryContentsRequest, PeerDirectoryContentsReply
        rd = None
        mode = None
        for d in self.sm.shared_directories:
            for it in d.items:
                if self.rel(os.path.dirname(it.get_absolute_path())) == list(abs_dir_comps):
                    rd = it.get_remote_directory_path()
                    mode = (d.share_mode.value, list(d.users), self.rel(d.absolute_path))
        it = d = None
        if rd is None:
            return {'skipped': True}
        conn = Conn(user)
        self.w.run(self.w.client.peers._on_peer_directory_contents_req(PeerDirectoryContentsRequest.Request(ticket=7, directory=rd), conn))
        files = []
        replied = False
        for m in conn.sent:
            if isinstance(m, PeerDirectoryContentsReply.Request):
                replied = True
                for dd in m.directories:
                    files += [f.filename for f in dd.files]
        return {'dir': rd, 'mode': mode, 'files': files, 'replied': replied}

    def shares_request(self, user):
        from aioslsk.protocol.messages import PeerSharesRequest, PeerSharesReply
        conn = Conn(user)
        self.w.run(self.w.client.peers._on_peer_shares_request(PeerSharesRequest.Request(), conn))
        holders = {}
        for d in self.sm.shared_directories:
            for it in d.items:
                holders[(it.get_remote_directory_path(), it.filename)] = (d.share_mode.value, list(d.users), self.rel(d.absolute_path))
        it = d = None
        out = {'replied': False, 'visible': [], 'locked': [], 'holders': holders}
        for m in conn.sent:
            if isinstance(m, PeerSharesReply.Request):
                out['replied'] = True
                out['visible'] = [(dd.name, f.filename) for dd in m.directories for f in dd.files]
                out['locked'] = [(dd.name, f.filename) for dd in (m.locked_directories or []) for f in dd.files]
        return out

    def cycle(self, request=True):
        from aioslsk.transfer.manager import _RequestFlag
        # let the settings watcher (1 s poll) notice friend / block changes and the transfer manager run its cycle
        self.settle(1.5)
        if request:
            # (forced transfer states are not announced by any event: ask for a cycle explicitly)
            self.tm.request_management_cycle(_RequestFlag.SHARES_CHANGE)
        self.settle(0.5)
        obs = self.transfers_obs()
        return {'transfers': obs, 'holders': [self.holder_info(t[1]) for t in obs]}


def run_scenario(scn):
    sc = Scenario(scn['files'], scn.get('opts'))
    out = []
    try:
        for e in scn['events']:
            k = e[0]
            if k in ('share', 'share_nc'):
                out.append(sc.share(e[1]))
            elif k == 'cfg':
                out.append(sc.set_cfg(e[1]))
            elif k == 'cfg_evt':
                out.append(sc.set_cfg_with_events(e[1]))
            elif k == 'set':
                out.append(sc.force(e[1], e[2], e[3], live=len(e) > 4 and e[4] == 'live'))
            elif k == 'remove_async':
                ups = [t for t in sc.tm.transfers if t.is_upload()]
                if e[1] < len(ups):
                    sc.w.loop.create_task(sc.tm.remove(ups[e[1]]))     # the application removes a transfer; runs interleaved with what follows
                out.append({'removed': e[1] < len(ups)})
            elif k in ('queue', 'request'):
                out.append(sc.peer_request(k, e[1], e[2]))
            elif k == 'search':
                out.append(sc.search(e[1], e[2]))
            elif k == 'dircontents':
                out.append(sc.directory_contents(e[1], e[2]))
            elif k == 'sharesreq':
                out.append(sc.shares_request(e[1]))
            elif k == 'cycle':
                out.append(sc.cycle())
            elif k == 'cycle_nr':
                out.append(sc.cycle(request=False))      # only the cycles the client starts by itself
            elif k == 'spin':
                sc.w.loop.run_ready(e[1])      # a few loop iterations only: a management cycle may be left suspended
                out.append({})
            else:
                raise ValueError(k)
        return out
    finally:
        sc.close()


# ----------------------------------------------------------------------------------------------
# monitor: the property text
# ----------------------------------------------------------------------------------------------

def _dir_allows(mode, users, friends, user):
    if mode == 'friends':
        return user in friends
    if mode == 'users':
        return user in users
    return True


def monitor(scn, obs):
    found = []
    cfg = {'friends': [], 'blocked': {}, 'phrases': [], 'max': 100}
    last_holder = {}

    intent = {}          # shared directory -> (mode, users) as the scenario configured it (NOT read back from the implementation)

    def blocked(user, what):
        f = cfg['blocked'].get(user)
        return f in ('ALL', what)

    def dir_allows(mode, users, friends, user, path=None):
        if path is not None and tuple(path) in intent:
            mode, users = intent[tuple(path)]
        return _dir_allows(mode, users, friends, user)
    for e, ob in zip(scn['events'], obs):
        k = e[0]
        if k in ('share', 'share_nc') and not ob.get('err'):
            st = e[1]
            if st[0] == 'add':
                intent[tuple(st[1])] = (st[2], list(st[3]))
            elif st[0] == 'remove':
                intent.pop(tuple(st[1]), None)
            elif st[0] == 'load':
                intent.clear()
                for c, m, us in st[1]:
                    intent[tuple(c)] = (m, list(us))
            elif st[0] == 'update' and tuple(st[1]) in intent:
                m0, u0 = intent[tuple(st[1])]
                intent[tuple(st[1])] = (st[2] or m0, list(st[3]) if st[3] is not None else u0)
        if k in ('cfg', 'cfg_evt'):
            cfg = e[1]
        elif k == 'search':
            user = e[1]
            rep = ob['reply']
            if rep is None:
                continue
            if blocked(user, 'SEARCHES'):
                found.append(('search-reply-to-blocked-user', f'search reply sent to {user} who is blocked for searches', {'event': e}))
            for ap, fn in rep['visible'] + rep['locked']:
                h = ob['holders'].get(fn)
                qpath = '\\'.join(fn.split('\\')[1:])
                for ph in cfg['phrases']:
                    if ph and ph.lower() in qpath.lower():
                        found.append((K_F06 if ph != ph.lower() else 'excluded-phrase-in-result',
                                      f'search result {qpath!r} contains the excluded phrase {ph!r}', {'event': e, 'phrase': ph, 'result': fn}))
            for ap, fn in rep['visible'] + rep['locked']:
                if fn not in ob['holders']:
                    found.append((K_F05 if _stale_possible(scn) else 'search-result-not-held',
                                  f'search reply for {user} contains {fn!r}, which no shared directory holds', {'event': e, 'result': fn}))
            for ap, fn in rep['visible']:
                h = ob['holders'].get(fn)
                if h and not dir_allows(h[1], h[2], cfg['friends'], user, h[3]):
                    found.append((K_F05 if h[4] else 'locked-file-listed-as-normal-result',
                                  f'file held by a {h[1]}-only directory is listed as a normal result for {user}',
                                  {'event': e, 'file': h[0], 'holder': h[3]}))
            for ap, fn in rep['locked']:
                h = ob['holders'].get(fn)
                if h and dir_allows(h[1], h[2], cfg['friends'], user, h[3]):
                    found.append((K_F05 if h[4] else 'permitted-file-reported-locked',
                                  f'file held by a directory that {user} may use is reported as locked',
                                  {'event': e, 'file': h[0], 'holder': h[3]}))
        elif k in ('queue', 'request'):
            user = e[1]
            before = last_holder.get('transfers', [])
            created = len(ob['transfers']) > len(before)
            h = ob['holder']
            permitted = (not blocked(user, 'UPLOADS')) and h is not None and dir_allows(h[0], h[1], cfg['friends'], user, h[4])
            if created and not permitted:
                key = K_F05 if h is not None and h[3] and not blocked(user, 'UPLOADS') else 'upload-created-for-unentitled'
                found.append((key, f'an upload was created for {user} who is not entitled to {ob["rp"]!r}', {'event': e, 'holder': h}))
            if not permitted and not created and ob['reply'] not in ('File not shared.',):
                had = any(t[0] == user and t[1] == ob['rp'] for t in before)
                if not had:
                    found.append(('no-failure-reply', f'request of {user} for {ob["rp"]!r} refused without a "File not shared." reply', {'event': e, 'reply': ob['reply']}))
            # no upload is created, RE-QUEUED or served for a user who is not entitled now
            live = ('QUEUED', 'INITIALIZING', 'UPLOADING')
            for tb, ta in zip(before, ob['transfers']):
                if (ta[0], ta[1]) == (user, ob['rp']) and ta[2] in live and tb[2] not in live and not permitted:
                    key = K_F05 if h is not None and h[3] and not blocked(user, 'UPLOADS') else 'upload-requeued-for-unentitled'
                    found.append((key, f'the {tb[2]} upload of {ob["rp"]!r} was put back to {ta[2]} for {user}, who is not entitled to the file any more',
                                  {'event': e, 'holder': h, 'before': list(tb), 'after': list(ta)}))
            if permitted and not created and not any(t[0] == user and t[1] == ob['rp'] for t in before):
                key = K_F05 if h[3] else 'upload-refused-for-entitled'
                found.append((key, f'{user} is entitled to {ob["rp"]!r} but the upload was refused', {'event': e, 'holder': h, 'reply': ob['reply']}))
        elif k == 'sharesreq':
            user = e[1]
            if blocked(user, 'SHARES'):
                if ob['replied']:
                    found.append(('shares-reply-to-blocked-user', f'shares reply sent to {user} who is blocked for shares', {'event': e}))
                continue
            for part, want in (('visible', True), ('locked', False)):
                for key in ob[part]:
                    h = ob['holders'].get(tuple(key))
                    if h is not None and dir_allows(h[0], h[1], cfg['friends'], user, h[2]) != want:
                        found.append(('shares-reply-wrong-part', f'shares reply for {user} lists {key[1]!r} of a {h[0]} directory as {part}',
                                      {'event': e, 'file': list(key)}))
        elif k == 'dircontents':
            if ob.get('skipped'):
                continue
            user = e[1]
            m = ob['mode']
            if ob['files'] and not dir_allows(m[0], m[1], cfg['friends'], user, m[2]) and not blocked(user, 'SHARES'):
                found.append((K_F28, f'PeerDirectoryContentsReply lists the files of a {m[0]}-only directory to {user}', {'event': e, 'files': ob['files'][:3]}))
        elif k in ('cycle', 'cycle_nr'):
            before = last_holder.get('transfers', [])
            for tb, ta in zip(before, ob['transfers']):
                if tb[2] == 'ABORTED' and tb[3] == 'Requested' and (ta[2], ta[3]) != ('ABORTED', 'Requested'):
                    found.append(('requested-abort-not-kept', f'an upload aborted on the user\'s request is {ta[2]}/{ta[3]} after the cycle',
                                  {'before': list(tb), 'after': list(ta)}))
            for (u, rp, st, ar, fr), h in zip(ob['transfers'], ob.get('holders', [])):
                if st in ('COMPLETE', 'FAILED', 'VIRGIN', 'ABORTED'):
                    continue
                if h is None or not dir_allows(h[0], h[1], cfg['friends'], u, h[4]):
                    found.append((K_F05 if h is not None and h[3] else 'cycle-unentitled-not-aborted',
                                  f'after the cycle the upload of {rp!r} to {u} is {st} although {u} is not entitled to it',
                                  {'transfer': [u, rp, st, ar], 'holder': h}))
            for (u, rp, st, ar, fr) in ob['transfers']:
                if st in ('COMPLETE', 'FAILED', 'VIRGIN'):
                    continue
                if ar == 'Requested' and st == 'ABORTED':
                    continue
                if blocked(u, 'UPLOADS'):
                    if not (st == 'ABORTED' and ar in ('Blocked', 'Requested')):
                        found.append(('cycle-blocked-not-aborted', f'after the cycle the upload of blocked user {u} is {st}/{ar}', {'transfer': [u, rp, st, ar]}))
        if k == 'remove_async' and ob['removed']:
            prev = last_holder.get('transfers', [])
            last_holder['transfers'] = prev[:e[1]] + prev[e[1] + 1:]
        if 'transfers' in ob:
            last_holder['transfers'] = ob['transfers']
    return found


def _stale_possible(scn):
    """a nested shared directory was added or removed somewhere in the scenario (F05 shape)"""
    dirs = [tuple(e[1][1]) for e in scn['events'] if e[0] in ('share', 'share_nc') and e[1][0] in ('add', 'remove')]
    return any(a != b and a[:len(b)] == b for a in dirs for b in dirs)


# ----------------------------------------------------------------------------------------------
# generator
# ----------------------------------------------------------------------------------------------

FLAGS = ['UPLOADS', 'SEARCHES', 'ALL', 'SHARES']


def gen_cfg(rng, vocab, favour=()):
    friends = rng.sample(USERS, rng.randrange(0, 4))
    blocked = {u: rng.choice(FLAGS) for u in USERS if rng.random() < 0.15}
    for u in favour:            # users that hold transfers / are about to search: block them more often
        if rng.random() < 0.4:
            blocked[u] = rng.choice(['UPLOADS', 'ALL', 'SEARCHES', 'ALL'])
    phrases = []
    for _ in range(rng.choice([0, 0, 1, 1, 2])):
        w = rng.choice([v for v in vocab if v.lower() not in ('mp3', 'flac')] or ['x'])
        r = rng.random()
        phrases.append(w.upper() if r < 0.35 else w.lower() if r < 0.8 else w.title())
    return {'friends': sorted(friends), 'blocked': blocked, 'phrases': phrases, 'max': rng.choice([1, 2, 5, 100, 100, 100])}


def directed_scenarios():
    """Fixed scenarios, run on every run whatever the seed, one per input class that random generation only hits sometimes."""
    files = [[['d', 'one song.mp3'], 5], [['d', 'two song.mp3'], 6], [['e', 'three.mp3'], 7]]
    F = ['d', 'one song.mp3']
    setup = [['share', ['add', ['d'], 'everyone', []]], ['share', ['scan', ['d']]], ['share', ['add', ['e'], 'everyone', []]], ['share', ['scan', ['e']]],
             ['cfg', {'friends': ['u1'], 'blocked': {}, 'phrases': [], 'max': 100}], ['cycle']]
    Q = lambda u, f=F: ['queue', u, ['item', f, 'exact']]
    none = {'friends': [], 'blocked': {}, 'phrases': [], 'max': 100}
    out = []
    # an upload that finished (or was aborted for a reason) before the user lost access, then is asked for again
    for st, ar in (('COMPLETE', None), ('FAILED', None), ('ABORTED', 'Blocked'), ('PAUSED', None)):
        for tighten in ([['share', ['update', ['d'], 'friends', []]], ['cfg', none]], [['share', ['update', ['d'], 'users', ['u2']]]]):
            out.append({'files': files, 'events': setup + [Q('u1'), ['set', 0, st, ar]] + tighten + [['cycle'], Q('u1'), ['request', 'u1', ['item', F, 'exact']], ['cycle']]})
    # a friend / a named user uses a restricted directory and is then removed from the list (also: to the empty list)
    out.append({'files': files, 'events': setup + [['share', ['update', ['d'], 'friends', []]], ['cycle'], ['search', 'u1', 'song'], Q('u1'),
                                                   ['cfg', none], ['cycle'], ['search', 'u1', 'song'], Q('u1', ['d', 'two song.mp3']), ['sharesreq', 'u1'], ['cycle']]})
    for users in ([], ['u2']):
        out.append({'files': files, 'events': setup + [['share', ['update', ['d'], 'users', ['u1']]], ['cycle'], ['search', 'u1', 'song'], Q('u1'),
                                                       ['share', ['update', ['d'], None, users]], ['cycle'], ['search', 'u1', 'song'],
                                                       Q('u1', ['d', 'two song.mp3']), ['sharesreq', 'u1'], ['cycle']]})
    for k in (1, 2, 3, 4):
        # the application removes an earlier transfer while the cycle's abort of an upload with a running task is suspended
        out.append({'files': files, 'events': setup + [Q('u1'), Q('u2'), Q('u3'), ['set', 0, 'COMPLETE', None], ['set', 1, 'INITIALIZING', None, 'live'], ['cycle'],
                                                       ['share_nc', ['update', ['d'], 'users', []]], ['spin', k], ['remove_async', 0], ['cycle_nr']]})
        # a second share change arrives while the cycle started by the first one may be suspended
        out.append({'files': files, 'events': setup + [Q('u2'), Q('u3', ['e', 'three.mp3']), ['cycle'], ['share_nc', ['update', ['d'], 'users', ['u1']]], ['spin', k],
                                                       ['share_nc', ['update', ['e'], 'friends', []]], ['cycle_nr']]})
    # a share change and a list event about another user in the same management interval
    for other in (dict(none, friends=['u1', 'u3']), dict(none, friends=['u1'], blocked={'u3': 'UPLOADS'}), none):
        out.append({'files': files, 'events': setup + [Q('u2'), Q('u1'), ['cycle'], ['share_nc', ['update', ['d'], 'friends', []]], ['cfg_evt', other], ['cycle_nr']]})
    # an upload aborted on request while its user is blocked and unblocked again
    out.append({'files': files, 'events': setup + [Q('u2'), ['set', 0, 'ABORTED', 'Requested'], ['cfg', dict(none, blocked={'u2': 'UPLOADS'})], ['cycle'],
                                                   ['cfg', none], ['cycle']]})
    for i, scn in enumerate(out):
        scn['opts'] = {'hostile': i % 3 == 1, 'whole_cfg': i % 4 == 2}
    # the friends / block collections edited in place, after an earlier change was already noticed; only the client's own cycles
    fr = lambda *us: {'friends': list(us), 'blocked': {}, 'phrases': [], 'max': 100}
    out.append({'files': files, 'opts': {'inplace_cfg': True},
                'events': setup[:4] + [['cfg', fr('u1')], ['cycle'], ['share', ['update', ['d'], 'friends', []]], ['cycle'], Q('u1'), ['cfg', fr('u1', 'u3')], ['cycle_nr'],
                           ['cfg', fr('u3')], ['cycle_nr'], ['search', 'u1', 'song'], ['cfg', fr('u1', 'u3')], ['cycle_nr'],
                           ['cfg', dict(fr('u1', 'u3'), blocked={'u1': 'UPLOADS'})], ['cycle_nr'], ['cfg', fr('u1', 'u3')], ['cycle_nr']]})
    # shared directories (re)applied through load_from_settings: one removed, one restricted, the other left unchanged
    L = lambda *ents: ['share_nc', ['load', [list(e) for e in ents]]]
    both = ((['d'], 'everyone', []), (['e'], 'everyone', []))
    for after in (((['e'], 'everyone', []),), ((['d'], 'users', ['u3']), (['e'], 'everyone', [])), ((['d'], 'friends', []), (['e'], 'everyone', []))):
        out.append({'files': files, 'opts': {},
                    'events': [L(*both), ['share', ['scan', ['d']]], ['share', ['scan', ['e']]], ['cfg', none], ['cycle'], Q('u1'), Q('u2', ['e', 'three.mp3']), ['cycle'],
                               L(*after), ['cycle_nr'], ['search', 'u1', 'song'], Q('u1', ['d', 'two song.mp3'])]})
    return out


def gen_scenario(rng, stress=0.3):
    scn = _gen_scenario(rng)
    # helpers the entitlement logic relies on: hostile late listeners on the event bus, settings objects replaced as a whole
    scn['opts'] = {'hostile': rng.random() < stress, 'whole_cfg': rng.random() < stress}
    if not scn['opts']['whole_cfg'] and rng.random() < stress:
        scn['opts']['inplace_cfg'] = True
    return scn


def _gen_scenario(rng):
    dirs, files = S.gen_tree(rng)
    if not files:
        files = [(['d', 'sing.mp3'], 5)]
        dirs = [[], ['d']]
    vocab = S.vocab_of(files, dirs)
    cand = [d for d in dirs if d] or [[]]
    events = []
    shared = []
    def share_mode():
        m, us = S.gen_share(rng)
        if m != 'everyone' and rng.random() < 0.3:
            m = 'everyone'
        if m == 'users' and not us:
            us = rng.sample(USERS, rng.randrange(1, 3))
        return m, us
    for d in rng.sample(cand, min(len(cand), rng.randrange(1, 4))):
        events.append(['share', ['add', d, *share_mode()]])
        shared.append(d)
    order = list(shared)
    rng.shuffle(order)
    for d in order:
        if rng.random() < 0.9:
            events.append(['share', ['scan', d]])
    events.append(['cfg', gen_cfg(rng, vocab)])
    fl = [c for c, _ in files]
    deep = [c for c in fl if len(c) >= 3]
    ntr = 0
    tusers = set()
    if rng.random() < 0.3:
        # directed: a finished (or not-on-request aborted) upload, then the user loses access, then asks again for the same path
        f = rng.choice(fl)
        d = next((x for x in sorted(shared, key=len, reverse=True) if f[:len(x)] == x and len(f) > len(x)), None)
        if d is not None:
            u = rng.choice(USERS)
            others = [x for x in USERS if x != u]
            base = {'friends': sorted(rng.sample(others, rng.randrange(0, 3)) + [u]), 'blocked': {}, 'phrases': [], 'max': 100}
            events.append(['cfg', base])
            events.append(['share', ['update', d, rng.choice(['everyone', 'friends', 'users']), [u]]])
            events.append(['queue', u, ['item', f, 'exact']])
            st = rng.choice(['COMPLETE', 'FAILED', 'COMPLETE', 'FAILED', 'ABORTED', 'PAUSED'])
            events.append(['set', 0, st, rng.choice(['Blocked', 'File not shared']) if st == 'ABORTED' else None])
            if rng.random() < 0.5:
                events.append(['share', ['update', d, rng.choice(['friends', 'users']), rng.sample(others, rng.randrange(0, 2))]])
                events.append(['cfg', dict(base, friends=[x for x in base['friends'] if x != u])])
            else:
                events.append(['cfg', dict(base, friends=[x for x in base['friends'] if x != u])])
                events.append(['share', ['update', d, rng.choice(['friends', 'users']), rng.sample(others, rng.randrange(0, 2))]])
            events.append(['cycle'])
            for _ in range(rng.randrange(1, 3)):
                events.append([rng.choice(['queue', 'queue', 'request']), u, ['item', f, 'exact']])
            if rng.random() < 0.5:
                events.append(['cfg', base])
                events.append(['share', ['update', d, 'everyone', []]])
                events.append(['queue', u, ['item', f, 'exact']])
            ntr = 1
            tusers.add(u)
    if not ntr and rng.random() < 0.25:
        # directed: the shares-changed cycle must abort an upload that has a running task (the abort suspends) and another one
        # behind it in the list, while the application removes an earlier transfer from the list
        f = rng.choice(fl)
        d = next((x for x in sorted(shared, key=len, reverse=True) if f[:len(x)] == x and len(f) > len(x)), None)
        if d is not None:
            events.append(['cfg', {'friends': [], 'blocked': {}, 'phrases': [], 'max': 100}])
            events.append(['share', ['update', d, 'everyone', []]])
            us = rng.sample(USERS, 3)
            for u in us:
                events.append(['queue', u, ['item', f, 'exact']])
            events.append(['set', 0, rng.choice(['COMPLETE', 'FAILED']), None])
            events.append(['set', 1, rng.choice(['INITIALIZING', 'UPLOADING']), None, 'live'])
            events.append(['cycle'])
            events.append(['share_nc', ['update', d, 'users', []]])
            events.append(['spin', rng.randrange(1, 6)])
            events.append(['remove_async', 0])
            events.append(['cycle_nr'])
            ntr = 2
            tusers.update(us)
    if not ntr and rng.random() < 0.25:
        # directed: a share change and, before the management cycle it requested has run, a friend / block list change that
        # concerns a DIFFERENT user
        f = rng.choice(fl)
        d = next((x for x in sorted(shared, key=len, reverse=True) if f[:len(x)] == x and len(f) > len(x)), None)
        if d is not None:
            ua, ub, uc = rng.sample(USERS, 3)
            base = {'friends': [ub], 'blocked': {}, 'phrases': [], 'max': 100}
            events.append(['cfg', base])
            events.append(['share', ['update', d, 'everyone', []]])
            events.append(['queue', ua, ['item', f, 'exact']])
            events.append(['queue', ub, ['item', f, 'exact']])
            events.append(['cycle'])
            events.append(['share_nc', ['update', d, 'friends', []]] if rng.random() < 0.6 else ['share_nc', ['remove', d]])
            other = rng.choice([dict(base, friends=[ub, uc]), dict(base, blocked={uc: 'UPLOADS'}), dict(base, friends=[])])
            events.append(['cfg_evt', other])
            events.append(['cycle_nr'])
            ntr = 2
            tusers.update([ua, ub])
    if deep and not ntr and rng.random() < 0.35:
        # directed: a nested directory with other rules is added (or the parent removed) without a rescan
        f = rng.choice(deep)
        par, ch = f[:1], f[:-1]
        events = [['share', ['add', par, *share_mode()]], ['share', ['scan', par]], ['cfg', gen_cfg(rng, vocab)],
                  ['share', ['add', ch, *share_mode()]]]
        shared = [par, ch]
        for u in rng.sample(USERS, 2):
            events.append(['search', u, S.gen_query(rng, vocab, f)])
            events.append([rng.choice(['queue', 'request']), u, ['item', f, 'exact']])
        if rng.random() < 0.4:
            events.append(['share', ['remove', rng.choice([par, ch])]])
            shared = [d for d in shared if ['share', ['remove', d]] not in events]
            events.append(['cycle'])
    for _ in range(rng.randrange(6, 16)):
        r = rng.random()
        u = rng.choice(USERS)
        if r < 0.30:
            spec = ['item', rng.choice(fl), rng.choice(['exact'] * 6 + ['upper', 'doubled', 'fwd', 'noalias', 'trunc'])] if rng.random() < 0.9 \
                else ['raw', rng.choice(['', '@@abcde\\nothing.mp3', 'x'])]
            events.append([rng.choice(['queue', 'queue', 'request']), u, spec])
            ntr += 1
            tusers.add(u)
        elif r < 0.45:
            target = rng.choice(fl)
            events.append(['search', u, S.gen_query(rng, vocab, target)])
        elif r < 0.60:
            events.append(['cfg', gen_cfg(rng, vocab, favour=sorted(tusers) + [u])])
            if rng.random() < 0.7:
                events.append(['cycle'])
            if rng.random() < 0.5:
                events.append(['search', u, S.gen_query(rng, vocab, rng.choice(fl))])
        elif r < 0.75:
            rr = rng.random()
            if shared and rr < 0.4:
                d = rng.choice(shared)
                m, us = S.gen_share(rng)
                events.append(['share', ['update', d, m, us]])
            elif shared and rr < 0.6:
                d = rng.choice(shared)
                events.append(['share', ['remove', d]])
                shared.remove(d)
            elif rr < 0.85:
                d = rng.choice(cand)
                if d not in shared:
                    events.append(['share', ['add', d, *S.gen_share(rng)]])
                    shared.append(d)
                    if rng.random() < 0.5:
                        events.append(['share', ['scan', d]])
            elif shared:
                events.append(['share', ['scan', rng.choice(shared)]])
            if rng.random() < 0.7:
                events.append(['cycle'])
        elif r < 0.88 and ntr:
            st = rng.choice(['QUEUED', 'INITIALIZING', 'UPLOADING', 'INCOMPLETE', 'PAUSED', 'ABORTED', 'ABORTED', 'ABORTED', 'COMPLETE', 'FAILED'])
            ar = rng.choice(['Requested', 'Requested', 'Blocked', 'File not shared']) if st == 'ABORTED' else None
            events.append(['set', rng.randrange(0, ntr), st, ar])
        elif r < 0.92:
            events.append(['dircontents', u, rng.choice(fl)[:-1]])
        elif r < 0.96:
            events.append(['sharesreq', u])
        else:
            events.append(['cycle'])
    if rng.random() < 0.3:
        # directed: a friend uses a friends-only directory, then is removed from the friends list
        f = rng.choice(fl)
        d = next((x for x in sorted(shared, key=len, reverse=True) if f[:len(x)] == x and len(f) > len(x)), None)
        if d is not None:
            u = rng.choice(USERS)
            base = gen_cfg(rng, vocab)
            base['blocked'] = {}
            base['phrases'] = []
            by_users = rng.random() < 0.5
            if by_users:
                # ... or is named in a users-only directory and the list is then shrunk (to nobody, or to somebody else)
                events.append(['cfg', base])
                events.append(['share', ['update', d, 'users', [u]]])
            else:
                events.append(['share', ['update', d, 'friends', []]])
                events.append(['cfg', dict(base, friends=sorted(set(base['friends']) | {u}))])
            events.append(['search', u, S.gen_query(rng, [], f)])
            events.append(['queue', u, ['item', f, 'exact']])
            if by_users:
                events.append(['share', ['update', d, rng.choice(['users', None]), rng.choice([[], [], [x for x in USERS if x != u][:1]])]])
            else:
                events.append(['cfg', dict(base, friends=sorted(set(base['friends']) - {u}))])
            events.append(['cycle'])
            events.append(['search', u, S.gen_query(rng, [], f)])
            events.append([rng.choice(['queue', 'request']), u, ['item', rng.choice(fl), 'exact']])
            ntr += 1
    if rng.random() < 0.3 and shared:
        # directed: a second share change arrives while the management cycle started by the first one may be suspended
        us = rng.sample(USERS, 2)
        ds = [rng.choice(shared), rng.choice(shared)]
        fs = [next((f for f in fl if f[:len(d)] == d and len(f) > len(d)), None) for d in ds]
        if all(fs):
            events.append(['cfg', {'friends': [], 'blocked': {}, 'phrases': [], 'max': 100}])
            for d in set(map(tuple, ds)):
                events.append(['share', ['update', list(d), 'everyone', []]])
            for u, f in zip(us, fs):
                events.append(['queue', u, ['item', f, 'exact']])
                ntr += 1
            events.append(['cycle'])
            events.append(['share_nc', ['update', ds[0], 'users', [x for x in USERS if x not in us]]])
            events.append(['spin', rng.randrange(1, 5)])
            events.append(['share_nc', ['update', ds[1], 'friends', []]])
            events.append(['cycle_nr'])
    if ntr and rng.random() < 0.4:
        # directed: an upload aborted on request while its user gets blocked and unblocked again
        base = gen_cfg(rng, vocab)
        events.append(['set', rng.randrange(0, ntr), 'ABORTED', 'Requested'])
        events.append(['cfg', dict(base, blocked={u: rng.choice(['UPLOADS', 'ALL']) for u in USERS})])
        events.append(['cycle'])
        events.append(['cfg', dict(base, blocked={})])
    events.append(['cycle'])
    # the client runs a management cycle by itself shortly after every share / settings change: make it explicit
    out = []
    for i, e in enumerate(events):
        out.append(e)
        if e[0] in ('share', 'cfg') and (i + 1 == len(events) or events[i + 1][0] != 'cycle'):
            out.append(['cycle'])
    return {'files': [[c, m] for c, m in files], 'events': out}


# ----------------------------------------------------------------------------------------------
# Coq text
# ----------------------------------------------------------------------------------------------

def coq_cfg(nm, cfg):
    bu = [u for u, f in cfg['blocked'].items() if f in ('UPLOADS', 'ALL')]
    bs = [u for u, f in cfg['blocked'].items() if f in ('SEARCHES', 'ALL')]
    return f'(mkCfg {nm.sl(cfg["friends"])} {nm.sl(bu)} {nm.sl(bs)} {nm.sl(cfg["phrases"])} {cfg["max"]}%nat true)'


def coq_transfers(nm, ts):
    return '[' + ';'.join(f'mkT {nm.s(u)} {nm.s(rp)} {STATE_COQ[st]} {ABORT_COQ[ar]} {FAIL_COQ[fr]}' for u, rp, st, ar, fr in ts) + ']'


def coq_scenario(nm, scn, obs, name):
    rows, pre, disks = [], [], {}
    for e, ob in zip(scn['events'], obs):
        k = e[0]
        if k in ('share', 'share_nc'):
            st = e[1]
            if st[0] == 'add':
                rows.append(f'EShare (Add {nm.p(st[1])} {nm.s(ob["aliases"][0])} {S.MODE_COQ[st[2]]} {nm.sl(st[3])})')
            elif st[0] == 'remove':
                rows.append(f'EShare (Remove {nm.p(st[1])})')
            elif st[0] == 'update':
                m = f'(Some {S.MODE_COQ[st[2]]})' if st[2] else 'None'
                u = f'(Some {nm.sl(st[3])})' if st[3] is not None else 'None'
                rows.append(f'EShare (Update {nm.p(st[1])} {m} {u})')
            elif st[0] == 'load':
                ents = ';'.join(f'({nm.p(c)},{nm.s(a)},{S.MODE_COQ[m]},{nm.sl(us)})' for (c, m, us), a in zip(st[1], ob['aliases']))
                rows.append(f'EShare (LoadSettings [{ents}])')
            elif st[0] == 'scan':
                if 'disk' not in ob:
                    continue
                key = json.dumps(ob['disk'])
                if key not in disks:
                    dn = f'{name}_disk{len(disks)}'
                    disks[key] = dn
                    pre.append(f'Definition {dn} : list file := [' + ';'.join(f'({nm.p(c)},{m})' for c, m in ob['disk']) + '].')
                rows.append(f'EShare (Scan {nm.p(st[1])} {disks[key]})')
        elif k in ('cfg', 'cfg_evt'):
            rows.append(f'ECfg {coq_cfg(nm, e[1])}')
        elif k == 'set':
            rows.append(f'ESet {coq_transfers(nm, ob["transfers"])}')
        elif k in ('queue', 'request'):
            c = 'EQueue' if k == 'queue' else 'ERequest'
            rows.append(f'{c} {nm.s(e[1])} {nm.s(ob["rp"])} {FAIL_COQ[ob["reply"]]} {coq_transfers(nm, ob["transfers"])}')
        elif k == 'search':
            rep = ob['reply']
            if rep is None:
                ex = 'None'
            else:
                def conv(l):
                    return '[' + ';'.join(f'({nm.p(ap)},{nm.s(fn)})' for ap, fn in l) + ']'
                ex = f'(Some ({conv(rep["visible"])},{conv(rep["locked"])}))'
            rows.append(f'ESearch {nm.s(e[1])} {nm.s(e[2])} {ex}')
        elif k == 'remove_async':
            if ob['removed']:
                rows.append(f'ERemove {e[1]}%nat')
        elif k == 'sharesreq':
            if not ob['replied']:
                continue

            def pl(l):
                return '[' + ';'.join(f'({nm.s(a)},{nm.s(b2)})' for a, b2 in l) + ']'
            rows.append(f'EShares {nm.s(e[1])} {pl(ob["visible"])} {pl(ob["locked"])}')
        elif k == 'dircontents':
            if ob.get('skipped') or not ob.get('replied'):
                continue
            rows.append(f'EDirContents {nm.s(ob["dir"])} {nm.sl(ob["files"])}')
        elif k in ('cycle', 'cycle_nr'):
            rows.append(f'ECycle {coq_transfers(nm, ob["transfers"])}')
    return '\n'.join(pre) + f'\nDefinition {name} : list ev := [\n ' + ';\n '.join(rows) + '].\n', len(rows)


HEADER = ('From Coq Require Import NArith List Bool.\nFrom SlskGen Require Import CharTable SharesGen.\nFrom Slsk Require Import C07.Model C08.Model.\n'
          'Import ListNotations.\nOpen Scope N_scope.\n')
CFG0 = '(mkCfg [] [] [] [] 100%nat true)'


def coq_file(cases):
    nm = S.Names()
    body = []
    for i, (scn, obs) in enumerate(cases):
        body.append(coq_scenario(nm, scn, obs, f'h{i}')[0])
    hs = ';'.join(f'({i}%nat, run_events init {CFG0} [] 0 h{i})' for i in range(len(cases)))
    return (HEADER + '\n'.join(nm.defs) + '\n' + '\n'.join(body) +
            f'Definition results : list (nat * list nat) := filter (fun r => match snd r with [] => false | _ => true end) [{hs}].\n'
            'Eval vm_compute in results.\n')


def coq_positions(scn, obs):
    pos = []
    for i, (e, ob) in enumerate(zip(scn['events'], obs)):
        if e[0] == 'spin' or (e[0] == 'remove_async' and not ob['removed']) or (e[0] == 'dircontents' and (ob.get('skipped') or not ob.get('replied'))) or (e[0] == 'sharesreq' and not ob['replied']) \
                or (e[0] in ('share', 'share_nc') and e[1][0] == 'scan' and 'disk' not in ob):
            continue
        pos.append(i)
    return pos


# ----------------------------------------------------------------------------------------------

WHAT = {
    K_F05: 'is_item_locked() follows item.shared_directory, which still points at the previous directory after an item was moved between '
           'nested shared directories: the file is offered / uploaded (or refused) by the rules of the wrong directory',
    K_F06: 'SharesManager.query compares each server-excluded phrase AS SENT with the lower-cased path, so a phrase containing an upper-case '
           'letter never matches and the file is returned',
    K_F28: 'create_directory_reply() has no user argument: PeerDirectoryContentsRequest lists the files of a friends-only / users-only '
           'directory to anyone who asks',
}


def run(run: Run):
    run.rule = ('random trees (as C07) with 1..3 shared directories in random modes (everyone/friends/users x user lists) x 6..15 events drawn from: '
                'configuration change (friends, blocked-for UPLOADS/SEARCHES/SHARES/ALL, excluded phrases in lower/upper/title case, max_results), '
                'share change (update mode/users, add incl. nested, remove, scan), PeerTransferQueue / PeerTransferRequest for a path derived from a '
                'real item (exact, upper-cased, doubled separators, forward slashes, alias stripped, truncated) or junk, forced transfer state '
                '(QUEUED..FAILED, ABORTED with each reason), server search, directory-contents request, management cycle; 3 users; '
                'distinct = distinct scenario; non-trivial = at least one upload created and one refusal or one non-empty search reply')
    run.trusted += ['the C07 model of the shares index (same trusted base as C07)',
                    'transfer state transitions (transfer/state.py) are hand-modelled for fail/abort/queue only; upload slots are set to 0 so that no upload starts',
                    'settings watcher latency (<= 1 s poll) is not modelled: statements are about the cycle that follows a change',
                    'the harness injects a recording send_peer_messages and recording peer connections (no sockets)']
    run.assumptions += ['shared files exist on disk when requested', 'usernames are non-empty']
    proved = run.prove(['tr_chartable', 'tr_shares'])

    for key, wit, _fixed in run.known_witnesses():
        try:
            obs = run_scenario(wit)
            run.case({'corpus': key})
            for k, what, detail in monitor(wit, obs):
                run.add_finding(Finding(k, WHAT.get(k, what), wit if k == key else {'scenario': wit, 'detail': detail}, observed=detail))
        except Exception as e:
            run.add_broken(f'replay-of-known-witness:{key}', f'{type(e).__name__}: {e}')

    n = (int(os.environ.get('VERIF_C08_N', 0)) or (50 if run.tier == 'quick' else 400)) + (0 if proved else 40)   # broken tie: search longer   # env override: development aid for mutant runs
    cases = []
    new = {}
    directed = directed_scenarios()
    for i in range(len(directed) + n):
        scn = directed[i] if i < len(directed) else gen_scenario(run.rng, stress=0.3 if proved else 0.6)
        try:
            obs = run_scenario(scn)
        except Exception as e:
            import traceback
            run.add_finding(Finding('impl-exception', f'{type(e).__name__}: {e}', {'scenario': scn, 'tb': traceback.format_exc()[-800:]}))
            continue
        created = max((len(o['transfers']) for o in obs if 'transfers' in o), default=0)
        refused = sum(1 for e, o in zip(scn['events'], obs) if e[0] in ('queue', 'request') and o['reply'])
        nonempty = sum(1 for e, o in zip(scn['events'], obs) if e[0] == 'search' and o['reply'])
        run.case(scn, nontrivial=(created > 0 and refused > 0) or nonempty > 0, kind='scenario')
        for e, o in zip(scn['events'], obs):
            run.count('ev:' + e[0])
            if e[0] in ('queue', 'request'):
                run.count('reply:' + str(o['reply']))
            if e[0] == 'search':
                run.count('search-replied' if o['reply'] else 'search-silent')
        run.count('uploads-created', created)
        cases.append((scn, obs))
        for k, what, detail in monitor(scn, obs):
            if k not in new:
                new[k] = (scn, what, detail)
    for k, (scn, what, detail) in new.items():
        if any(f.key == k for f in run.findings):
            continue
        run.add_finding(Finding(k, WHAT.get(k, what), {'scenario': minimise(scn, k), 'detail': detail}, observed=detail))

    shard = 6
    texts = [coq_file(cases[i:i + shard]) for i in range(0, len(cases), shard)]
    try:
        outs = coq_eval_many('c08', texts, timeout=600)
        nbad = 0
        for k, out in enumerate(outs):
            vals = parse_eval(out)
            if not vals:
                raise BrokenTie('correspondence:C08', f'no output from shard {k}')
            for hidx, stepnos in S.parse_results(vals[0]).items():
                scn, obs = cases[k * shard + hidx]
                nbad += 1
                if nbad <= 1:
                    pos = coq_positions(scn, obs)
                    si = pos[stepnos[0]] if stepnos[0] < len(pos) else -1
                    run.add_broken('correspondence:C08 model vs managers',
                                   f'scenario diverges at event {si} ({scn["events"][si] if si >= 0 else "?"}); impl observed: '
                                   f'{json.dumps(obs[si], default=str)[:500]}; scenario: {json.dumps(scn)[:1500]}')
        run.cov['traces_validated_against_impl'] = len(cases) - nbad
    except BrokenTie as e:
        run.add_broken(e.obligation, e.detail)


def minimise(scn, key):
    from vlib.common import shrink_list

    def shows(evs):
        try:
            s2 = {'files': scn['files'], 'events': evs, 'opts': scn.get('opts')}
            return any(k == key for k, _, _ in monitor(s2, run_scenario(s2)))
        except Exception:
            return False
    return {'files': scn['files'], 'events': shrink_list(scn['events'], shows, max_steps=40), 'opts': scn.get('opts')}


def replay(rep) -> int:
    wit = rep['witness']
    if 'scenario' in wit:
        wit = wit['scenario']
    obs = run_scenario(wit)
    for e, ob in zip(wit['events'], obs):
        ob = {k: v for k, v in ob.items() if k != 'holders'}
        print(e, '->', json.dumps(ob, default=str)[:400])
    bad = 0
    for k, what, detail in monitor(wit, obs):
        print('MONITOR:', k, what, detail)
        bad += 1
    return 1 if bad else 0
