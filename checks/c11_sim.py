"""C11 helper: Network.create_peer_connection on the real Network over vlib.fakes under virtual time with
a scripted server and a scripted peer.

script = {
  'mode': 'fallback'|'race', 'pref_obf': bool, 'typ': 'P'|'F'|'D',
  'addr': 'reply'|'none'|'noports'|'noreply'|'sendfail'|'given',  'addr_delay': seconds,
  'ports': [clear, obfuscated],
  'direct': 'ok'|'refused'|'hang'|'initfail',  'd_delay': seconds (ok/refused/initfail),
  'indirect': 'pierce'|'cannot'|'nothing'|'sendfail',  'i_delay': seconds after the ConnectToPeer was seen,
  'cancel': None | seconds after the request started,
}
"""
from __future__ import annotations

import asyncio

from checks.c10_sim import Sim, frame, task_outcome, cleanup_tmp  # noqa: F401
from vlib import fakes


class ReqSim(Sim):
    def __init__(self, sc):
        super().__init__(obfuscate_pref=sc.get('pref_obf', False), connect_mode=sc['mode'])
        self.sc = sc
        n = self.network
        self.net.connect_handler = self._connect
        self.loop.run_coro(n.connect_listening_ports())
        t = self.spawn(n.connect_server())
        self.settle()
        n.server_connection.start_reader_task() if False else None
        self.loop.call_soon(n.server_connection.start_reader_task)
        self.settle()
        self.recs.clear()
        self.order.clear()
        self.server_ep.on_data = self._server_got
        self._srv_buf = bytearray()
        self.peer_eps = []
        self.pierce_eps = []
        self.t0 = None
        self.done_at = None
        self.log = []
        # record how each attempt coroutine ended (which schedule the loop produced on a tie)
        self.attempts = {}
        for name in ('_make_direct_connection', '_make_indirect_connection'):
            self._wrap(name)
        # a plain-function listener of PeerInitializedEvent, as every client has (managers subscribe to it): the notification sits
        # inside the attempt coroutines, so whatever EventBus.emit does around plain listeners happens there
        from aioslsk.events import PeerInitializedEvent
        self.initialized = []
        self._pi = lambda ev: self.initialized.append(ev.connection)
        self.bus.register(PeerInitializedEvent, self._pi)
        if sc.get('listeners'):
            self.add_listeners(sc['listeners'])     # suspending / raising listeners on the bus (see c10_sim.Sim.add_listeners)

    def _wrap(self, name):
        n = self.network
        orig = getattr(n, name)

        async def wrapped(*a, **k):
            self.attempts[name] = 'running'
            try:
                r = await orig(*a, **k)
                self.attempts[name] = 'ok'
                return r
            except asyncio.CancelledError:
                self.attempts[name] = 'cancelled'
                raise
            except Exception:
                self.attempts[name] = 'error'
                raise
        setattr(n, name, wrapped)

    def _cancel_request(self):
        """cancel the request task; record at which await of the race coroutine it is suspended (a scheduling fact)"""
        import linecache
        self.cancel_pos = None
        co = self.req.get_coro()
        while co is not None and hasattr(co, 'cr_frame'):
            fr = co.cr_frame
            if fr is not None and fr.f_code.co_name == '_create_peer_connection_race':
                src = ''.join(linecache.getline(fr.f_code.co_filename, fr.f_lineno + k) for k in range(0, 2))
                self.cancel_pos = 'wait' if 'asyncio.wait(' in src else 'winner-path'
            co = getattr(co, 'cr_await', None)
        self.req.cancel()

    def _hop(self, fn, hops):
        """run fn after `hops` further loop iterations at the same virtual instant"""
        if hops <= 0:
            fn()
        else:
            self.loop.call_soon(self._hop, fn, hops - 1)

    # broker: first connect is the server, later ones are the peer
    def _connect(self, host, port):
        srv = self.settings.network.server
        if (host, port) == (srv.hostname, srv.port):
            self.server_ep = fakes.Endpoint(self.net, peername=(host, port), sockname=('10.0.0.1', 50001), label='server')
            return self.server_ep
        sc = self.sc
        fut = self.loop.create_future()
        self.log.append(('connect', host, port))
        # the first connect of the request gets sc['direct']; should the client connect again (it does not today), that
        # attempt gets sc['direct_second'] (default: the same)
        nth = sum(1 for x in self.log if x[0] == 'connect')
        d = sc['direct'] if nth <= 1 else sc.get('direct_second', sc['direct'])
        if d == 'hang':
            return fut
        def fire():
            if fut.done():
                return
            if d == 'refused':
                fut.set_result(ConnectionRefusedError('refused'))
            else:
                ep = fakes.Endpoint(self.net, peername=(host, port), sockname=('10.0.0.1', 50002), label='peer')
                ep.obf = bool(port) and port == (sc.get('ports') or [0, 0])[1]
                if d == 'initfail':
                    ep.drain_error = ConnectionResetError('reset')
                self.peer_eps.append(ep)
                fut.set_result(ep)
        self.loop.call_later(sc.get('d_delay', 0), self._hop, fire, max(0, -sc.get('skew', 0)))
        return fut

    def _server_got(self, data):
        from aioslsk.protocol.messages import ServerMessage, GetPeerAddress, ConnectToPeer, CannotConnect, PeerPierceFirewall
        self._srv_buf += data
        frames = fakes.split_frames(bytes(self._srv_buf))
        used = sum(len(f) for f in frames)
        del self._srv_buf[:used]
        sc = self.sc
        for fr in frames:
            try:
                m = ServerMessage.deserialize_request(fr)
            except Exception:
                continue
            self.log.append(('server_got', type(m).__qualname__))
            if isinstance(m, GetPeerAddress.Request):
                a = sc['addr']
                if a in ('noreply',):
                    continue
                clear, obf = sc.get('ports', [40000, 0])
                if a == 'none':
                    resp = GetPeerAddress.Response(m.username, '0.0.0.0', 0, obfuscated_port_amount=0, obfuscated_port=0)
                elif a == 'noports':
                    resp = GetPeerAddress.Response(m.username, '10.0.0.9', 0, obfuscated_port_amount=0, obfuscated_port=0)
                else:
                    resp = GetPeerAddress.Response(m.username, '10.0.0.9', clear, obfuscated_port_amount=1 if obf else 0, obfuscated_port=obf)
                self.loop.call_later(sc.get('addr_delay', 0), lambda r=resp: self.server_ep.feed(r.serialize()))
            elif isinstance(m, ConnectToPeer.Request):
                i = sc['indirect']
                if i == 'pierce':
                    def pierce(ticket=m.ticket):
                        port = 60001 if sc.get('pierce_obf') else 60000
                        if port not in self.net.listeners:
                            return
                        ep = self.net.incoming(port)
                        self.tasks.append(self.net.accept_tasks[-1])
                        self.pierce_eps.append(ep)
                        ep.feed(frame(PeerPierceFirewall.Request(ticket).serialize(), bool(sc.get('pierce_obf'))))
                    self.loop.call_later(sc.get('i_delay', 0), self._hop, pierce, max(0, sc.get('skew', 0)))
                elif i == 'cannot':
                    self.loop.call_later(sc.get('i_delay', 0),
                                         lambda t=m.ticket: self.server_ep.feed(CannotConnect.Response(ticket=t).serialize()))

    def run(self):
        sc = self.sc
        n = self.network
        if sc['addr'] == 'sendfail':
            self.server_ep.drain_error = ConnectionResetError('reset')
        if sc['indirect'] == 'sendfail' and sc['addr'] != 'sendfail':
            # the ConnectToPeer write fails: arm the error when the frame is seen being written
            orig = self.server_ep._client_wrote

            def wrote(data, orig=orig):
                from aioslsk.protocol.messages import ServerMessage, ConnectToPeer
                try:
                    fs = fakes.split_frames(bytes(data))
                    if fs and isinstance(ServerMessage.deserialize_request(fs[0]), ConnectToPeer.Request):
                        self.server_ep.drain_error = ConnectionResetError('reset')
                except Exception:
                    pass
                orig(data)
            self.server_ep._client_wrote = wrote
        self.t0 = self.loop.time()
        kw = {}
        if sc['addr'] == 'given':
            clear, obf = sc.get('ports', [40000, 0])
            use_obf = bool(obf) and (sc.get('pref_obf') or not clear)
            kw = {'ip': '10.0.0.9', 'port': obf if use_obf else clear, 'obfuscate': use_obf}
        self.req = self.spawn(n.create_peer_connection('peer', sc.get('typ', 'P'), **kw))
        def done(t):
            self.done_at = self.loop.time()
            self.loop.stop()
        self.req.add_done_callback(done)
        if sc.get('cancel') is not None:
            # cancel_exact: at that very instant, `cancel_skew` loop iterations after the timers of that instant
            self.loop.call_later(sc['cancel'], self._hop, self._cancel_request, sc.get('cancel_skew', 0) if sc.get('cancel_exact') else 0)
        self.loop.run_until_idle(until=self.t0 + 400.0)
        self.settle()
        r = self.result()          # the quiescent moment right after the request returned / raised
        if self.done_at is not None:
            # a little later (before any read timeout): has anything the request started kept running?
            self.loop.run_until_idle(until=self.loop.time() + 15.0)
            self.settle()
            late = self.result()
            r['late'] = {k: late[k] for k in ('registry', 'ticket_waiters', 'cc_waiters', 'connects', 'inits', 'orphans', 'peer_eps_open')}
        return r

    def result(self):
        from aioslsk.protocol.messages import CannotConnect, PeerInitializationMessage
        n = self.network
        t = self.req
        out = task_outcome(t)
        conn = t.result() if out == 'ok' else None
        reg = []
        for c in n.peer_connections:
            reg.append({'incoming': c.incoming, 'state': c.state.name, 'returned': c is conn, 'pcs': c.connection_state.name,
                        'open': c._writer is not None and not c._writer.is_closing()})
        ccw = sum(1 for f in n._expected_response_futures if f.message_class is CannotConnect.Response)
        other_w = len(n._expected_response_futures) - ccw
        inits = []
        for ep in self.peer_eps:
            for fr in ep.frames(obfuscated=getattr(ep, 'obf', False)):
                try:
                    m = PeerInitializationMessage.deserialize_request(fr)
                    inits.append([type(m).__qualname__, getattr(m, 'typ', None), getattr(m, 'ticket', None)])
                except Exception:
                    inits.append(['?'])
        live_tasks = [x for x in asyncio.all_tasks(self.loop) if not x.done() and (x.get_name().startswith('direct-connect') or x.get_name().startswith('indirect-connect'))]
        r = {
            'outcome': out,
            'elapsed': None if self.done_at is None else round(self.done_at - self.t0, 3),
            'ret': None if conn is None else {'incoming': conn.incoming, 'state': conn.state.name, 'pcs': conn.connection_state.name,
                                              'typ': conn.connection_type, 'user': conn.username, 'obf': conn.obfuscated,
                                              'port': conn.port, 'registered': self.in_registry(conn),
                                              'open': conn._writer is not None and not conn._writer.is_closing(),
                                              'reader': conn._reader_task is not None and not conn._reader_task.done()},
            'registry': reg,
            'ticket_waiters': len(n._expected_connection_futures),
            'cc_waiters': ccw, 'other_waiters': other_w,
            'connects': [list(x[1:]) for x in self.log if x[0] == 'connect'],
            'server_got': [x[1] for x in self.log if x[0] == 'server_got'],
            'inits': inits,
            'orphans': len(live_tasks),
            'attempts': dict(self.attempts),
            'cancel_pos': getattr(self, 'cancel_pos', None),
            # per peer-connection object: its ConnectionStateChangedEvent stream, registry membership, socket (C10's observables)
            'streams': [{'incoming': bool(getattr(rec.conn, 'incoming', False)), 'reported': list(rec.reported),
                         'registered': self.in_registry(rec.conn),
                         'open': getattr(rec.conn, '_writer', None) is not None and not rec.conn._writer.is_closing(),
                         'state': rec.conn.state.name}
                        for rec in self.order if hasattr(rec.conn, 'incoming')],
            # sockets a connection object of the client holds open (an endpoint whose connect result was dropped because the
            # awaiting task was cancelled in the same instant is an artefact of the broker, not a socket of the client)
            'peer_eps_open': sum(1 for ep in self.peer_eps + self.pierce_eps if not ep.client_closed
                                 and any(getattr(rec.conn, '_writer', None) is ep.writer for rec in self.order)),
            'unhandled': len(self.loop.unhandled),
        }
        return r


def run_script(sc):
    sim = ReqSim(sc)
    try:
        return sim.run()
    finally:
        sim.close()
