"""C16 — session life cycle: login advertises settings, loss resets, stop is final.

L1  theories/C16/Props.v over the burst function and the session machine of C16/Model.v.
L2  correspondence: scenarios (settings x event list) are run on a real SoulSeekClient against the
    scripted fake server under virtual time; after EVERY step the abstract state (connection state,
    client session, manager sessions, server-derived state non-empty, distributed parameters,
    watchdog, potential-parent tasks) and the outputs (SessionInitialized/Destroyed counts, connects,
    login requests, command refused/sent, stop raising) are compared with the model's `trace`, and
    the frames that reached the server after a successful login with `login_burst` (multiset).
L3  monitor = the property text on the same runs: burst = what the settings say; loss => session
    destroyed exactly once and everything cleared; reconnect iff auto and unrequested and not EOF;
    after stop() nothing open, nothing opened later, no task pending.
"""
from __future__ import annotations

import asyncio
import os
import shutil
import tempfile

from vlib.common import Run, Finding, BrokenTie, coq_eval_many, parse_eval, parse_coq_list

FRIENDS = ['f1', 'f2']
LIKED = ['jazz', 'dub']
HATED = ['pop']
FAVS = ['roomA', 'roomB']
IDS = {'rootuser': 5, 'me': 0, 'f1': 1, 'f2': 2, 'jazz': 1, 'dub': 2, 'pop': 3, 'roomA': 1, 'roomB': 2}
PORTS = [(0, 0), (60000, 0), (0, 60001), (60000, 60001)]
PORTID = {0: 0, 60000: 6, 60001: 7}     # small nat codes for the Coq side
RECONNECT_TIMEOUT = 10

K_F19 = 'F19-auto-join-inverted'
K_F20 = 'F20-distributed-tasks-survive-stop'
K_WD = 'C16-N1-stop-after-unrequested-loss-leaves-watchdog'
K_CUT = 'C16-N2-loss-during-login-burst-leaves-stale-state'
K_TRK = 'C16-N3-loss-inside-tracking-task-leaves-orphan-worker'

HANDLER_OF = {
    'SetListenPort': 'HNetwork', 'BranchLevel': 'HDistributed', 'BranchRoot': 'HDistributed', 'ToggleParentSearch': 'HDistributed',
    'CheckPrivileges': 'HUsers', 'SetStatus': 'HUsers', 'TogglePrivateRoomInvites': 'HRooms', 'JoinRoom': 'HRooms',
    'AddInterest': 'HInterests', 'AddHatedInterest': 'HInterests', 'SharedFoldersFiles': 'HShares', 'AddUser': 'TRACKING',
}


# ----------------------------------------------------------------------------------------
# running one scenario on the real client
# ----------------------------------------------------------------------------------------

def make_dirs(tmp, n):
    """n shared directories; returns (entries, (folders, files)) - the counts are computed here from
    what is created, independently of SharesManager.get_stats."""
    from aioslsk.settings import SharedDirectorySettingEntry
    entries, folders, files = [], 0, 0
    if n >= 1:
        a = os.path.join(tmp, 'A')
        os.makedirs(os.path.join(a, 'sub'))
        for f in ['x.mp3', 'y.mp3', 'sub/z.mp3']:
            with open(os.path.join(a, f), 'wb') as fh:
                fh.write(b'1')
        entries.append(SharedDirectorySettingEntry(path=a))
        folders += 2
        files += 3
    if n >= 2:
        b = os.path.join(tmp, 'B')
        os.makedirs(b)
        with open(os.path.join(b, 'q.flac'), 'wb') as fh:
            fh.write(b'22')
        entries.append(SharedDirectorySettingEntry(path=b))
        folders += 1
        files += 1
    return entries, (folders, files)


class Sim:
    def __init__(self, st, env=None):
        from vlib.world import World
        from aioslsk.network.network import ListeningConnectionErrorMode
        import aioslsk.events as E
        self.st = st
        self.tmpd = tempfile.mkdtemp(prefix='verif_c16_')
        entries, self.share_counts = make_dirs(self.tmpd, st['dirs'])
        port, obf = st['ports']
        w = World(username='me', reconnect=st['reconnect'], port=port, obfuscated_port=obf, directories=entries)
        self.w = w
        s = w.settings
        s.network.listening.error_mode = ListeningConnectionErrorMode.ANY
        self.env = env
        if env == 'replaced':
            # the settings sub-objects are replaced as a whole (as an application that reloads its configuration does)
            from aioslsk.settings import RoomsSettings, UsersSettings, InterestsSettings
            s.users = UsersSettings(friends=set(st['friends']))
            s.interests = InterestsSettings(liked=set(st['liked']), hated=set(st['hated']))
            s.rooms = RoomsSettings(auto_join=st['auto_join'], private_room_invites=st['invites'], favorites=set(st['favorites']))
        else:
            s.users.friends = set(st['friends'])
            s.interests.liked = set(st['liked'])
            s.interests.hated = set(st['hated'])
            s.rooms.favorites = set(st['favorites'])
            s.rooms.auto_join = st['auto_join']
            s.rooms.private_room_invites = st['invites']
        w.peer_connect = lambda h, p: 'hang'
        self.attempts = 0          # connect attempts to the server (counted when they start)
        self.slow_mode = False
        self.slow_fut = None
        orig = w.net.connect_handler
        srv = (s.network.server.hostname, s.network.server.port)

        def handler(host, port):
            if (host, port) == srv:
                self.attempts += 1
                if self.slow_mode:
                    self.slow_mode = False
                    self.slow_fut = w.loop.create_future()
                    return self.slow_fut
            return orig(host, port)
        w.net.connect_handler = handler
        self.inits = 0
        self.dests = 0
        self.c = w.client
        self._l1 = self._on_init
        self._l2 = self._on_dest
        self.c.events.register(E.SessionInitializedEvent, self._l1)
        self.c.events.register(E.SessionDestroyedEvent, self._l2)
        # helper-exercising environments: application listeners that raise / suspend, in front of the library's own listeners
        self._extra = []
        if env == 'raising':
            def bad_listener(e):
                raise RuntimeError('listener failed')
            self._extra.append(bad_listener)
        elif env == 'suspending':
            async def slow_listener(e):
                await asyncio.sleep(0)
                await asyncio.sleep(0)
            self._extra.append(slow_listener)
        for fn in self._extra:
            for ev in (E.SessionInitializedEvent, E.SessionDestroyedEvent, E.ConnectionStateChangedEvent, E.ServerReconnectedEvent):
                self.c.events.register(ev, fn, priority=10)
        self.late = None
        self.frames_seen = {}       # endpoint index -> number of frames already accounted for
        self.last_burst = None
        self.bursts = []
        self.burst_parents = []
        self.pins = []
        self.stop_info = None
        self.started = False

    def _on_init(self, e):
        self.inits += 1
        if self.env == 'late' and self.late is None:
            # a listener registered after the first login must see every later session event
            import aioslsk.events as E
            self.late = {'inits': 0, 'dests': 0, 'base': (self.inits, self.dests)}

            def li(e):
                self.late['inits'] += 1

            def ld(e):
                self.late['dests'] += 1
            self._extra += [li, ld]
            self.c.events.register(E.SessionInitializedEvent, li)
            self.c.events.register(E.SessionDestroyedEvent, ld)

    def _on_dest(self, e):
        self.dests += 1

    # ---- observation
    def frames(self, idx=-1):
        from aioslsk.protocol.messages import ServerMessage
        ep = self.w.server_eps[idx]
        out = []
        for fr in ep.frames():
            try:
                out.append(ServerMessage.deserialize_request(fr))
            except Exception:
                out.append(None)
        return out

    def total_frames(self):
        return sum(len(ep.frames()) for ep in self.w.server_eps)

    def login_requests(self):
        n = 0
        for i in range(len(self.w.server_eps)):
            n += sum(1 for m in self.frames(i) if type(m).__qualname__ == 'Login.Request')
        return n

    def state(self):
        import gc
        gc.collect()      # users are held weakly: do not let reference cycles decide what is 'still there'
        c = self.c
        um = c.users
        d = c.distributed_network
        ms = [um._session, c.shares._session, d._session, c.searches._session]
        conn = c.network.server_connection.state.name
        return {
            'conn': {'UNINITIALIZED': 'Uninit', 'CONNECTED': 'Connected', 'CLOSED': 'Closed', 'CONNECTING': 'Connecting'}.get(conn, conn),
            'session': c.session is not None,
            'msession': any(x is not None for x in ms),
            'derived': bool(len(um._users) or len(c.rooms.rooms) or len(um._tracking_manager._tracked_users) or len(um._privileged_users)),
            'dist': any(x is not None for x in (d.parent_min_speed, d.parent_speed_ratio, d.min_parents_in_cache,
                                                d.parent_inactivity_timeout, d.distributed_alive_interval)),
            'watchdog': c.network._connection_watchdog_task.is_running(),
            'parents': any(not t.done() for t in d._potential_parent_tasks),
            'pending': self.auto_login_pending and conn == 'CONNECTED',
        }

    def counters(self):
        return {'inits': self.inits, 'dests': self.dests, 'connects': self.attempts, 'logins': self.login_requests()}

    refused = 0
    auto_login_pending = False

    def lib_tasks(self):
        return sorted(t.get_name() for t in asyncio.all_tasks(self.w.loop) if not t.done() and t is not self._driver)

    _driver = None

    # ---- steps
    def do(self, step):
        """Run one step; returns the list of model outputs observed."""
        w, c = self.w, self.c
        kind = step[0]
        before = self.counters()
        extra = []
        if kind == 'start':
            w.server_accept = bool(step[1])
            n_out = len(w.net.outgoing)
            try:
                w.run(c.start())
            except Exception as e:
                if type(e).__name__ != 'ConnectionFailedError':
                    raise
            if self.st['dirs']:
                w.run(c.shares.scan())
            self.started = True
            w.settle(20)
        elif kind == 'login':
            self._login(step[1], None)
        elif kind == 'logincut':
            self._login('ok', step[1])
        elif kind == 'dist':
            # a distributed parameter, a privileged-users list and a joined room: server-derived state of every kind
            from aioslsk.protocol.messages import ParentMinSpeed, PrivilegedUsers, JoinRoom
            from aioslsk.protocol.primitives import UserStats
            w.server_send(ParentMinSpeed.Response(5), PrivilegedUsers.Response(['pinned']),
                          JoinRoom.Response('roomX', ['pinned'], [2], [UserStats(1, 1, 1, 1)], [1], ['NL']))
            w.settle(40)
        elif kind == 'parents':
            from aioslsk.protocol.messages import PotentialParents
            from aioslsk.protocol.primitives import PotentialParent
            w.server_send(PotentialParents.Response([PotentialParent('pp1', '9.9.9.9', 1234)]))
            w.settle(30)
        elif kind == 'parent_up':
            self._parent_up()
        elif kind == 'lost':
            self._lose(step[1])
        elif kind == 'lost_tracking':
            self._lose_tracking(step[1])
        elif kind == 'tick':
            w.server_accept = bool(step[1])
            n_out = len(w.net.outgoing)
            w.loop.run_for(RECONNECT_TIMEOUT + 1.0)
            w.settle(20)
            srv = w.settings.network.server
            if self.login_requests() > before['logins']:
                self.auto_login_pending = True
        elif kind == 'tickslow':
            # the watchdog's next attempt stays in flight (slow handshake)
            self.slow_mode = True
            w.loop.run_for(RECONNECT_TIMEOUT + 1.0)
            w.settle(20)
            self.slow_mode = False
        elif kind == 'connect_done':
            self._connect_done(bool(step[1]))
            w.settle(40)
            if self.login_requests() > before['logins']:
                self.auto_login_pending = True
        elif kind == 'command':
            from aioslsk.commands import JoinRoomCommand
            from aioslsk.exceptions import InvalidSessionError
            n0 = self.total_frames()
            try:
                w.run(c.execute(JoinRoomCommand('cmdroom')))
                w.settle(5)
                extra.append('OSent' if self.total_frames() > n0 or c.network.server_connection.state.name != 'CONNECTED' else 'OSentNothing')
            except InvalidSessionError:
                extra.append('ORefused' if self.total_frames() == n0 else 'ORefusedButSent')
        elif kind == 'stop':
            self._stop()
            if self.stop_info['exception']:
                extra.append('OStopRaised')
        else:
            raise AssertionError(step)
        if c.session is not None and kind in ('login', 'dist'):
            # users are held weakly by the UserManager: keep one alive from outside, so that "users cleared" is observable
            self.pins.append(c.users.get_user_object('pinned'))
        after = self.stop_counters if kind == 'stop' else self.counters()
        outs = []
        if kind in ('start', 'tick', 'tickslow', 'connect_done'):
            outs += ['OConnect'] * (after['connects'] - before['connects'])
        outs += ['OLoginSent'] * (after['logins'] - before['logins'])
        outs += ['OSessionInit'] * (after['inits'] - before['inits'])
        outs += ['OSessionDestroyed'] * (after['dests'] - before['dests'])
        if kind == 'login' and step[1] == 'ok' and after['inits'] > before['inits']:
            outs.append('OBurst')
        outs += extra
        return outs

    def _login(self, reply, cut):
        from aioslsk.protocol.messages import Login, ParentMinSpeed
        from vlib import fakes
        w, c = self.w, self.c
        ep = w.server
        inits0 = self.inits
        parent_at_login = self.has_parent()
        auto = self.auto_login_pending and c.network.server_connection.state.name == 'CONNECTED'
        self.auto_login_pending = False
        base = len(ep.frames()) - (1 if auto else 0)
        if cut is not None:
            def hook(data, ep=ep, k=cut, base=base):
                if len(fakes.split_frames(bytes(ep.written))) - base >= k + 1:   # login request + k burst frames
                    ep.drain_error = ConnectionResetError('cut')
            ep.on_data = hook
        t = None if auto else w.loop.create_task(c.login())
        w.loop.run_ready(10)
        if reply == 'ok':
            ep.feed(Login.Response(success=True, greeting='hi', ip='1.2.3.4', md5hash='x', privileged=False).serialize())
        elif reply == 'rejected':
            ep.feed(Login.Response(success=False, reason='INVALIDPASS').serialize())
        elif reply == 'garbled':
            ep.feed(b'\x05\x00\x00\x00\x01\x00\x00\x00\x01')      # login reply cut short after the success byte
        elif reply == 'wrongtype':
            ep.feed(ParentMinSpeed.Response(1).serialize())
        elif reply == 'eof':
            ep.feed_eof()
        w.loop.run_ready(120)
        self.login_task = t
        if t is not None and t.done() and not t.cancelled():
            t.exception()   # retrieve
        if reply == 'ok' and cut is None and self.inits > inits0:
            self.last_burst = [m for m in self.frames()[base + 1:]]
            self.bursts.append(self.last_burst)
            self.burst_parents.append(parent_at_login)

    def _connect_done(self, ok):
        from vlib import fakes
        w = self.w
        fut, self.slow_fut = self.slow_fut, None
        if fut is None or fut.done():
            return
        if ok:
            srv = w.settings.network.server
            ep = fakes.Endpoint(w.net, peername=(srv.hostname, srv.port), sockname=('10.0.0.1', 50001), label='server')
            w.server_eps.append(ep)
            fut.set_result(ep)
        else:
            fut.set_result(ConnectionRefusedError('server down'))

    PARENT = ('par', 3, 'rootuser')      # name, advertised branch level, advertised branch root

    def _parent_up(self):
        """a distributed parent: the server proposes a potential parent, the outgoing D connection is accepted and the
        peer advertises its branch position (the connection is independent of the server connection)"""
        from vlib import fakes
        from aioslsk.protocol.messages import PotentialParents, DistributedBranchLevel, DistributedBranchRoot
        from aioslsk.protocol.primitives import PotentialParent
        w = self.w
        if self.c.session is None or self.c.distributed_network.parent is not None:
            return
        eps = []

        def pc(h, p):
            ep = fakes.Endpoint(w.net, peername=(h, p), sockname=('10.0.0.1', 50002), label='parent')
            eps.append(ep)
            return ep
        old = w.peer_connect
        w.peer_connect = pc
        try:
            w.server_send(PotentialParents.Response([PotentialParent(self.PARENT[0], '9.9.9.8', 2234)]))
            w.settle(60)
            if eps:
                eps[0].feed(DistributedBranchLevel.Request(self.PARENT[1]).serialize())
                eps[0].feed(DistributedBranchRoot.Request(self.PARENT[2]).serialize())
                w.settle(80)
        finally:
            w.peer_connect = old
        self.parent_eps = eps

    def has_parent(self):
        return self.c.distributed_network.parent is not None

    def _lose(self, reason):
        from aioslsk.protocol.messages import Ping
        w, c = self.w, self.c
        ep = w.server
        pending_login = self.auto_login_pending and c.network.server_connection.state.name == 'CONNECTED'
        if pending_login and reason in ('EOF', 'READ_ERROR'):
            # the automatic re-login is reading its reply: that read notices the loss
            if reason == 'EOF':
                ep.feed_eof()
            else:
                ep.set_exception(ConnectionResetError('reset'))
        elif reason == 'EOF':
            if c.network.server_connection._reader_task is None:
                # no reader running (not logged in): the loss is noticed by the next read; use a send path instead
                ep.feed_eof()
                t = w.loop.create_task(c.network.server_connection.receive_message_object())
                w.loop.run_ready(60)
                if t.done() and not t.cancelled():
                    t.exception()
            else:
                ep.feed_eof()
        elif reason == 'READ_ERROR':
            ep.set_exception(ConnectionResetError('reset'))
            if c.network.server_connection._reader_task is None:
                t = w.loop.create_task(c.network.server_connection.receive_message_object())
                w.loop.run_ready(60)
                if t.done() and not t.cancelled():
                    t.exception()
        elif reason == 'WRITE_ERROR':
            ep.drain_error = ConnectionResetError('reset')
            t = w.loop.create_task(c.network.send_server_messages(Ping.Request(), raise_on_error=False))
            w.loop.run_ready(60)
        elif reason == 'TIMEOUT':
            ep.drain_hang = True
            t = w.loop.create_task(c.network.send_server_messages(Ping.Request(), raise_on_error=False))
            w.loop.run_for(10.5)
        elif reason == 'REQUESTED':
            w.run(c.network.disconnect_server())
        w.loop.run_ready(80)

    def _lose_tracking(self, reason):
        w, c = self.w, self.c
        ep = w.server
        if reason == 'WRITE_ERROR':
            ep.drain_error = ConnectionResetError('reset')
        else:
            ep.drain_hang = True
        w.run(c.users.track_user('newuser'))
        if reason == 'WRITE_ERROR':
            w.loop.run_ready(80)
        else:
            w.loop.run_for(10.5)
            w.loop.run_ready(80)

    def _stop(self):
        w, c = self.w, self.c
        exc = None
        t = w.loop.create_task(c.stop())
        self._driver = t
        w.loop.run_ready(400)
        if not t.done():
            w.loop.run_for(6.0)      # DISCONNECT_TIMEOUT at most
            w.loop.run_ready(200)
        returned = t.done()
        if returned and not t.cancelled() and t.exception() is not None:
            exc = f'{type(t.exception()).__name__}'
        tasks = self.lib_tasks() if returned else ['<stop() did not return>']
        self.stop_state = self.state()
        self.stop_counters = self.counters()
        open_eps = [i for i, ep in enumerate(w.server_eps) if not ep.client_closed]
        listeners = sorted(w.net.listeners)
        n_out = len(w.net.outgoing)
        attempts0 = self.attempts
        if self.slow_fut is not None and not self.slow_fut.done():
            self._connect_done(True)        # the handshake of the attempt that was in flight completes only now
            w.loop.run_ready(60)
            open_eps = [i for i, ep in enumerate(w.server_eps) if not ep.client_closed]
        # nothing may be opened later: let 200 virtual seconds pass
        w.server_accept = True
        w.loop.run_for(200.0)
        later = [(h, p) for h, p, _ in w.net.outgoing[n_out:]]
        if self.attempts > attempts0 and not later:
            later = [('server', 'attempt started')] * (self.attempts - attempts0)
        self.stop_info = {'returned': returned, 'exception': exc, 'tasks': tasks, 'open': open_eps, 'listeners': listeners,
                          'opened_later': later, 'tasks_later': self.lib_tasks()}

    def close(self):
        try:
            if not self.w.closed:
                try:
                    self.w.run(self.c.stop())
                except BaseException:
                    pass
                self.w.close()
        finally:
            shutil.rmtree(self.tmpd, ignore_errors=True)


def burst_order(st):
    """Frame types of the full burst for these settings (one clean run), to map a cut index to the
    handler that is sending when the connection breaks."""
    sim = Sim(st)
    try:
        sim.do(['start', True])
        sim.do(['login', 'ok'])
        return [type(m).__qualname__.split('.')[0] for m in sim.last_burst]
    finally:
        sim.close()


def run_scenario(sc):
    """-> list of per-step records {step, state, outs}, plus burst and stop info."""
    sim = Sim(sc['settings'], sc.get('env'))
    recs = []
    try:
        for step in sc['steps']:
            outs = sim.do(step)
            recs.append({'step': step, 'state': sim.stop_state if step[0] == 'stop' else sim.state(), 'outs': outs})
            if step[0] == 'stop':
                break
        late_ok = True
        if sim.late is not None:
            late_ok = (sim.late['inits'] == sim.inits - sim.late['base'][0] and sim.late['dests'] == sim.dests - sim.late['base'][1])
        return {'recs': recs, 'burst': sim.last_burst, 'bursts': sim.bursts, 'burst_parents': sim.burst_parents,
                'shares': sim.share_counts, 'stop': sim.stop_info, 'late_ok': late_ok}
    finally:
        sim.close()


# ----------------------------------------------------------------------------------------
# L3: the property text
# ----------------------------------------------------------------------------------------

def canon_burst(msgs):
    out = []
    for m in msgs:
        n = type(m).__qualname__.split('.')[0]
        if n == 'SetListenPort':
            out.append(('SetListenPort', m.port, m.obfuscated_port_amount, m.obfuscated_port))
        elif n == 'SetStatus':
            out.append(('SetStatus', m.status))
        elif n == 'AddUser':
            out.append(('AddUser', m.username))
        elif n == 'AddInterest':
            out.append(('AddInterest', m.interest))
        elif n == 'AddHatedInterest':
            out.append(('AddHatedInterest', m.hated_interest))
        elif n == 'TogglePrivateRoomInvites':
            out.append(('TogglePrivateRoomInvites', bool(m.enable)))
        elif n == 'JoinRoom':
            out.append(('JoinRoom', m.room))
        elif n == 'SharedFoldersFiles':
            out.append(('SharedFoldersFiles', m.shared_folder_count, m.shared_file_count))
        elif n == 'BranchLevel':
            out.append(('BranchLevel', m.level))
        elif n == 'BranchRoot':
            out.append(('BranchRoot', m.username))
        elif n == 'ToggleParentSearch':
            out.append(('ToggleParentSearch', bool(m.enable)))
        elif n == 'CheckPrivileges':
            out.append(('CheckPrivileges',))
        else:
            out.append((n, repr(m)))
    return sorted(out, key=repr)


def expected_burst(st, shares, parent=False):
    """What the settings say (property text), per category; the branch position is the top of the own branch (and looking for a
    parent) unless a distributed parent is connected: then one level below the parent, in its branch, not looking."""
    port, obf = st['ports']
    out = [('SetListenPort', port, 1 if obf else 0, obf), ('CheckPrivileges',), ('SetStatus', 2), ('AddUser', 'me'),
           ('TogglePrivateRoomInvites', st['invites']), ('SharedFoldersFiles', shares[0], shares[1])]
    if parent:
        out += [('BranchLevel', Sim.PARENT[1] + 1), ('BranchRoot', Sim.PARENT[2]), ('ToggleParentSearch', False)]
    else:
        out += [('BranchLevel', 0), ('BranchRoot', 'me'), ('ToggleParentSearch', True)]
    out += [('AddUser', f) for f in st['friends']]
    out += [('AddInterest', i) for i in st['liked']] + [('AddHatedInterest', i) for i in st['hated']]
    if st['auto_join']:
        out += [('JoinRoom', r) for r in st['favorites']]
    return sorted(out, key=repr)


def monitor(sc, res):
    """Property text on one run. Returns list of (key, what, detail)."""
    st = sc['settings']
    viol = []
    recs = res['recs']
    if not res.get('late_ok', True):
        viol.append(('late-listener-misses-session-events', 'a listener registered after the first login did not receive every later '
                     'SessionInitialized / SessionDestroyed event', {}))
    # --- burst
    for burst, par in zip(res['bursts'], res['burst_parents']):
        got = canon_burst(burst)
        exp = expected_burst(st, res['shares'], par)
        if got != exp:
            diff_got = [x for x in got if x not in exp]
            diff_exp = [x for x in exp if x not in got]
            join_got = [x for x in diff_got if x[0] == 'JoinRoom']
            join_exp = [x for x in diff_exp if x[0] == 'JoinRoom']
            if join_got or join_exp:
                inverted = ((st['auto_join'] and not join_got and sorted(x[1] for x in join_exp) == sorted(st['favorites'])) or
                            (not st['auto_join'] and not join_exp and sorted(x[1] for x in join_got) == sorted(st['favorites'])))
                viol.append((K_F19 if inverted else 'burst-mismatch',
                             'favourite rooms are joined at login exactly when rooms.auto_join is FALSE' if inverted else
                             'the JoinRoom frames sent after login differ from what the settings say',
                             {'extra': join_got, 'missing': join_exp}))
            rest_got = [x for x in diff_got if x[0] != 'JoinRoom']
            rest_exp = [x for x in diff_exp if x[0] != 'JoinRoom']
            if rest_got or rest_exp:
                stale = (not rest_got and all(x[0] == 'AddUser' for x in rest_exp) and
                         any(r['step'][0] in ('logincut', 'lost_tracking') for r in recs))
                if stale:
                    viol.append((K_CUT if any(r['step'][0] == 'logincut' for r in recs) else K_TRK,
                                 'tracking entries left over from a session that was lost half-way suppress the AddUser requests of the next login',
                                 {'missing': rest_exp}))
                elif all(x[0] in ('BranchLevel', 'BranchRoot', 'ToggleParentSearch') for x in rest_got + rest_exp):
                    viol.append(('burst-branch-position', 'the branch position advertised at login is not the current one '
                                 f'(distributed parent connected: {par})', {'extra': rest_got, 'missing': rest_exp}))
                else:
                    viol.append(('burst-mismatch', 'the frames sent after login differ from what the settings say',
                                 {'extra': rest_got, 'missing': rest_exp}))
    # --- per step
    had_session = False
    prev = {'conn': 'Uninit', 'session': False, 'watchdog': False}
    for i, r in enumerate(recs):
        step, s, outs = r['step'], r['state'], r['outs']
        kind = step[0]
        if kind == 'command':
            if prev['session'] and 'ORefused' in outs:
                viol.append(('command-refused-with-session', 'a command was refused although a session exists', {'step': i}))
            if not prev['session'] and 'ORefused' not in outs:
                viol.append(('command-without-session', 'a command was accepted / sent without a session', {'step': i, 'outs': outs}))
        lost_now = kind in ('lost', 'lost_tracking', 'logincut') or (kind == 'login' and step[1] == 'eof') or kind == 'stop'
        if lost_now and s['conn'] != 'Connected':
            destroyed = outs.count('OSessionDestroyed')
            should = 1 if (prev['session'] or kind == 'logincut') else 0
            leftovers = [k for k in ('session', 'msession', 'derived', 'dist') if s[k]]
            if destroyed != should or leftovers:
                cut_shape = destroyed == should and set(leftovers) <= {'msession', 'derived'}
                if cut_shape and (kind == 'logincut' or any(p['step'][0] == 'logincut' for p in recs[:i])):
                    key = K_CUT
                    what = ('connection lost while the SessionInitialized handlers are sending: handlers after the failing one '
                            'still run on the dead connection and re-install session copies / tracking that are never cleared')
                elif kind == 'lost_tracking' or any(p['step'][0] == 'lost_tracking' for p in recs[:i]):
                    key = K_TRK
                    what = ('write error noticed inside a user tracking task: the loss is not notified completely '
                            '(session / users / rooms not reset exactly once)')
                else:
                    key = 'loss-not-reset'
                    what = 'after the server connection was lost the session / server-derived state is not cleared exactly once'
                viol.append((key, what, {'step': i, 'destroyed_events': destroyed, 'expected': should, 'left': leftovers}))
        if kind == 'tick':
            reconnect_expected = st['reconnect'] and prev.get('loss_reason') in ('READ_ERROR', 'WRITE_ERROR', 'TIMEOUT') and not prev.get('stopped')
            happened = 'OConnect' in outs
            if prev['conn'] == 'Closed' and happened != bool(reconnect_expected):
                if happened and prev.get('stopped'):
                    pass        # reported by the stop clause below
                elif prev.get('after_tracking'):
                    pass
                else:
                    viol.append(('reconnect-decision', f'reconnect {"happened" if happened else "did not happen"} after loss reason '
                                 f'{prev.get("loss_reason")} with auto={st["reconnect"]}', {'step': i}))
            if happened and s['conn'] == 'Connected' and st['reconnect'] and 'OLoginSent' not in outs:
                viol.append(('reconnect-without-login', 'the watchdog re-connected to the server but no new login was sent', {'step': i}))
        if kind == 'login' and step[1] == 'ok' and prev['session'] and 'OSessionInit' in outs:
            viol.append((K_TRK if any(p['step'][0] == 'lost_tracking' for p in recs[:i]) else 'session-replaced-without-destroy',
                         'a new session was initialised while the previous one was never destroyed', {'step': i}))
        # bookkeeping
        nxt = dict(prev)
        nxt.update(conn=s['conn'], session=s['session'], watchdog=s['watchdog'])
        if kind == 'lost':
            if prev['conn'] == 'Connected':
                nxt['loss_reason'] = step[1]
                nxt['after_tracking'] = False
        elif kind == 'lost_tracking':
            if prev['conn'] == 'Connected' and s['conn'] == 'Closed':
                nxt['loss_reason'] = step[1]
                nxt['after_tracking'] = True
        elif kind == 'logincut':
            if prev['conn'] == 'Connected':
                nxt['loss_reason'] = 'WRITE_ERROR'
        elif kind == 'login' and step[1] == 'eof':
            if prev['conn'] == 'Connected':
                nxt['loss_reason'] = 'EOF'
        elif kind == 'start' and not step[1]:
            if prev['conn'] == 'Uninit':
                nxt['loss_reason'] = 'CONNECT_FAILED'
        elif s['conn'] == 'Connected':
            nxt['loss_reason'] = None
        prev = nxt
    # --- stop is final
    si = res['stop']
    if si is not None:
        bad = []
        if not si['returned']:
            bad.append('stop() did not return')
        if si['exception']:
            bad.append(f'stop() raised {si["exception"]}')
        if si['open']:
            bad.append('server connection still open')
        if si['listeners']:
            bad.append('listening ports still open')
        if si['tasks']:
            bad.append(f'tasks pending: {si["tasks"]}')
        if si['opened_later']:
            bad.append(f'connections opened later: {si["opened_later"]}')
        if bad:
            steps = [r['step'] for r in recs]
            kinds = [x[0] for x in steps]
            dist_only = bool(si['tasks']) and all(t.startswith(('potential-parent-', 'direct-connect-pp1-D', 'indirect-connect-pp1-D')) for t in si['tasks'])
            wd_only = all(t in ('server-connection-watchdog-task', 'server-ping-task') or t.startswith('Task-') for t in si['tasks'])
            stop_idx = kinds.index('stop')
            conn_before = recs[stop_idx - 1]['state'] if stop_idx else {'conn': 'Uninit', 'watchdog': False}
            if 'lost_tracking' in kinds:
                key, what = K_TRK, ('the tracking worker that noticed the loss of the server connection (failed write) gets the write error instead of '
                                    'the cancellation, is dropped from the registry and keeps retrying: still pending after stop()')
            elif (conn_before['conn'] == 'Closed' and conn_before['watchdog'] and not si['exception'] and not si['listeners'] and
                  ('server-connection-watchdog-task' in si['tasks'] or si['opened_later'])):
                key, what = K_WD, ('stop() while the server connection is CLOSED after an unrequested loss: disconnect() returns early, the '
                                   'reconnect watchdog is never cancelled and reconnects after stop() returned')
                if 'parents' in kinds and not wd_only:
                    what += ' (potential-parent tasks pending as well: F20)'
            elif ('parents' in kinds and dist_only and not any(t.startswith('potential-parent-') for t in si['tasks']) and
                  not si['exception'] and not si['open'] and not si['listeners'] and not si['opened_later']):
                key, what = 'cancelled-connect-race-leaves-children', ('the potential-parent task was cancelled by stop(), but the direct/indirect '
                                                                       'connect tasks it had started are still pending when stop() returns')
            elif 'parents' in kinds and dist_only and not si['exception'] and not si['open'] and not si['listeners'] and not si['opened_later']:
                key, what = K_F20, ('DistributedNetwork is not in SoulSeekClient.services: stop() does not cancel the potential-parent '
                                    'connect tasks, they are still pending when stop() returns')
            else:
                key, what = 'stop-not-final', 'after stop() returned: ' + '; '.join(bad)
            viol.append((key, what, {'problems': bad}))
    return viol


# ----------------------------------------------------------------------------------------
# generation
# ----------------------------------------------------------------------------------------

def gen_settings(rng):
    return {
        'ports': list(rng.choice(PORTS)),
        'friends': sorted(rng.sample(FRIENDS, rng.randrange(0, 3))),
        'liked': sorted(rng.sample(LIKED, rng.randrange(0, 3))),
        'hated': sorted(rng.sample(HATED, rng.randrange(0, 2))),
        'favorites': sorted(rng.sample(FAVS, rng.randrange(0, 3))),
        'auto_join': rng.random() < 0.5,
        'invites': rng.random() < 0.5,
        'reconnect': rng.random() < 0.6,
        'dirs': rng.randrange(0, 3),
    }


REASONS = ['EOF', 'READ_ERROR', 'WRITE_ERROR', 'TIMEOUT', 'REQUESTED']


def gen_steps(rng, st, cut_sites):
    """A life: start, login variant, background work, loss at some point, reconnect, stop at some point."""
    steps = []
    if rng.random() < 0.12:
        steps.append(['start', False])
        steps += rng.choice([[['tick', True]], [['command']], []])
        steps.append(['stop'])
        return steps
    steps.append(['start', True])
    r = rng.random()
    if r < 0.08:
        steps.append(['command'])
    if r < 0.15:            # loss / stop before login
        steps += rng.choice([[['lost', rng.choice(REASONS)], ['tick', True]], [['stop']], [['command'], ['stop']]])
        if steps[-1][0] != 'stop':
            steps += rng.choice([[['stop']], [['login', 'ok'], ['stop']], [['tick', False], ['stop']]])
        return steps
    reply = rng.choice(['ok'] * 6 + ['rejected', 'garbled', 'wrongtype', 'eof'])
    if reply == 'ok' and cut_sites and rng.random() < 0.22:
        steps.append(['logincut', rng.choice(cut_sites)])
        steps += rng.choice([[['tick', True], ['login', 'ok']], [['command']], [['tick', False]], []])
        steps.append(['stop'])
        return steps
    steps.append(['login', reply])
    if reply != 'ok':
        steps += rng.choice([[['command']], [['login', 'ok'], ['command']], [['tick', True]], []])
        steps.append(['stop'])
        return steps
    for _ in range(rng.randrange(0, 3)):
        steps.append(rng.choice([['dist'], ['parents'], ['command']]))
    r = rng.random()
    if r < 0.2:
        steps.append(['stop'])
        return steps
    if r < 0.32:
        steps.append(['lost_tracking', rng.choice(['WRITE_ERROR', 'TIMEOUT'])])
        steps += rng.choice([[['stop']], [['tick', True], ['login', 'ok'], ['stop']], [['command'], ['stop']]])
        return steps
    steps.append(['lost', rng.choice(REASONS)])
    steps += rng.choice([[['command']], []])
    r = rng.random()
    if r < 0.3:
        steps.append(['stop'])
        return steps
    steps.append(['tick', rng.random() < 0.8])
    if rng.random() < 0.7:
        steps.append(['login', rng.choice(['ok', 'ok', 'ok', 'rejected', 'eof'])])
        steps += rng.choice([[['command']], [['dist']], [['lost', rng.choice(REASONS)], ['tick', True]], []])
    steps.append(['stop'])
    return steps


# ----------------------------------------------------------------------------------------
# model side
# ----------------------------------------------------------------------------------------

def _b(x):
    return 'true' if x else 'false'


def _l(xs):
    return '[' + ';'.join(xs) + ']'


REASON_COQ = {'EOF': 'REof', 'READ_ERROR': 'RRead', 'WRITE_ERROR': 'RWrite', 'TIMEOUT': 'RTimeout', 'REQUESTED': 'RRequested'}
REPLY_COQ = {'ok': 'RepOk', 'rejected': 'RepRejected', 'garbled': 'RepGarbled', 'wrongtype': 'RepGarbled', 'eof': 'RepEof'}


def coq_event(step, sites):
    k = step[0]
    if k == 'start':
        return f'Start {_b(step[1])}'
    if k == 'login':
        return f'Login {REPLY_COQ[step[1]]}'
    if k == 'logincut':
        return f'LoginCut {sites[step[1]]}'
    if k == 'dist':
        return 'Dist'
    if k == 'parents':
        return 'Parents'
    if k == 'parent_up':
        return 'ParentUp'
    if k == 'lost':
        return f'Lost {REASON_COQ[step[1]]}'
    if k == 'lost_tracking':
        return f'LostInTracking {REASON_COQ[step[1]]}'
    if k == 'tick':
        return f'Tick {_b(step[1])}'
    if k == 'tickslow':
        return 'TickSlow'
    if k == 'connect_done':
        return f'ConnectDone {_b(step[1])}'
    if k == 'command':
        return 'Command'
    if k == 'stop':
        return 'Stop'
    raise AssertionError(step)


def coq_state(s, wedged, stopped):
    return (f'mkSt {s["conn"]} {_b(s["session"])} {_b(s["msession"])} {_b(s["derived"])} {_b(s["dist"])} {_b(s["watchdog"])} '
            f'{_b(s["parents"])} {_b(stopped)} {_b(s["pending"])}')


def coq_bmsg(t):
    n = t[0]
    if n == 'SetListenPort':
        return f'SetListenPort {PORTID.get(t[1], 9)} {t[2]} {PORTID.get(t[3], 9)}'
    if n == 'SetStatus':
        return 'SetStatusOnline' if t[1] == 2 else f'AddUser 999'
    if n == 'AddUser':
        return f'AddUser {IDS[t[1]]}'
    if n == 'AddInterest':
        return f'AddInterest {IDS[t[1]]}'
    if n == 'AddHatedInterest':
        return f'AddHatedInterest {IDS[t[1]]}'
    if n == 'TogglePrivateRoomInvites':
        return f'TogglePrivateRoomInvites {_b(t[1])}'
    if n == 'JoinRoom':
        return f'JoinRoom {IDS[t[1]]}'
    if n == 'SharedFoldersFiles':
        return f'SharedFoldersFiles {t[1]} {t[2]}'
    if n == 'BranchLevel':
        return f'BranchLevel {t[1]}'
    if n == 'BranchRoot':
        return f'BranchRoot {IDS[t[1]]}'
    if n == 'ToggleParentSearch':
        return f'ToggleParentSearch {_b(t[1])}'
    if n == 'CheckPrivileges':
        return 'CheckPrivileges'
    return 'AddUser 998'      # something the model never sends


HEADER = r'''From Coq Require Import List Bool Arith.
From Slsk Require Import C16.Model.
Import ListNotations.
Definition beq (a b : bmsg) : bool := match a, b with
 | SetListenPort a1 a2 a3, SetListenPort b1 b2 b3 => Nat.eqb a1 b1 && Nat.eqb a2 b2 && Nat.eqb a3 b3
 | CheckPrivileges, CheckPrivileges | SetStatusOnline, SetStatusOnline => true
 | AddUser a, AddUser b | AddInterest a, AddInterest b | AddHatedInterest a, AddHatedInterest b | JoinRoom a, JoinRoom b
 | BranchLevel a, BranchLevel b | BranchRoot a, BranchRoot b => Nat.eqb a b
 | TogglePrivateRoomInvites a, TogglePrivateRoomInvites b | ToggleParentSearch a, ToggleParentSearch b => Bool.eqb a b
 | SharedFoldersFiles a1 a2, SharedFoldersFiles b1 b2 => Nat.eqb a1 b1 && Nat.eqb a2 b2
 | _, _ => false end.
Fixpoint remove1 (x : bmsg) (l : list bmsg) : option (list bmsg) :=
  match l with [] => None | y :: r => if beq x y then Some r else match remove1 x r with Some r' => Some (y :: r') | None => None end end.
Fixpoint msub (a b : list bmsg) : bool := match a with [] => true | x :: r => match remove1 x b with Some b' => msub r b' | None => false end end.
Definition mseq (a b : list bmsg) : bool := Nat.eqb (length a) (length b) && msub a b.
Definition ceq (a b : cstate) := match a, b with Uninit, Uninit | Connecting, Connecting | Connected, Connected | Closed, Closed => true | _, _ => false end.
Definition steq (a b : st) := ceq (conn a) (conn b) && Bool.eqb (session a) (session b) && Bool.eqb (msession a) (msession b)
  && Bool.eqb (derived a) (derived b) && Bool.eqb (dist a) (dist b) && Bool.eqb (watchdog a) (watchdog b) && Bool.eqb (parents a) (parents b)
  && Bool.eqb (stopped a) (stopped b) && Bool.eqb (pending a) (pending b).
Definition oidx (o : out) : nat := match o with OSessionInit => 0 | OSessionDestroyed => 1 | OBurst => 2 | ORefused => 3 | OSent => 4 | OConnect => 5 | OLoginSent => 6 | OIgnored => 7 | OStopRaised => 8 end.
Definition visible (o : out) := negb (Nat.eqb (oidx o) 7).
Fixpoint cnt (n : nat) (l : list out) := match l with [] => 0 | o :: r => (if Nat.eqb (oidx o) n then 1 else 0) + cnt n r end.
Definition outeq (a b : list out) := forallb (fun n => Nat.eqb (cnt n (filter visible a)) (cnt n b)) [0;1;2;3;4;5;6;8].
Fixpoint firstdiff (n : nat) (a b : list (st * list out)) : nat :=
  match a, b with
  | [], [] => 99
  | x :: a, y :: b => if steq (fst x) (fst y) && outeq (snd x) (snd y) then firstdiff (S n) a b else n
  | _, _ => n
  end.
'''


def coq_cases(cases):
    rows = []
    brows = []
    for idx, (sc, res, sites) in enumerate(cases):
        evs = _l(coq_event(r['step'], sites) for r in res['recs'])
        exp = []
        wedged = stopped = False
        for r in res['recs']:
            if r['step'][0] == 'lost_tracking' and r['state']['conn'] == 'Closed':
                wedged = True
            if r['step'][0] == 'stop':
                stopped = True
            exp.append(f'({coq_state(r["state"], wedged, stopped)},{_l(r["outs"])})')
        rows.append(f' ({idx}, {_b(sc["settings"]["reconnect"])}, {evs},\n   {_l(exp)})')
        if res['burst'] is not None and not any(r['step'][0] in ('logincut', 'lost_tracking') for r in res['recs']):
            st = sc['settings']
            sett = (f'mkSettings {PORTID[st["ports"][0]]} {PORTID[st["ports"][1]]} {_l(str(IDS[x]) for x in st["friends"])} {_l(str(IDS[x]) for x in st["liked"])} '
                    f'{_l(str(IDS[x]) for x in st["hated"])} {_l(str(IDS[x]) for x in st["favorites"])} {_b(st["auto_join"])} {_b(st["invites"])} {_b(st["reconnect"])}')
            got = _l(coq_bmsg(t) for t in canon_burst(res['burst']))
            par = f'(Some ({Sim.PARENT[1]}, {IDS[Sim.PARENT[2]]}))' if res['burst_parents'][-1] else 'None'
            brows.append(f' ({idx}, {sett}, ({PORTID[st["ports"][0]]},{PORTID[st["ports"][1]]}), ({res["shares"][0]},{res["shares"][1]}), {par}, {got})')
    body = ('Definition cases : list (nat * bool * list event * list (st * list out)) := [\n' + ';\n'.join(rows) + '].\n'
            'Definition res := map (fun c => match c with (i, auto, es, ex) => (i, firstdiff 0 (trace auto init es) ex) end) cases.\n'
            'Definition bad := filter (fun p => negb (Nat.eqb (snd p) 99)) res.\n'
            'Eval vm_compute in (map fst bad).\nEval vm_compute in (map snd bad).\n'
            'Definition bcases : list (nat * settings * (nat * nat) * (nat * nat) * option (nat * nat) * list bmsg) := [\n' + ';\n'.join(brows) + '].\n'
            'Definition bbad := filter (fun c => match c with (i, s, p, sh, par, got) => negb (mseq (login_burst s p sh par) got) end) bcases.\n'
            'Eval vm_compute in (map (fun c => match c with (i, _, _, _, _, _) => i end) bbad).\n')
    return HEADER + body


def model_check(cases, tag='c16'):
    shard = 120
    texts = [coq_cases(cases[i:i + shard]) for i in range(0, len(cases), shard)]
    outs = coq_eval_many(tag, texts, timeout=600)
    bad, bbad = [], []
    for k, out in enumerate(outs):
        vals = parse_eval(out)
        if len(vals) < 3:
            raise BrokenTie('correspondence:C16', f'no output from shard {k}: {out[:300]}')
        for a, b in zip(parse_coq_list(vals[0]), parse_coq_list(vals[1])):
            bad.append((k * shard + int(a), int(b)))
        for a in parse_coq_list(vals[2]):
            bbad.append(k * shard + int(a))
    return bad, bbad


# ----------------------------------------------------------------------------------------

_site_cache = {}


def cut_sites_for(st):
    """cut index k -> handler whose send breaks (indices where a tracking task would be the sender are
    excluded: that situation is the separate event LostInTracking)."""
    key = repr(sorted(st.items()))
    if key not in _site_cache:
        order = burst_order(st)
        # the hook arms the write error while burst frame number k (1-based) is written: its own drain() raises
        _site_cache[key] = {k + 1: HANDLER_OF[n] for k, n in enumerate(order) if HANDLER_OF.get(n, 'TRACKING') != 'TRACKING'}
    return _site_cache[key]


def explore(run, sc, cases, kind):
    st = sc['settings']
    sites = cut_sites_for(st) if any(s[0] == 'logincut' for s in sc['steps']) else {}
    try:
        res = run_scenario(sc)
    except Exception as e:
        run.add_finding(Finding('harness-or-client-crash', f'{type(e).__name__}: {e}', sc))
        return None
    kinds = [s[0] for s in sc['steps']]
    run.case(sc, nontrivial=len(sc['steps']) >= 3, kind=kind)
    for k in kinds:
        run.count('step:' + k)
    cases.append((sc, res, sites))
    viol = monitor(sc, res)
    for key, what, detail in viol:
        run.add_finding(Finding(key, what, sc, observed=detail))
    return viol


def run(run: Run):
    run.rule = ('scenario = settings (4 listening-port configurations, 0..2 friends, liked/hated interests, 0..2 favourites, auto_join, '
                'invites, reconnect, 0..2 shared directories) x life (start ok/refused, login ok/rejected/garbled/wrong type/EOF, loss '
                'during the login burst at a random frame, server parameters / potential parents pending, loss with each close reason '
                'from reader, sender, tracking task or disconnect_server(), watchdog period with server up/down, re-login, commands, '
                'stop() at every point, then 200 virtual seconds); distinct = distinct scenario; non-trivial = at least 3 steps')
    run.trusted += ['virtual-time loop and fake transports (vlib): real sockets, UPnP and thread executors are not exercised',
                    'listening error_mode=ANY so that 0..2 ports can be configured; shares counts are computed from the files the harness creates']
    run.assumptions += ['the server accepts or refuses connects atomically; write errors surface from drain()']
    proved = run.prove(['tr_session'])

    import sys
    sys.unraisablehook = lambda *a: None     # coroutines of a deliberately wedged client are dropped with the loop
    cases = []
    seen_keys = set()
    # listed findings: replay the stored witnesses first
    for key, wit, _fixed in run.known_witnesses():
        v = explore(run, wit, cases, 'corpus') or []
        seen_keys |= {k for k, _, _ in v}

    rng = run.rng
    # the settings product for the burst (all port configurations x auto_join x invites, other fields random)
    for ports in PORTS:
        for aj in (False, True):
            st = gen_settings(rng)
            st['ports'] = list(ports)
            st['auto_join'] = aj
            explore(run, {'settings': st, 'steps': [['start', True], ['login', 'ok'], ['command'], ['stop']]}, cases, 'burst')
    # systematic part of the quantifier: every close reason at every point, followed by reconnect period or by stop()
    base = {'ports': [60000, 60001], 'friends': ['f1'], 'liked': ['jazz'], 'hated': [], 'favorites': [], 'auto_join': True,
            'invites': True, 'reconnect': True, 'dirs': 0}
    points = {'idle': [['login', 'ok']], 'prelogin': [], 'pending': [['login', 'ok'], ['parents']], 'derived': [['login', 'ok'], ['dist']]}
    for rec in (True, False):
        for pname, pre in points.items():
            if run.tier == 'quick' and pname in ('pending', 'derived') and not rec:
                continue
            for reason in REASONS:
                st = dict(base, reconnect=rec)
                explore(run, {'settings': st, 'steps': [['start', True]] + pre + [['lost', reason], ['command'], ['tick', True], ['login', 'ok'], ['stop']]},
                        cases, 'loss:' + pname)
                explore(run, {'settings': st, 'steps': [['start', True]] + pre + [['lost', reason], ['stop']]}, cases, 'loss+stop:' + pname)
    # the automatic re-login after an unrequested loss is answered by EOF / rejection / garbage; then the next watchdog periods
    for reason in (('READ_ERROR',) if run.tier == 'quick' else ('READ_ERROR', 'WRITE_ERROR', 'TIMEOUT')):
        for reply in ('eof', 'rejected', 'garbled'):
            st = dict(base, reconnect=True)
            explore(run, {'settings': st, 'steps': [['start', True], ['login', 'ok'], ['lost', reason], ['tick', True], ['login', reply],
                                                     ['command'], ['tick', True], ['tick', True], ['stop']]}, cases, 'relogin:' + reply)
    # the server is still down at the first watchdog periods after an unrequested loss
    for reason in ('READ_ERROR', 'WRITE_ERROR', 'TIMEOUT'):
        st = dict(base, reconnect=True)
        explore(run, {'settings': st, 'steps': [['start', True], ['login', 'ok'], ['lost', reason], ['tick', False], ['command'], ['tick', False],
                                                 ['tick', True], ['login', 'ok'], ['command'], ['stop']]}, cases, 'server-down-then-up')
    # the watchdog's reconnect attempt is in flight (slow handshake): stop() in that window, or the attempt completes / is refused
    for reason in (('READ_ERROR',) if run.tier == 'quick' else ('READ_ERROR', 'WRITE_ERROR', 'TIMEOUT')):
        st = dict(base, reconnect=True)
        pre = [['start', True], ['login', 'ok'], ['lost', reason], ['tickslow']]
        explore(run, {'settings': st, 'steps': pre + [['command'], ['stop']]}, cases, 'attempt-in-flight')
        explore(run, {'settings': st, 'steps': pre + [['connect_done', True], ['login', 'ok'], ['command'], ['stop']]}, cases, 'attempt-in-flight')
        explore(run, {'settings': st, 'steps': pre + [['connect_done', False], ['tick', True], ['login', 'ok'], ['stop']]}, cases, 'attempt-in-flight')
        explore(run, {'settings': st, 'steps': [['start', True], ['login', 'ok'], ['parents'], ['lost', reason], ['tickslow'], ['stop']]}, cases, 'attempt-in-flight')
    # helper-exercising environments: raising / suspending application listeners in front of the library's own, a listener
    # registered late, settings sub-objects replaced as a whole
    for env in ('raising', 'suspending', 'late', 'replaced'):
        st = dict(base, reconnect=True, favorites=['roomA'], friends=['f1', 'f2'])
        explore(run, {'settings': st, 'env': env, 'steps': [['start', True], ['login', 'ok'], ['dist'], ['lost', 'READ_ERROR'], ['command'],
                                                             ['tick', True], ['login', 'ok'], ['command'], ['stop']]}, cases, 'env:' + env)
        explore(run, {'settings': st, 'env': env, 'steps': [['start', True], ['login', 'ok'], ['parents'], ['lost_tracking', 'WRITE_ERROR'],
                                                             ['tick', False], ['stop']]}, cases, 'env:' + env)
        if run.tier != 'quick' or not proved:
            for reason in REASONS:
                explore(run, {'settings': dict(st, reconnect=False), 'env': env,
                              'steps': [['start', True], ['login', 'ok'], ['dist'], ['lost', reason], ['command'], ['stop']]}, cases, 'env:' + env)
            explore(run, {'settings': st, 'env': env, 'steps': [['start', True], ['login', 'rejected'], ['login', 'ok'], ['stop']]}, cases, 'env:' + env)
    # a distributed parent is connected when the client logs in again (after a loss, manually or by the watchdog)
    for rec in (True, False):
        st = dict(base, reconnect=rec)
        steps = [['start', True], ['login', 'ok'], ['parent_up'], ['lost', 'READ_ERROR' if rec else 'REQUESTED']]
        steps += [['tick', True], ['login', 'ok'], ['stop']] if rec else [['stop']]
        explore(run, {'settings': st, 'steps': steps}, cases, 'relogin-with-parent')
    # the connection is lost again while the automatic re-login waits for its reply
    for reason in REASONS:
        st = dict(base, reconnect=True)
        explore(run, {'settings': st, 'steps': [['start', True], ['login', 'ok'], ['lost', 'READ_ERROR'], ['tick', True], ['lost', reason],
                                                 ['command'], ['tick', True], ['login', 'ok'], ['stop']]}, cases, 'loss-while-relogin-pending')
    # tracking workers in their retry period (no AddUser reply for 10 s) when the client stops / loses the connection
    for rec in (True, False):
        st = dict(base, reconnect=rec)
        explore(run, {'settings': st, 'steps': [['start', True], ['login', 'ok'], ['tick', True], ['command'], ['stop']]}, cases, 'retry-pending')
        explore(run, {'settings': st, 'steps': [['start', True], ['login', 'ok'], ['tick', True], ['lost', 'READ_ERROR'], ['tick', True], ['stop']]},
                cases, 'retry-pending')
    # the connection breaks at every frame of the burst
    st = dict(base, reconnect=False, favorites=['roomA'], auto_join=False)
    for k in sorted(cut_sites_for(st)):
        explore(run, {'settings': st, 'steps': [['start', True], ['logincut', k], ['command'], ['stop']]}, cases, 'burst-cut')
    n = 25 if run.tier == "quick" else 1500
    for i in range(n):
        st = gen_settings(rng)
        sites = cut_sites_for(st) if rng.random() < 0.3 else {}
        steps = gen_steps(rng, st, sorted(sites))
        explore(run, {'settings': st, 'steps': steps}, cases, 'life')

    try:
        bad, bbad = model_check(cases)
        for ci, step in bad[:1]:
            sc, res, _ = cases[ci]
            run.add_broken('correspondence:C16 session machine (trace) vs SoulSeekClient',
                           f'first diverging scenario: {sc} step={step} impl={res["recs"][min(step, len(res["recs"]) - 1)]}')
        for ci in bbad[:1]:
            sc, res, _ = cases[ci]
            run.add_broken('correspondence:C16 login_burst vs frames at the server',
                           f'settings={sc["settings"]} frames={canon_burst(res["burst"])}')
        run.cov['traces_validated_against_impl'] = len(cases) - len(bad)
        run.cov['bursts_validated_against_impl'] = sum(1 for c in cases if c[1]['burst'] is not None) - len(bbad)
    except BrokenTie as e:
        run.add_broken(e.obligation, e.detail)


def replay(rep) -> int:
    sc = rep['witness']
    res = run_scenario(sc)
    print('settings:', sc['settings'])
    for r in res['recs']:
        print('  ', r['step'], '->', r['state'], r['outs'])
    if res['burst'] is not None:
        print('burst:', canon_burst(res['burst']))
        print('expected:', expected_burst(sc['settings'], res['shares']))
    print('stop:', res['stop'])
    v = monitor(sc, res)
    for key, what, detail in v:
        print('VIOLATES', key, '-', what, detail)
    return 1 if v else 0
