"""C10 — connection life cycle is monotone and the connection registry is exact.

L1  theories/C10/Props.v: theorems over all event lists of the connection machine (Model.v).
L2  correspondence: scenarios (systematic product of end causes x kind x clear/obfuscated x type x
    position of a concurrent disconnect(), plus seeded random action lists) are executed on the real
    PeerConnection / ServerConnection / ListeningConnection / Network code over vlib.fakes under the
    virtual-time loop (checks/c10_sim.py) and on the model (`run_actions`, vm_compute); compared per
    action (state, registry membership, number of reports, deliveries) and at the end (report stream,
    writer, reader task, peer-connection-state, outcome of the attempt coroutine).
L3  monitor = the property text on every implementation trace (monotone, closed once and last, no
    delivery / no bytes after CLOSED, registry exact at quiescence).
"""
from __future__ import annotations

import json

from vlib.common import Run, Finding, BrokenTie, coq_eval_many, parse_eval, parse_coq_list, listlit, blit, natlit
from checks import c10_sim

RANK = {'UNINITIALIZED': 0, 'CONNECTING': 1, 'CONNECTED': 2, 'CLOSING': 3, 'CLOSED': 4}
COQ_ST = {'UNINITIALIZED': 'UNINIT', 'CONNECTING': 'CONNECTING', 'CONNECTED': 'CONNECTED', 'CLOSING': 'CLOSING', 'CLOSED': 'CLOSED', '-': 'UNINIT'}
COQ_PCS = {'AWAITING_INIT': 'AwaitInit', 'ESTABLISHED': 'Established', 'NEGOTIATING_TRANSFER': 'Negotiating',
           'TRANSFERRING': 'Transferring', '-': 'AwaitInit'}
COQ_KIND = {'out': 'Outgoing', 'resp': 'Outgoing', 'server': 'Server', 'in': 'Incoming'}

F14 = 'F14-accept-reports-CONNECTED-after-close'
F15 = 'F15-cancelled-connect-stays-CONNECTING-and-registered'
N1 = 'C10-N1-connect-completes-after-concurrent-disconnect'
N2 = 'C10-N2-accepted-connection-closed-by-listener-stays-registered'


# ---------------------------------------------------------------------------------------
# monitor: the property text on one implementation trace
# ---------------------------------------------------------------------------------------

def chain_ok(kind, rep):
    for a, b in zip(rep, rep[1:]):
        if RANK[a] < RANK[b]:
            continue
        if kind == 'server' and a == 'CLOSED' and b == 'CONNECTING':
            continue
        return False
    return True


def closed_last_ok(kind, rep):
    if kind == 'server':
        return all(b == 'CONNECTING' for a, b in zip(rep, rep[1:]) if a == 'CLOSED')
    return rep.count('CLOSED') <= 1 and ('CLOSED' not in rep or rep[-1] == 'CLOSED')


def monitor(sc, r):
    """-> list of (check, detail)"""
    kind = sc['kind']
    rep = r['reported']
    v = []
    if not chain_ok(kind, rep):
        v.append(('monotone', rep))
    if not closed_last_ok(kind, rep):
        v.append(('closed_once_last', rep))
    if kind != 'server' and r['delivered_after_closed']:
        v.append(('no_delivery_after_closed', r['delivered_after_closed']))
    elif r['delivered_while_closing']:
        # "Do not handle messages when closing/closed": nothing is delivered once CLOSING was reported (theorem C10_closing_state_inert)
        v.append(('no_delivery_once_closing', r['delivered_while_closing']))
    ag = r.get('after_grace')
    if ag and ag['reported'] != rep and (not chain_ok(kind, ag['reported']) or not closed_last_ok(kind, ag['reported'])):
        # what a disconnect() still in flight at the end of the scenario goes on to report
        v.append(('closed_once_last' if chain_ok(kind, ag['reported']) else 'monotone', ag['reported']))
    if ag and ag['state'] == 'CLOSING':
        v.append(('closing_reaches_closed', {'state_after_disconnect_timeout': ag['state'], 'in_registry': ag['in_registry'], 'reported': rep}))
    if kind != 'server' and r['written_at_closed'] is not None and r['written'] > r['written_at_closed']:
        v.append(('send_after_closed_noop', [r['written_at_closed'], r['written']]))
    # registry at quiescence: end of the scenario, nothing runnable (settled), no close in progress
    if kind != 'server' and not r['close_pending'] and rep is not None:
        should = r['writer_open'] or (r['in_open_connection'] and r['state'] == 'CONNECTING')
        if r['in_registry'] != should and r['nconns_seen'] + r['registry_size'] > 0:
            v.append(('registry_exact', {'in_registry': r['in_registry'], 'writer_open': r['writer_open'], 'attempt': r['attempt'],
                                         'state': r['state'], 'in_open_connection': r['in_open_connection']}))
    if r['unhandled']:
        v.append(('unhandled-exception-in-loop', r['unhandled']))
    return v


def classify(sc, r, viols):
    """Attach a known key only to violations of exactly the known shape; anything else gets its own key."""
    kind = sc['kind']
    rep = r['reported']
    out = {}
    for chk, det in viols:
        key = None
        # F14: the one CONNECTED comes from accept() after the handler (or a concurrent caller) closed the connection
        if kind == 'in' and chk in ('closed_once_last', 'monotone') and _after_f14(rep):
            key = F14
        if key is None and kind in ('out', 'resp', 'server') and _late_connect(sc, r):
            if chk in ('monotone', 'closed_once_last', 'no_delivery_after_closed', 'send_after_closed_noop', 'registry_exact'):
                key = N1
        if key is None and chk == 'registry_exact' and kind in ('out', 'resp') and r['in_open_connection'] and not r['in_registry'] \
                and r['state'] == 'CLOSED' and rep == ['CONNECTING', 'CLOSING', 'CLOSED'] \
                and any(e.startswith('Disconnect') for g in r['events'] for e in g):
            key = N1   # the same race, observed before the connect completes: attempt still running, connection unregistered
        if key is None and chk == 'registry_exact' and kind in ('out', 'resp') and r['state'] == 'CONNECTING' \
                and r['attempt'] == 'cancelled' and r['in_registry'] and rep == ['CONNECTING']:
            key = F15
        if key is None and chk == 'registry_exact' and kind == 'in' and sc.get('listeners') == 'reentrant' and r['in_registry'] \
                and r['state'] == 'CLOSED' and rep == ['CONNECTED', 'CLOSING', 'CLOSED']:
            key = N2
        if key is None:
            key = f'{chk}:{kind}:' + '>'.join(s[:5] for s in rep)[:60]
        out.setdefault(key, []).append((chk, det))
    return out


def _after_f14(rep):
    """the single CONNECTED of an incoming connection comes after a CLOSING, the reports before it move forward,
    and whatever follows are further CLOSING/CLOSED of the resurrected object"""
    if rep.count('CONNECTED') != 1:
        return False
    i = rep.index('CONNECTED')
    return 'CLOSING' in rep[:i] and chain_ok('in', rep[:i]) and all(s in ('CLOSING', 'CLOSED') for s in rep[i + 1:])


def _late_connect(sc, r):
    """disconnect() ran while the attempt was in open_connection, and the connect then succeeded"""
    rep = r['reported']
    evs = [e for grp in r['events'] for e in grp]
    if 'ConnectOk' not in evs:
        return False
    # a CONNECTED reported directly after a CLOSED/CLOSING that followed CONNECTING
    for i in range(len(rep) - 1):
        if rep[i] in ('CLOSED', 'CLOSING') and rep[i + 1] == 'CONNECTED':
            j = len([e for e in evs[:_nth_index(evs, 'ConnectOk', rep[:i + 2].count('CONNECTED'))]])
            if any(e.startswith('Disconnect') for e in evs[:j]):
                return True
    return False


def _nth_index(evs, name, n):
    k = 0
    for i, e in enumerate(evs):
        if e == name:
            k += 1
            if k == n:
                return i
    return len(evs)


# ---------------------------------------------------------------------------------------
# scenarios
# ---------------------------------------------------------------------------------------

READER_ENDS = [['feed', 'eof'], ['feed', 'partial'], ['feed', 'err'], ['feed', 'lost'], ['feed', 'timeout'], ['disc', 'REQUESTED'], ['send', 'fail'],
               ['send', 'hang']]


def systematic():
    """The product of the property's quantifier: every end cause x kind x clear/obfuscated x a concurrent
    disconnect() at every position (x hanging wait_closed)."""
    out = []
    bases = []
    for kind in ('out', 'resp'):
        bases += [(kind, [['create'], ['conn_fail']]), (kind, [['create'], ['conn_timeout']]), (kind, [['create'], ['cancel']]),
                  (kind, [['create'], ['conn_fail', 'oserror'], ['send', 'ok']]), (kind, [['create'], ['conn_fail', 'overflow'], ['send', 'ok']]),
                  (kind, [['create'], ['conn_fail', 'unicode']]), (kind, [['create'], ['conn_fail', 'value']]),
                  (kind, [['create'], ['conn_ok', 'fail']]), (kind, [['create'], ['conn_ok', 'hang'], ['send_timeout']]),
                  (kind, [['create'], ['conn_ok', 'hang'], ['cancel']])]
        for end in READER_ENDS:
            bases.append((kind, [['create'], ['conn_ok', 'ok'], ['feed', 'msg'], ['feed', 'undecodable'], end, ['feed', 'msg'], ['send', 'ok']]))
    for init in ('peerinit_P', 'peerinit_F', 'peerinit_D', 'pierce_known'):
        for end in READER_ENDS:
            bases.append(('in', [['accept'], ['init', init], ['feed', 'msg'], end, ['feed', 'msg'], ['send', 'ok']]))
    for init in ('pierce_unknown', 'other', 'eof', 'partial', 'err', 'lost', 'timeout', 'undecodable'):
        bases.append(('in', [['accept'], ['init', init], ['send', 'ok'], ['disc', 'REQUESTED']]))
    for end in READER_ENDS:
        bases.append(('server', [['create'], ['conn_ok', 'ok'], ['start_reader'], ['feed', 'msg'], end, ['feed', 'msg'], ['create'],
                                 ['conn_ok', 'ok'], ['start_reader'], ['feed', 'msg']]))
    bases += [('server', [['create'], ['conn_fail'], ['create'], ['conn_timeout'], ['create'], ['cancel']])]
    for kind, pre in (('out', [['create'], ['conn_ok', 'ok']]), ('resp', [['create'], ['conn_ok', 'ok']]), ('in', [['accept'], ['init', 'peerinit_P']]),
                      ('in', [['accept'], ['init', 'pierce_known']]), ('server', [['create'], ['conn_ok', 'ok'], ['start_reader']])):
        for order in ('feed_first', 'disc_first'):
            bases.append((kind, pre + [['feed', 'msg'], ['tail_disc', order], ['feed', 'msg'], ['send', 'ok']]))
        for mode in ('ok', 'fail'):
            bases.append((kind, pre + [['qsend', 'ok'], ['qsend', mode], ['feed', 'msg'], ['qsend', 'ok'], ['send', 'ok']]))
    # a local disconnect(REQUESTED) with a queued message whose drain is still pending, and an EOF / reset / second
    # disconnect() right behind it: CLOSING and CLOSED exactly once
    for kind, pre in (('out', [['create'], ['conn_ok', 'ok']]), ('in', [['accept'], ['init', 'peerinit_P']]),
                      ('server', [['create'], ['conn_ok', 'ok'], ['start_reader']])):
        for second in (['feed', 'eof'], ['feed', 'err'], ['disc', 'REQUESTED'], ['disc', 'UNKNOWN'], ['send', 'fail']):
            bases.append((kind, pre + [['qsend', 'held'], ['disc', 'REQUESTED'], second, ['feed', 'msg']]))
    # cancellation of the attempt at each of its awaits, including the wait_closed() inside the disconnect() that its
    # own CancelledError handler runs (second cancel): CLOSED must still be reported
    for kind in ('out', 'resp'):
        bases += [(kind, [['create'], ['conn_ok', 'hang'], ['cancel'], ['cancel'], ['send', 'ok']]),
                  (kind, [['create'], ['conn_ok', 'fail'], ['cancel'], ['cancel']]),
                  (kind, [['create'], ['conn_ok', 'hang'], ['send_timeout'], ['cancel'], ['cancel']])]
    for kind, acts in bases:
        for obf in (False, True):
            if kind == 'server' and obf:
                continue
            for wch in (False, True):
                positions = [None] + list(range(1, len(acts) + 1))
                for pos in positions:
                    a = list(acts)
                    if pos is not None:
                        a.insert(pos, ['disc', 'REQUESTED'])
                    if wch:
                        a = a + [['close_done']]
                        if pos is not None:
                            a.insert(min(pos + 2, len(a)), ['close_done'])
                    typ = 'P'
                    out.append({'kind': kind, 'obf': obf, 'typ': typ, 'wch': wch, 'acts': a})
                    if not wch and pos is None:
                        # the transport's close waiter is already done: wait_closed() returns without yielding
                        out.append({'kind': kind, 'obf': obf, 'typ': typ, 'wch': False, 'wci': True, 'acts': list(acts)})
    for kind in ('out', 'resp'):
        for typ in ('F', 'D'):
            out.append({'kind': kind, 'obf': False, 'typ': typ, 'wch': False,
                        'acts': [['create'], ['conn_ok', 'ok'], ['feed', 'msg'], ['send', 'ok'], ['disc', 'REQUESTED'], ['send', 'ok']]})
    return out


POOL = {
    'out': [['conn_ok', 'ok'], ['conn_ok', 'ok'], ['conn_ok', 'fail'], ['conn_ok', 'hang'], ['conn_fail'], ['conn_fail', 'overflow'],
            ['conn_fail', 'unicode'], ['conn_timeout'], ['cancel'],
            ['send_timeout']],
    'in': [['init', 'peerinit_P'], ['init', 'peerinit_P'], ['init', 'peerinit_F'], ['init', 'peerinit_D'], ['init', 'pierce_known'],
           ['init', 'pierce_unknown'], ['init', 'other'], ['init', 'eof'], ['init', 'partial'], ['init', 'err'], ['init', 'lost'], ['init', 'timeout'],
           ['init', 'undecodable']],
    'server': [['conn_ok', 'ok'], ['conn_ok', 'ok'], ['conn_fail'], ['conn_fail', 'value'], ['conn_timeout'], ['cancel'], ['start_reader'], ['start_reader'], ['create']],
}
COMMON = [['feed', 'msg'], ['feed', 'msg'], ['feed', 'eof'], ['feed', 'partial'], ['feed', 'err'], ['feed', 'lost'], ['feed', 'timeout'], ['feed', 'undecodable'],
          ['send', 'ok'], ['send', 'ok'], ['send', 'fail'], ['send', 'hang'], ['qsend', 'ok'], ['qsend', 'fail'], ['tail_disc', 'feed_first'],
          ['tail_disc', 'disc_first'], ['disc', 'REQUESTED'], ['disc', 'REQUESTED'], ['disc', 'UNKNOWN'],
          ['close_done'], ['close_done']]


def random_scenario(rng):
    kind = rng.choice(['out', 'resp', 'in', 'in', 'server', 'out'])
    pool = POOL['out' if kind == 'resp' else kind]
    acts = [['accept'] if kind == 'in' else ['create']]
    n = rng.randrange(1, 9)
    started = False
    for _ in range(n):
        if not started and rng.random() < 0.7:
            acts.append(list(rng.choice(pool)))
            started = rng.random() < 0.8
        elif rng.random() < 0.2:
            acts.append(list(rng.choice(pool)))
        else:
            acts.append(list(rng.choice(COMMON)))
    return {'kind': kind, 'obf': kind != 'server' and rng.random() < 0.4, 'typ': rng.choice(['P', 'P', 'F', 'D']),
            'wch': rng.random() < 0.4, 'wci': rng.random() < 0.2, 'acts': acts}


# ---------------------------------------------------------------------------------------
# model side
# ---------------------------------------------------------------------------------------

HEADER = '''From Coq Require Import List Bool Arith.
From Slsk Require Import C10.Model.
Import ListNotations.
Definition beq (a b : bool) := Bool.eqb a b.
Definition steq (a b : cst) := Nat.eqb (rank a) (rank b).
Definition pcs_n (p : pcs) := match p with AwaitInit => 0 | Established => 1 | Negotiating => 2 | Transferring => 3 end.
Definition res_n (r : ares) := match r with ResNone => 0 | ResOk => 1 | ResFail => 2 | ResCancelled => 3 end.
Definition snap_eq (a b : cst * bool * nat * nat) :=
  let '(s1, r1, n1, d1) := a in let '(s2, r2, n2, d2) := b in steq s1 s2 && beq r1 r2 && Nat.eqb n1 n2 && Nat.eqb d1 d2.
Fixpoint leq {A} (f : A -> A -> bool) (a b : list A) := match a, b with [], [] => true | x :: a, y :: b => f x y && leq f a b | _, _ => false end.
Record case := mkc { idx : nat; cwch : bool; ck : kind; cty : ctype; cacts : list (list event);
  esnaps : list (cst * bool * nat * nat); erep : list cst; ewopen : bool; ereader : bool; epcs : nat; eres : nat; eflag : bool }.
Definition agree (c : case) : bool :=
  let '(f, snaps) := run_actions (cwch c) (init (ck c) (cty c)) (cacts c) in
  leq snap_eq snaps (esnaps c) && leq steq (reported f) (erep c)
  && beq (match writer f with WOpen => true | _ => false end) (ewopen c)
  && beq (match reader f with RRunning | RBlocked => true | _ => false end) (ereader c)
  && Nat.eqb (pcs_n (pc f)) (epcs c) && Nat.eqb (res_n (res f)) (eres c)
  && beq (viol f || twice f || negb (Nat.eqb (bad_deliv f) 0) || negb (Nat.eqb (bad_sent f) 0)
          || (quiescent f && negb (beq (in_reg f) (should_be_registered f)))) (eflag c).
'''

RES_N = {'none': 0, 'pending': 0, 'ok': 1, 'cancelled': 3}
PCS_N = {'AWAITING_INIT': 0, 'ESTABLISHED': 1, 'NEGOTIATING_TRANSFER': 2, 'TRANSFERRING': 3, '-': 0}


def coq_case(i, sc, r, flagged):
    acts = listlit(listlit(g) for g in r['events'])
    snaps = listlit(f'({COQ_ST[s[0]]}, {blit(s[1])}, {s[2]}, {s[3]})' for s in r['snaps'])
    rep = listlit(COQ_ST[s] for s in r['reported'])
    return (f'mkc {i} {blit(sc.get("wch", False))} {COQ_KIND[sc["kind"]]} T{sc.get("typ", "P")} {acts} {snaps} {rep} '
            f'{blit(r["writer_open"])} {blit(r["reader_alive"])} {PCS_N[r["pcs"]]} {RES_N.get(r["attempt"], 2)} {blit(flagged)}')


def coq_text(rows):
    return (HEADER + 'Definition cases : list case := [\n ' + ';\n '.join(rows) + '\n].\n'
            'Eval vm_compute in (map idx (filter (fun c => negb (agree c)) cases)).\n')


# ---------------------------------------------------------------------------------------

def examine(run, sc, r, source):
    """monitor + classification of one implementation trace; returns True if any property check failed"""
    viols = monitor(sc, r)
    for key, items in classify(sc, r, viols).items():
        what = {
            F14: 'ListeningConnection.accept runs set_state(CONNECTED) after on_peer_accepted closed the connection: CONNECTED reported after CLOSING/CLOSED',
            F15: 'DataConnection.connect does not handle CancelledError: the cancelled attempt leaves the connection CONNECTING and in Network.peer_connections',
            N2: 'a listener disconnecting an accepted connection inside its CONNECTED notification: the closed connection is registered afterwards and stays',
            N1: 'disconnect() during open_connection does not stop the attempt: connect() then reports CONNECTED after CLOSED; the socket is open, unregistered, receives and sends',
        }.get(key, f'{items[0][0]} violated: reported={r["reported"]} {items[0][1]}')
        run.add_finding(Finding(key, what, {'scenario': sc, 'checks': sorted({c for c, _ in items})},
                                observed={'reported': r['reported'], 'state': r['state'], 'in_registry': r['in_registry'],
                                          'delivered_after_closed': r['delivered_after_closed']},
                                expected='strictly forward; CLOSED once and last; nothing after CLOSED; registry = open or being opened'))
    return bool(viols)


def twin_scenarios():
    out = []
    for how in ('out', 'in'):
        for typ in ('F', 'P', 'D'):
            for n, orders in ((2, ([1], [0], [1, 0], [0, 1])), (3, ([2], [1, 2], [2, 0, 1]))):
                for order in orders:
                    for via in ('disc', 'eof'):
                        out.append({'how': how, 'typ': typ, 'n': n, 'close_order': list(order), 'via': via})
    return out


def twins_violation(r):
    """-> (step, connection index, what) of the first connection object that is registered but not open or open but not registered"""
    for k, step in enumerate(r['steps']):
        for i, c in enumerate(step):
            if c is None:
                return (k, i, 'missing (the connection object was never seen)')
            if c['registered'] != c['open'] and c['state'] not in ('CLOSING',):
                return (k, i, f"registered={c['registered']} open={c['open']} state={c['state']}")
    return None


def check_pins(run):
    """shape pins: the functions the C10/C11 models abstract beyond what tr_c10life / tr_port regenerate"""
    try:
        from translate import tr_c10life
        from vlib.common import SRC, VERIF
        pins = json.loads((VERIF / 'pinned' / 'c10c11_shapes.json').read_text())
        now = tr_c10life.fingerprints(SRC)
        changed = sorted(k for k in set(pins) | set(now) if pins.get(k) != now.get(k))
        if changed:
            run.add_broken(f'fingerprint:{run.prop} hand-modelled functions changed', ', '.join(changed) +
                           ' (normalised AST differs from pinned/c10c11_shapes.json; re-pin with `python -m translate.tr_c10life <src> --pin` after review)')
        run.cov['fingerprinted_functions'] = len(now)
    except Exception as e:
        run.add_broken(f'fingerprint:{run.prop}', f'{type(e).__name__}: {e}')


def run(run: Run):
    run.rule = ('systematic product {outgoing direct, outgoing responder, incoming, server} x every end cause (refused, connect timeout, '
                'cancel at each await, init send error/timeout, EOF/partial/reset/read timeout/undecodable before and after the init '
                'message, unknown pierce ticket, unexpected init message, local request, write error/timeout) x clear/obfuscated x a '
                'concurrent disconnect() inserted at every position x wait_closed returning or hanging; plus seeded random action lists; '
                'distinct = distinct (scenario, derived model event list); non-trivial = at least 3 model events')
    run.trusted += ['asyncio facts A1-A5 (validated by every scenario run on CPython 3.12)',
                    'vlib.fakes transport stands in for the socket layer (close() wakes a pending read with EOF, as connection_lost does)',
                    'event handlers registered on the bus do not suspend']
    run.assumptions += ['one event = one atomic segment between awaits; handlers of ConnectionStateChangedEvent / PeerInitializedEvent do not suspend',
                        'peer connection objects are only connected by the library coroutines (_make_direct_connection, _handle_connect_to_peer, accept)']
    run.prove(['tr_c10life'])
    check_pins(run)

    scs = []
    for key, wit, _fixed in run.known_witnesses():
        if wit and 'scenario' in wit:
            scs.append(('corpus', wit['scenario']))
    scs += [('systematic', s) for s in systematic()]
    nrand = 500 if run.tier == 'quick' else 6000
    if run.tier == 'quick':
        # the systematic product is large; quick tier keeps a seed-independent third of it plus the random part
        scs = [x for i, x in enumerate(scs) if x[0] == 'corpus' or i % 3 == run.seed % 3]
    scs += [('random', random_scenario(run.rng)) for _ in range(nrand)]

    rows, kept = [], []
    try:
        for source, sc in scs:
            try:
                r = c10_sim.run_scenario(sc)
            except Exception as e:  # the harness or the implementation crashed
                run.add_finding(Finding(f'crash:{type(e).__name__}', f'scenario raised {type(e).__name__}: {e}', {'scenario': sc}))
                continue
            nev = sum(len(g) for g in r['events'])
            run.case({'sc': sc, 'ev': r['events']}, nontrivial=nev >= 3, kind=f'{source}:{sc["kind"]}')
            if sc.get('listeners'):
                r['delivered_while_closing'] = 0
                examine(run, sc, r, source)     # scenarios with extra listeners: property monitors only (the machine has none)
                continue
            flagged = examine(run, sc, r, source)
            rows.append(coq_case(len(rows), sc, r, flagged))
            kept.append((sc, r))
    finally:
        c10_sim.cleanup_tmp()

    # several connections with the same identity registered at once (concurrent transfers to one peer, a stale and a fresh
    # connection): the registry must follow each OBJECT -- after every close, registered iff open, for each of them
    try:
        for sc in twin_scenarios():
            try:
                r = c10_sim.run_twins(sc)
            except Exception as e:
                run.add_finding(Finding(f'crash:{type(e).__name__}', f'twin scenario raised {type(e).__name__}: {e}', {'twins': sc}))
                continue
            run.case({'twins': sc}, kind='twins')
            bad = twins_violation(r)
            if bad:
                run.add_finding(Finding('registry_exact:twins', f'connections with equal identity: after closing #{bad[0]} connection #{bad[1]} is '
                                        f'{bad[2]}', {'twins': sc}, observed=r['steps'], expected='each connection object registered iff open'))
        # the life cycle with the library's logging switched on (records are formatted: log_utils.ConnectionLoggerAdapter)
        for k, sc0 in enumerate(systematic()):
            if k % (9 if run.tier == 'quick' and not run.broken else 3) != run.seed % 3:
                continue
            sc = dict(sc0, logging=True, listeners=None)
            try:
                r = c10_sim.run_scenario(sc)
            except Exception as e:
                run.add_finding(Finding(f'crash-with-logging:{type(e).__name__}', f'scenario raised {type(e).__name__}: {e}', {'scenario': sc}))
                continue
            run.case({'sc': sc}, kind='logging-on')
            examine(run, sc, r, 'logging')
    finally:
        c10_sim.cleanup_tmp()

    # other users of the event bus (EventBus.emit awaits coroutine listeners in priority order and swallows their exceptions):
    # the same scenarios with suspending / raising / re-entrant listeners, registered up front or late -- property monitors only
    # (the machine has no listeners); always part of the search, denser on a broken tie and in the thorough tier
    every = 2 if (run.broken or run.tier != 'quick') else 12
    try:
        for mode in ('suspend', 'raise', 'reentrant'):
            for k, sc0 in enumerate(systematic()):
                if k % every != run.seed % every:
                    continue
                sc = dict(sc0, listeners=mode, listeners_late=bool(k % 2))
                try:
                    r = c10_sim.run_scenario(sc)
                except Exception as e:
                    run.add_finding(Finding(f'crash:{type(e).__name__}', f'scenario raised {type(e).__name__}: {e}', {'scenario': sc}))
                    continue
                run.case({'sc': sc}, kind=f'listeners:{mode}')
                r['delivered_while_closing'] = 0    # a listener ahead may hold an event back: only the property text is demanded here
                examine(run, sc, r, 'listeners')
    finally:
        c10_sim.cleanup_tmp()

    # the same monitors on the per-connection streams of whole requests: Network.create_peer_connection with both ports
    # advertised (first choice refused / accepted, second would accept), both modes, on the C11 rig
    from checks import c11, c11_sim
    try:
        for sc in c11.second_port_scripts() + c11.port_scripts()[::3]:
            try:
                r = c11_sim.run_script(c11.impl_time(sc))
            except Exception as e:
                run.add_finding(Finding(f'crash:{type(e).__name__}', f'request script raised {type(e).__name__}: {e}', {'script': sc}))
                continue
            run.case({'request': sc}, kind='request-streams')
            for st in r.get('streams', []):
                bad = None
                if not chain_ok('peer', st['reported']):
                    bad = 'monotone'
                elif not closed_last_ok('peer', st['reported']):
                    bad = 'closed_once_last'
                elif r['outcome'] != 'pending' and not r['orphans'] and st['registered'] != st['open'] and st['state'] != 'CONNECTING':
                    bad = 'registry_exact'
                if bad:
                    run.add_finding(Finding(f'{bad}:request:' + '>'.join(x[:5] for x in st['reported'])[:60],
                                            f'{bad} violated by a connection of a create_peer_connection request: reported={st["reported"]} '
                                            f'registered={st["registered"]} open={st["open"]}', {'request_script': sc},
                                            observed=st, expected='strictly forward; CLOSED once and last; registered iff open'))
    finally:
        c11_sim.cleanup_tmp()

    shard = 250
    texts = [coq_text([_reindex(row, j) for j, row in enumerate(rows[i:i + shard])]) for i in range(0, len(rows), shard)]
    try:
        outs = coq_eval_many('c10', texts)
        nbad = 0
        for k, out in enumerate(outs):
            vals = parse_eval(out)
            if not vals:
                raise BrokenTie('correspondence:C10', f'no output from shard {k}')
            for b in parse_coq_list(vals[0]):
                nbad += 1
                sc, r = kept[k * shard + int(b)]
                if nbad <= 2:
                    run.add_broken('correspondence:C10 model(run_actions) vs connection.py/network.py',
                                   'first diverging scenario: ' + json.dumps({'scenario': sc, 'events': r['events'], 'impl_snaps': r['snaps'],
                                                                              'impl_reported': r['reported'], 'impl_final': [r['writer_open'], r['reader_alive'], r['pcs'], r['attempt']]})[:1500])
        run.cov['traces_validated_against_impl'] = len(rows) - nbad
    except BrokenTie as e:
        run.add_broken(e.obligation, e.detail)


def _reindex(row, j):
    parts = row.split(' ', 2)
    return f'{parts[0]} {j} {parts[2]}'


def replay(rep) -> int:
    if 'twins' in rep['witness']:
        try:
            r = c10_sim.run_twins(rep['witness']['twins'])
        finally:
            c10_sim.cleanup_tmp()
        print('twins:', json.dumps(rep['witness']['twins']))
        for k, st in enumerate(r['steps']):
            print(' after', k, 'closes:', json.dumps(st))
        bad = twins_violation(r)
        if bad:
            print('FAILS registry_exact: step', bad[0], 'connection', bad[1], bad[2])
        return 1 if bad else 0
    if 'request_script' in rep['witness']:
        from checks import c11, c11_sim
        sc = rep['witness']['request_script']
        try:
            r = c11_sim.run_script(c11.impl_time(sc))
        finally:
            c11_sim.cleanup_tmp()
        print('request script:', json.dumps(sc))
        bad = 0
        for st in r.get('streams', []):
            ok = chain_ok('peer', st['reported']) and closed_last_ok('peer', st['reported']) and (st['registered'] == st['open'] or st['state'] == 'CONNECTING')
            print(('ok   ' if ok else 'FAILS'), json.dumps(st))
            bad += 0 if ok else 1
        return 1 if bad else 0
    sc = rep['witness']['scenario']
    try:
        r = c10_sim.run_scenario(sc)
    finally:
        c10_sim.cleanup_tmp()
    print('scenario:', json.dumps(sc))
    print('model events:', r['events'])
    print('reported:', r['reported'], 'state:', r['state'], 'in_registry:', r['in_registry'], 'writer_open:', r['writer_open'],
          'attempt:', r['attempt'], 'delivered_after_closed:', r['delivered_after_closed'])
    v = monitor(sc, r)
    for chk, det in v:
        print('FAILS', chk, det)
    return 1 if v else 0
