"""Harness for C03 (and the "loaded transfers behave like fresh ones" part of C17):
real aioslsk Transfer objects, a recording TransferStateListener, controllable slow operations
(task cancellation, file existence test, file removal) and a gated asyncio.Lock under vlib.vloop.

Event vocabulary (same as coq/theories/C03/Model.v):
  ('C', j)  the expression `transfer.state.<op>(args)` of call j is evaluated (coroutine object created)
  ('S', j)  the coroutine of call j is started as a task
  ('T',)    the slow operation the lock holder waits for completes            (Model: Step)
  ('W',)    the first waiter of the lock is woken after a release             (Model: Wake)
"""
from __future__ import annotations

import asyncio
import json
import os
import struct
import zlib
import re
from pathlib import Path

from vlib import vloop
from vlib.common import VERIF, REPO, COQ

REASONS = [None, 'Requested', 'Blocked', 'File not shared', 'Cancelled', 'err']
OPS = ['fail', 'abort', 'queue', 'initialize', 'complete', 'incomplete', 'start_transferring', 'pause']
OPCTOR = {'fail': 'OFail', 'abort': 'OAbort', 'queue': 'OQueue', 'initialize': 'OInitialize', 'complete': 'OComplete',
          'incomplete': 'OIncomplete', 'start_transferring': 'OStart', 'pause': 'OPause'}
STATES = ['VIRGIN', 'QUEUED', 'INITIALIZING', 'INCOMPLETE', 'DOWNLOADING', 'UPLOADING', 'COMPLETE', 'FAILED', 'ABORTED', 'PAUSED']
DIRS = ['UPLOAD', 'DOWNLOAD']
TSTAT = {'none': 'TNone', 'live': 'TLive', 'cancelling': 'TCancelling'}
TSTAT_CODE = {'none': 0, 'live': 1, 'cancelling': 2}


# ---------------------------------------------------------------------------------------------
# documented graph
# ---------------------------------------------------------------------------------------------

def pinned_graph() -> dict:
    return json.loads((VERIF / 'pinned' / 'state_graph.json').read_text())


def png_plantuml(path: Path) -> str:
    d = path.read_bytes()
    i = 8
    while i < len(d):
        n, = struct.unpack('>I', d[i:i + 4])
        t = d[i + 4:i + 8]
        body = d[i + 8:i + 8 + n]
        if t == b'iTXt' and body.startswith(b'plantuml\0'):
            rest = body.split(b'\0', 1)[1][2:]
            _lang, rest = rest.split(b'\0', 1)
            _tr, rest = rest.split(b'\0', 1)
            return zlib.decompress(rest).decode()
        i += 12 + n
    raise ValueError('no plantuml source in ' + str(path))


def plantuml_edges(src: str) -> list:
    uml = src.split('@enduml')[0]
    out = []
    for ln in uml.splitlines():
        m = re.match(r'^\s*(\[\*\]|\w+)\s+-\w*->\s+(\w+)\s*$', ln)
        if m and m.group(1) != '[*]':
            out.append((m.group(1).upper(), m.group(2).upper()))
    return out


def spec_edges() -> list:
    txt = (VERIF / 'coq' / 'theories' / 'C03' / 'Spec.v').read_text()
    blk = txt.split('(* BEGIN documented_edges *)')[1].split('(* END documented_edges *)')[0]
    return re.findall(r'\(\s*([A-Z]+)\s*,\s*([A-Z]+)\s*\)', blk)


def gen_reasons() -> list:
    """AbortReason values as regenerated (the harness numbers reasons by their position in REASONS)"""
    txt = (COQ / 'gen' / 'TransferGen.v').read_text()
    m = re.search(r'Definition abort_reasons : list string := \[(.*?)\]\.', txt)
    return re.findall(r'"([^"]*)"', m.group(1)) if m else []


def gen_constant(name: str) -> str:
    txt = (COQ / 'gen' / 'TransGen.v').read_text()
    m = re.search(rf'Definition {name} : bool := (true|false)\.', txt)
    return m.group(1) if m else '?'


# ---------------------------------------------------------------------------------------------
# configurations of a transfer
# ---------------------------------------------------------------------------------------------

def default_cfg(**kw) -> dict:
    cfg = {'fail': 0, 'abort': 0, 'rq': False, 'place': None, 'filesize': None, 'bytes': 0, 'qatt': 0, 'uatt': 0,
           'start': False, 'complete': False, 'local': False, 'file': False, 'rqtask': 'none', 'trtask': 'none'}
    cfg.update(kw)
    return cfg


def coq_opt(n):
    return 'None' if n is None else f'(Some {n}%N)'


def coq_transfer(state: str, direction: str, cfg: dict) -> str:
    b = lambda x: 'true' if x else 'false'
    return (f'(mkT {state} {"Upload" if direction == "UPLOAD" else "Download"} {coq_opt(cfg["fail"] or None)} '
            f'{coq_opt(cfg["abort"] or None)} {b(cfg["rq"])} {coq_opt(cfg["place"])} {coq_opt(cfg["filesize"])} {cfg["bytes"]}%N '
            f'{cfg["qatt"]}%N {cfg["uatt"]}%N {b(cfg["start"])} {b(cfg["complete"])} {b(cfg["local"])} {b(cfg["file"])} '
            f'{TSTAT[cfg["rqtask"]]} {TSTAT[cfg["trtask"]]})')


def coq_call(call) -> str:
    op, reason, remotely = call
    return f'(mkCall {OPCTOR[op]} {coq_opt(reason or None)} {"true" if remotely else "false"})'


STATE_VALUE = {}


def state_values():
    if not STATE_VALUE:
        from aioslsk.transfer.state import TransferState
        for s in TransferState.State:
            STATE_VALUE[s.name] = s.value
    return STATE_VALUE


COQ_HEADER = '''From Coq Require Import ZArith NArith List Bool.
From SlskGen Require Import TransGen.
From Slsk Require Import C03.Spec C03.Model C03.Eval.
Import ListNotations.
Open Scope Z_scope.
'''


def zl(xs) -> str:
    return '[' + ';'.join(f'({x})' if x < 0 else str(x) for x in xs) + ']'


def zzl(xss) -> str:
    return '[' + '; '.join(zl(x) for x in xss) + ']'


def coq_events(events, order=None) -> str:
    """events over call indices -> Model events (ids = rank of the capture)"""
    out = []
    rank = {}
    for e in events:
        if e[0] == 'C':
            rank[e[1]] = len(rank)
            out.append(f'Capture {coq_call(e[2])}')
        elif e[0] == 'S':
            out.append(f'Start {rank[e[1]]}')
        elif e[0] == 'T':
            out.append('Step')
        elif e[0] == 'W':
            out.append('Wake')
    return '[' + '; '.join(out) + ']', rank


# ---------------------------------------------------------------------------------------------
# the real thing
# ---------------------------------------------------------------------------------------------

class Recorder:
    def __init__(self, h, index=0):
        self.h = h
        self.index = index

    async def on_transfer_state_changed(self, transfer, old, new):
        self.h.on_edge(old.name, new.name, self.index)


class SlowListener(Recorder):
    """a listener that needs time (UI, database): it suspends, the harness decides when it finishes"""

    async def on_transfer_state_changed(self, transfer, old, new):
        self.h.on_edge(old.name, new.name, self.index)
        await self.h.slow('listener')


class ListenerError(Exception):
    pass


class RaisingListener(Recorder):
    """an application listener with a bug: it is told the change, then raises"""

    async def on_transfer_state_changed(self, transfer, old, new):
        self.h.on_edge(old.name, new.name, self.index)
        raise ListenerError('listener failed')


class FakeAsyncOs:
    """stands in for `aiofiles.os` inside aioslsk.transfer.state: same calls, completion decided by the harness"""

    def __init__(self, h):
        self.h = h
        self.path = self

    async def exists(self, p):
        await self.h.slow('exists')
        return os.path.exists(p)

    async def remove(self, p):
        await self.h.slow('remove')
        if self.h.cfg.get('remove_fails'):
            raise PermissionError(13, 'Permission denied', p)     # the file system refuses (read-only share, file in use)
        os.remove(p)


def make_gated_lock(h):
    class GatedLock(asyncio.Lock):
        """asyncio.Lock whose wake-up of the first waiter can be delayed by the harness (a legal schedule of the
        event loop: the woken task simply runs later), and which remembers its owner."""
        owner = None

        async def acquire(self):
            me = asyncio.current_task()
            if self.locked() or (self._waiters and not all(w.cancelled() for w in self._waiters)):
                h.waited.add(me)
            r = await super().acquire()
            self.owner = me
            return r

        def release(self):
            self.owner = None
            super().release()

        def _wake_up_first(self):
            if h.gate and self._waiters and not self._locked:
                h.wake_pending = True
                return
            super()._wake_up_first()

        def do_wake(self):
            h.wake_pending = False
            asyncio.Lock._wake_up_first(self)
    return GatedLock()


class Harness:
    def __init__(self, tmpdir: str, state: str, direction: str, cfg: dict, gate: bool = True, transfer=None, with_manager=False,
                 slow_listener=False, raising_listener=False):
        from aioslsk.transfer.model import Transfer, TransferDirection
        from aioslsk.transfer.state import TransferState
        import aioslsk.transfer.state as state_mod
        self.state_mod = state_mod
        self.loop = vloop.new_loop()
        self.gate = gate
        self.wake_pending = False
        self.waited = set()
        self.cancelled = set()
        self.cancellable = False     # explore cancellation of started, unfinished calls
        self.pending = []            # [(kind, future)] suspended slow operations (at most one while the lock discipline holds)
        self.events_log = []         # observations since the last take()
        self.violations = []         # monitor: effects outside the lock etc.
        self.task_of = {}            # asyncio task -> call index
        self.results = {}
        self.cap = {}
        self.coros = {}
        self.tasks = {}
        self.saved_os = state_mod.asyncos
        state_mod.asyncos = FakeAsyncOs(self)
        self.path = os.path.join(tmpdir, 'f.bin')
        self.cfg = cfg
        if transfer is None:
            t = Transfer('user', 'remote\\path\\f.bin', TransferDirection[direction])
            t.state = TransferState.init_from_state(TransferState.State[state], t)
            t.fail_reason = REASONS[cfg['fail']]
            t.abort_reason = REASONS[cfg['abort']]
            t.remotely_queued = cfg['rq']
            t.place_in_queue = cfg['place']
            t.filesize = cfg['filesize']
            t.bytes_transfered = cfg['bytes']
            t.queue_attempts = cfg['qatt']
            t.last_queue_attempt = 5.0 if cfg['qatt'] else 0.0
            t.upload_request_attempts = cfg['uatt']
            t.last_upload_request_attempt = 7.0 if cfg['uatt'] else 0.0
            t.start_time = 100.0 if cfg['start'] else None
            t.complete_time = 200.0 if cfg['complete'] else None
        else:
            t = transfer
        self.t = t
        if cfg['local']:
            t.local_path = self.path
        if os.path.exists(self.path):
            os.remove(self.path)
        if cfg['file']:
            with open(self.path, 'wb') as f:
                f.write(b'x')
        self.cleanup = {}
        for slot, key in (('_remotely_queue_task', 'rqtask'), ('_transfer_task', 'trtask')):
            if cfg[key] == 'live':
                fut = self.loop.create_future()
                self.cleanup[slot] = fut
                task = self.loop.create_task(self._slow_task(fut))
                setattr(t, slot, task)
                task.add_done_callback(getattr(t, slot + '_complete'))
        self.lock = make_gated_lock(self) if gate else None
        if gate:
            t._state_lock = self.lock
        self.manager = None
        if with_manager:
            self.manager = make_manager()
            self.manager._transfers.append(t)
            t.state_listeners.append(self.manager)
        if raising_listener:
            t.state_listeners.append(Recorder(self, 0))
            t.state_listeners.append(RaisingListener(self, 1))
            t.state_listeners.append(Recorder(self, 2))
        elif slow_listener:
            # a slow listener first, then two ordinary ones: every listener must be told the same documented edges
            t.state_listeners.append(SlowListener(self, 0))
            t.state_listeners.append(Recorder(self, 1))
            t.state_listeners.append(Recorder(self, 2))
        else:
            t.state_listeners.append(Recorder(self))
        self.settle()

    async def _slow_task(self, cleanup):
        try:
            await self.loop.create_future()      # works forever
        except asyncio.CancelledError:
            await cleanup                        # slow clean-up after cancel()
            raise

    # -- observation ---------------------------------------------------------------------------
    def _check_owner(self, what):
        if self.gate:
            me = asyncio.current_task()
            if self.lock.owner is not me:
                self.violations.append(('lock-not-held', what, self.task_of.get(me)))

    def on_edge(self, old, new, listener=0):
        # (no lock-owner check here: WHEN listeners are told is not the property, WHAT they are told is)
        me = asyncio.current_task()
        self.events_log.append(('E', old, new, self.task_of.get(me), me in self.waited, listener))

    async def slow(self, kind):
        if kind != 'listener':
            self._check_owner(kind)
        fut = self.loop.create_future()
        self.pending.append((kind, fut))
        try:
            await fut
        finally:
            if (kind, fut) in self.pending:
                self.pending.remove((kind, fut))

    def take(self):
        out, self.events_log = self.events_log, []
        return out

    def tstat(self, slot):
        task = getattr(self.t, slot)
        if task is None:
            return 'none'
        return 'cancelling' if (task.cancelling() or task.done()) else 'live'

    def snapshot(self) -> list:
        t = self.t
        sv = state_values()
        ridx = lambda r: -1 if r is None else (REASONS.index(r) if r in REASONS else 99)
        oi = lambda v: -1 if v is None else int(v)
        return [sv[t.state.VALUE.name], ridx(t.fail_reason), ridx(t.abort_reason), int(bool(t.remotely_queued)), oi(t.place_in_queue),
                oi(t.filesize), int(t.bytes_transfered), int(t.queue_attempts), int(t.upload_request_attempts),
                int(t.start_time is not None), int(t.complete_time is not None), int(t.local_path is not None),
                int(os.path.exists(self.path)), TSTAT_CODE[self.tstat('_remotely_queue_task')], TSTAT_CODE[self.tstat('_transfer_task')]]

    def extra_snapshot(self) -> list:
        """fields the model folds into others: last_*_attempt are 0.0 exactly when the counters are 0"""
        t = self.t
        return [int(t.last_queue_attempt == 0.0) == int(t.queue_attempts == 0),
                int(t.last_upload_request_attempt == 0.0) == int(t.upload_request_attempts == 0)]

    # -- driving -------------------------------------------------------------------------------
    def settle(self):
        for _ in range(200):
            if not self.loop._ready:
                return
            self.loop.run_ready(1)
        raise RuntimeError('harness: loop does not become quiet')

    def capture(self, j, call):
        op, reason, remotely = call
        self.cap[j] = self.t.state.VALUE.name
        m = getattr(self.t.state, op)
        if op in ('fail', 'abort'):
            self.coros[j] = m(reason=REASONS[reason]) if reason is not None else m()
        elif op == 'queue':
            self.coros[j] = m(remotely=remotely) if remotely else m()
        else:
            self.coros[j] = m()

    async def _runner(self, j, coro):
        try:
            self.results[j] = ('ret', await coro)
        except BaseException as e:  # noqa
            self.results[j] = ('exc', type(e).__name__)
        self.events_log.append(('R', j, self.results[j]))

    def start(self, j):
        task = self.loop.create_task(self._runner(j, self.coros.pop(j)))
        self.task_of[task] = j
        self.tasks[j] = task
        self.settle()

    def start_manager(self, j, call):
        """manager level: TransferManager.abort/queue/pause; the state object is selected when the task first runs"""
        op = call[0]

        async def go():
            self.cap[j] = self.t.state.VALUE.name
            await getattr(self.manager, op)(self.t)
            return True
        task = self.loop.create_task(self._runner(j, go()))
        self.task_of[task] = j
        self.tasks[j] = task

    def step(self, newest=False):
        kind, fut = self.pending.pop(-1 if newest else 0)
        fut.set_result(None)
        self.settle()

    def cancel_wait(self) -> bool:
        """the holder waits in gather() for cancelled tasks whose clean-up the harness controls"""
        return any(not f.done() and getattr(self.t, slot) is not None and getattr(self.t, slot).cancelling()
                   for slot, f in self.cleanup.items())

    def step_cancel(self):
        for slot, f in self.cleanup.items():
            if not f.done():
                if self.cfg.get('task_error'):
                    f.set_exception(RuntimeError('connection clean-up failed'))   # the cancelled task dies with an error
                else:
                    f.set_result(None)
        self.settle()

    def enabled_step(self):
        return bool(self.pending) or self.cancel_wait()

    def do_step(self):
        if self.pending:
            self.step()
        else:
            self.step_cancel()

    def wake(self):
        self.lock.do_wake()
        self.settle()

    def cancel(self, j):
        """the task running call j is cancelled from outside (wait_for timeout, shutdown, ...)"""
        self.cancelled.add(j)
        self.tasks[j].cancel()
        self.settle()

    def close(self):
        self.state_mod.asyncos = self.saved_os
        for c in self.coros.values():
            c.close()
        for f in self.cleanup.values():
            if not f.done():
                f.set_result(None)
        vloop.close_loop(self.loop)
        if os.path.exists(self.path):
            os.remove(self.path)


def make_manager(cache=None):
    from unittest.mock import AsyncMock, Mock, MagicMock
    from aioslsk.settings import Settings
    from aioslsk.transfer.manager import TransferManager
    from aioslsk.user.manager import UserManager
    settings = Settings(credentials={'username': 'user0', 'password': 'pass0'})
    um = UserManager(settings, Mock(), AsyncMock())
    um.track_user = AsyncMock()
    um.untrack_user = AsyncMock()
    network = AsyncMock()
    network.upload_rate_limiter = MagicMock()
    network.download_rate_limiter = MagicMock()
    bus = Mock()
    bus.emit = AsyncMock()
    bus.register = Mock()
    return TransferManager(settings, bus, um, AsyncMock(), network, cache=cache)


def run_schedule(tmpdir, state, direction, cfg, calls, events, gate=True, slow_listener=False, cancellable=False):
    """Run one schedule on the real code.  Returns dict(per_event=[...obs...], final=snapshot, done=bool,
    enabled=..., violations=[...])"""
    h = Harness(tmpdir, state, direction, cfg, gate=gate, slow_listener=slow_listener)
    h.cancellable = cancellable
    try:
        return drive(h, calls, events)
    finally:
        h.close()


def drive(h: Harness, calls, events):
    per_event = []
    refusal_snaps = []
    rank = {}
    for e in events:
        before = h.snapshot()
        if e[0] == 'C':
            rank[e[1]] = len(rank)
            h.capture(e[1], calls[e[1]])
        elif e[0] == 'S':
            h.start(e[1])
        elif e[0] == 'T':
            h.do_step()
        elif e[0] == 'U':      # two operations are suspended at once (impossible while the lock discipline holds): resume the later one
            h.step(newest=True)
        elif e[0] == 'W':
            h.wake()
        elif e[0] == 'X':
            h.cancel(e[1])
        obs = h.take()
        per_event.append(obs)
        if any(o[0] == 'R' and o[2] == ('ret', False) for o in obs):
            refusal_snaps.append((before, h.snapshot(), [o for o in obs if o[0] == 'E']))
    started = set(h.tasks)
    done = all(j in h.results for j in range(len(calls)))
    return {'per_event': per_event, 'final': h.snapshot(), 'extra': h.extra_snapshot(), 'done': done, 'rank': rank,
            'cap': dict(h.cap), 'violations': list(h.violations), 'refusals': refusal_snaps, 'cancelled': sorted(h.cancelled),
            'enabled': enabled_events(h, calls, rank, started), 'results': dict(h.results)}


def enabled_events(h: Harness, calls, rank, started):
    en = []
    nxt = len(rank)
    if nxt < len(calls):
        en.append(('C', nxt))
    for j in rank:
        if j not in started:
            en.append(('S', j))
    if h.enabled_step():
        en.append(('T',))
    if len(h.pending) >= 2:
        en.append(('U',))
    if h.wake_pending and h.lock is not None and h.lock._waiters:
        en.append(('W',))
    if h.cancellable:
        for j in sorted(started):
            if j not in h.results and j not in h.cancelled:
                en.append(('X', j))
    return en


def encode_obs(obs, rank, listeners=False) -> list:
    out = []
    sv = state_values()
    for o in obs:
        if o[0] == 'E':
            if listeners:
                out += [2, o[5] if len(o) > 5 else 0, sv[o[1]], sv[o[2]]]
            else:
                out += [0, sv[o[1]], sv[o[2]]]
        else:
            r = o[2]
            if r == ('exc', 'CancelledError'):
                out += [3, rank[o[1]]]
            else:
                out += [1, rank[o[1]], 1 if r == ('ret', True) else (0 if r == ('ret', False) else 7)]
    return out


# ---------------------------------------------------------------------------------------------
# compact case files: model expression + fingerprint of the expected observation
# ---------------------------------------------------------------------------------------------
HP = 4611686018427387903   # 2^62 - 1, used as a mask


def fingerprint(ll) -> int:
    h = 1
    for l in ll:
        for x in l:
            h = (h * 1000003 + x + 7) & HP
        h = (h * 1000003 + 977 + 7) & HP
    return h


KIND = {'seq': 0, 'out': 1, 'flat': 2, 'lout': 3}


def sched_number(events) -> int:
    """events as ('C', j) | ('S', j) | ('T',) | ('W',); captures must be in index order (digit 1 = next call)"""
    n, nxt = 0, 0
    digits = []
    rank = {}
    for e in events:
        if e[0] == 'C':
            assert e[1] == nxt, 'captures must be in index order'
            rank[e[1]] = nxt
            nxt += 1
            digits.append(1)
        elif e[0] == 'S':
            digits.append(2 + rank[e[1]])
        elif e[0] == 'T':
            digits.append(5)
        elif e[0] == 'X':
            digits += [7, rank[e[1]] + 1]
        else:
            digits.append(6)
    assert len(digits) <= 120
    for d in reversed(digits):
        n = n * 8 + d
    return n


def shard_text(header: str, rows) -> str:
    """rows: (kind, transfer literal, [call literals], events, expected list of lists).  The file holds two tables
    (transfers, call lists) and one line of five integers per case: elaborating constructor terms per case is what
    makes coqc slow, not evaluating them."""
    tidx, cidx = {}, {}
    lines = []
    for kind, tlit, clits, events, exp in rows:
        ti = tidx.setdefault(tlit, len(tidx))
        ci = cidx.setdefault('[' + '; '.join(clits) + ']', len(cidx))
        lines.append(f'({KIND[kind]},{ti},{ci},{sched_number(events)},{fingerprint(exp)})')
    out = [header]
    for lit, i in tidx.items():
        out.append(f'Definition t{i} : transfer := {lit}.\n')
    for lit, i in cidx.items():
        out.append(f'Definition l{i} : list call := {lit}.\n')
    out.append('Definition ts : list transfer := [' + '; '.join(f't{i}' for i in range(len(tidx))) + '].\n')
    out.append('Definition css : list (list call) := [' + '; '.join(f'l{i}' for i in range(len(cidx))) + '].\n')
    chunks = [lines[i:i + 100] for i in range(0, len(lines), 100)]
    for j, ch in enumerate(chunks):
        out.append(f'Definition cs{j} : list (Z * Z * Z * Z * Z) := [\n' + ';\n'.join(ch) + '\n].\n')
    out.append('Definition bad := bad_from ts css 0 (' + ' ++ '.join(f'cs{j}' for j in range(len(chunks))) + ').\n' if chunks
               else 'Definition bad : list nat := [].\n')
    out.append('Eval vm_compute in bad.\n')
    return ''.join(out)
