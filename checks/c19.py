"""C19 — room and user views equal the fold of what the server announced.

L1  theories/C19/Props.v: the handlers' clauses, REGENERATED from room/manager.py + user/manager.py by
    translate/tr_rooms.py (22 straight-line handlers; the 4 with loops are hand-modelled and shape-pinned), answer every
    question of the independent per-question spec (Spec.v) identically, for all notification lists
    (full statement; finding F24 repaired, its witness is still replayed).
L2  correspondence: notification sequences (<= 12, 3 rooms x 3 users incl. the logged-in user) are
    sent as real frames by the scripted server of a real SoulSeekClient (vlib.world.World); after
    every message the full content of RoomManager.rooms / UserManager users and the events emitted
    are compared with the model's `trace` (vm_compute).
L3  monitor = the property text: an independent Python replay (`Reference`) of the same messages is
    compared with the implementation after every message; a difference is a concrete failing
    history (shrunk).
"""
from __future__ import annotations

import json

from vlib.common import Run, Finding, BrokenTie, coq_eval_many, parse_eval, parse_coq_list, shrink_list

USERS = ['me', 'u1', 'u2']          # pinned by the harness (held strongly from outside)
ALL_USERS = USERS + ['u3']          # u3 is never pinned: it exists only while the library itself references it
ROOMS = ['r0', 'r1', 'r2']
TEXTS = ['t0', 't1', 't2', 't3']
UID = {n: i for i, n in enumerate(ALL_USERS)}
RID = {n: i for i, n in enumerate(ROOMS)}
TID = {n: i for i, n in enumerate(TEXTS)}

BLOCKMAPS = [
    {}, {}, {},
    {'u1': 'ROOM_MESSAGES'},
    {'u2': 'PRIVATE_MESSAGES'},
    {'u1': 'IGNORE', 'u2': 'SEARCHES'},
    {'u1': 'ALL'},
    {'me': 'ROOM_MESSAGES', 'u2': 'IGNORE'},
    {'u1': 'UPLOADS', 'u2': 'ROOM_MESSAGES'},
]

F24_KEY = 'F24-own-operator-grant-discards'

# ----------------------------------------------------------------------------------------
# generation: a message is a JSON-able list [kind, args...]
# ----------------------------------------------------------------------------------------

KINDS = ['RoomList', 'JoinRoom', 'LeaveRoom', 'UserJoined', 'UserLeft', 'MemberGrant', 'MemberRevoke',
         'MembershipGranted', 'MembershipRevoked', 'Members', 'Operators', 'OpGrant', 'OpRevoke', 'OpGranted',
         'OpRevoked', 'Tickers', 'TickerAdd', 'TickerRem', 'RoomChat', 'PublicChat', 'PrivateChat', 'UserStatus',
         'UserStats', 'AddUser', 'PrivUsers', 'AddPrivUser']


def _room(rng):
    return rng.choice(['r0', 'r0', 'r0', 'r1', 'r1', 'r2'])


def _user(rng):
    return rng.choice(['me', 'u1', 'u1', 'u2'])


def _stats(rng):
    return [rng.choice([0, 1, 50, 4000]), rng.choice([0, 3]), rng.choice([0, 7, 100]), rng.choice([0, 2])]


def _sub(rng, pool, maxn=3, dup=False):
    n = rng.randrange(0, maxn + 1)
    xs = [rng.choice(pool) for _ in range(n)]
    if not dup:
        out = []
        for x in xs:
            if x not in out:
                out.append(x)
        xs = out
    return xs


def gen_msg(rng, kind=None):
    k = kind or rng.choice(KINDS)
    if k == 'RoomList':
        return [k, _sub(rng, ROOMS), _sub(rng, ROOMS, 2), _sub(rng, ROOMS, 2), _sub(rng, ROOMS, 2)]
    if k == 'JoinRoom':
        us = _sub(rng, USERS, 3, dup=rng.random() < 0.15)
        users = [[u, rng.randrange(0, 3), _stats(rng)] for u in us]
        if rng.random() < 0.5:
            return [k, _room(rng), users, _user(rng), _sub(rng, USERS, 3, dup=rng.random() < 0.2)]
        return [k, _room(rng), users, None, []]
    if k in ('LeaveRoom', 'MembershipGranted', 'MembershipRevoked', 'OpGranted', 'OpRevoked'):
        return [k, _room(rng)]
    if k == 'UserJoined':
        return [k, _room(rng), _user(rng), rng.randrange(0, 3), _stats(rng)]
    if k in ('UserLeft', 'MemberGrant', 'MemberRevoke', 'OpGrant', 'OpRevoke', 'TickerRem'):
        return [k, _room(rng), _user(rng)]
    if k in ('Members', 'Operators'):
        return [k, _room(rng), _sub(rng, USERS, 3, dup=rng.random() < 0.2)]
    if k == 'Tickers':
        n = rng.randrange(0, 4)
        return [k, _room(rng), [[_user(rng), rng.choice(TEXTS)] for _ in range(n)]]
    if k in ('TickerAdd', 'RoomChat', 'PublicChat'):
        return [k, _room(rng), _user(rng), rng.choice(TEXTS)]
    if k == 'PrivateChat':
        return [k, _user(rng), rng.choice(TEXTS)]
    if k == 'UserStatus':
        return [k, _user(rng), rng.randrange(0, 3), rng.random() < 0.5]
    if k == 'UserStats':
        return [k, _user(rng), _stats(rng)]
    if k == 'AddUser':
        ex = rng.random() < 0.75
        if not ex:
            return [k, _user(rng), False, 0, None]
        return [k, _user(rng), True, rng.randrange(0, 3), _stats(rng)]
    if k == 'PrivUsers':
        return [k, _sub(rng, USERS, 3, dup=rng.random() < 0.2)]
    if k == 'AddPrivUser':
        return [k, _user(rng)]
    raise AssertionError(k)


def gen_seq(rng, maxlen=12):
    n = rng.randrange(1, maxlen + 1)
    style = rng.random()
    if style < 0.35:
        # concentrate on one room and the private-room / operator / ticker messages (compositions)
        kinds = rng.sample(KINDS, k=rng.randrange(3, 8)) + ['OpGranted', 'Operators', 'RoomList']
        return [gen_msg(rng, rng.choice(kinds)) for _ in range(n)]
    return [gen_msg(rng) for _ in range(n)]


def to_message(m):
    """JSON message -> real aioslsk server message object (serialised by the real serialiser)."""
    from aioslsk.protocol import messages as M
    from aioslsk.protocol.primitives import UserStats, RoomTicker
    k = m[0]
    if k == 'RoomList':
        pub, owned, priv, oper = m[1:]
        return M.RoomList.Response(rooms=pub, rooms_user_count=[1] * len(pub), rooms_private_owned=owned,
                                   rooms_private_owned_user_count=[1] * len(owned), rooms_private=priv,
                                   rooms_private_user_count=[1] * len(priv), rooms_private_operated=oper)
    if k == 'JoinRoom':
        _, r, users, owner, ops = m
        kw = {}
        if owner is not None:
            kw = dict(owner=owner, operators=ops)
        return M.JoinRoom.Response(room=r, users=[u[0] for u in users], users_status=[u[1] for u in users],
                                   users_stats=[UserStats(*u[2]) for u in users], users_slots_free=[1] * len(users),
                                   users_countries=['NL'] * len(users), **kw)
    if k == 'LeaveRoom':
        return M.LeaveRoom.Response(m[1])
    if k == 'UserJoined':
        return M.UserJoinedRoom.Response(m[1], m[2], m[3], UserStats(*m[4]), 1, 'NL')
    if k == 'UserLeft':
        return M.UserLeftRoom.Response(m[1], m[2])
    if k == 'MemberGrant':
        return M.PrivateRoomGrantMembership.Response(m[1], m[2])
    if k == 'MemberRevoke':
        return M.PrivateRoomRevokeMembership.Response(m[1], m[2])
    if k == 'MembershipGranted':
        return M.PrivateRoomMembershipGranted.Response(m[1])
    if k == 'MembershipRevoked':
        return M.PrivateRoomMembershipRevoked.Response(m[1])
    if k == 'Members':
        return M.PrivateRoomMembers.Response(m[1], m[2])
    if k == 'Operators':
        return M.PrivateRoomOperators.Response(m[1], m[2])
    if k == 'OpGrant':
        return M.PrivateRoomGrantOperator.Response(m[1], m[2])
    if k == 'OpRevoke':
        return M.PrivateRoomRevokeOperator.Response(m[1], m[2])
    if k == 'OpGranted':
        return M.PrivateRoomOperatorGranted.Response(m[1])
    if k == 'OpRevoked':
        return M.PrivateRoomOperatorRevoked.Response(m[1])
    if k == 'Tickers':
        return M.RoomTickers.Response(m[1], [RoomTicker(u, t) for u, t in m[2]])
    if k == 'TickerAdd':
        return M.RoomTickerAdded.Response(m[1], m[2], m[3])
    if k == 'TickerRem':
        return M.RoomTickerRemoved.Response(m[1], m[2])
    if k == 'RoomChat':
        return M.RoomChatMessage.Response(m[1], m[2], m[3])
    if k == 'PublicChat':
        return M.PublicChatMessage.Response(m[1], m[2], m[3])
    if k == 'PrivateChat':
        return M.PrivateChatMessage.Response(7, 1234, m[1], m[2], True)
    if k == 'UserStatus':
        return M.GetUserStatus.Response(m[1], m[2], m[3])
    if k == 'UserStats':
        return M.GetUserStats.Response(m[1], UserStats(*m[2]))
    if k == 'AddUser':
        if not m[2]:
            return M.AddUser.Response(m[1], False)
        return M.AddUser.Response(m[1], True, m[3], UserStats(*m[4]), 'NL')
    if k == 'PrivUsers':
        return M.PrivilegedUsers.Response(m[1])
    if k == 'AddPrivUser':
        return M.AddPrivilegedUser.Response(m[1])
    raise AssertionError(k)


# ----------------------------------------------------------------------------------------
# implementation side
# ----------------------------------------------------------------------------------------

EVENT_LABELS = {
    'RoomMessageEvent': 'LRoomMessage', 'PublicMessageEvent': 'LPublicMessage', 'PrivateMessageEvent': 'LPrivateMessage',
    'RoomJoinedEvent': 'LRoomJoined', 'RoomLeftEvent': 'LRoomLeft', 'RoomTickersEvent': 'LRoomTickers',
    'RoomTickerAddedEvent': 'LTickerAdded', 'RoomTickerRemovedEvent': 'LTickerRemoved',
    'RoomMembershipGrantedEvent': 'LMembershipGranted', 'RoomMembershipRevokedEvent': 'LMembershipRevoked',
    'RoomMembersEvent': 'LMembers', 'RoomOperatorGrantedEvent': 'LOperatorGranted',
    'RoomOperatorRevokedEvent': 'LOperatorRevoked', 'RoomOperatorsEvent': 'LOperators', 'RoomListEvent': 'LRoomList',
    'UserStatusUpdateEvent': 'LUserStatus', 'UserStatsUpdateEvent': 'LUserStats',
    'PrivilegedUsersEvent': 'LPrivilegedUsers', 'PrivilegedUserAddedEvent': 'LPrivilegedUserAdded',
}


def _event_tuple(e):
    n = type(e).__name__
    lab = EVENT_LABELS[n]
    room = user = None
    if n == 'RoomMessageEvent':
        room, user = e.message.room.name, e.message.user.name
    elif n == 'PrivateMessageEvent':
        user = e.message.user.name
    elif n in ('UserStatusUpdateEvent', 'UserStatsUpdateEvent'):
        user = e.current.name
    else:
        if hasattr(e, 'room'):
            room = e.room.name
        for attr in ('user', 'member'):
            if hasattr(e, attr):
                u = getattr(e, attr)
                user = u.name if u is not None else None
    return [lab, room, user]


def snapshot(client, collect=False):
    if collect:
        import gc
        gc.collect()      # unpinned users: reference cycles must not decide whether a user object is still there
    rooms = []
    for name, r in client.rooms.rooms.items():
        assert r.name == name
        rooms.append([name, bool(r.private), [u.name for u in r.users], bool(r.joined),
                      [[u, t] for u, t in r.tickers.items()], sorted(r.members), r.owner, sorted(r.operators)])
    users = []
    for name, u in client.users._users.items():
        st = None
        if u.avg_speed is not None or u.uploads is not None or u.shared_file_count is not None or u.shared_folder_count is not None:
            st = [u.avg_speed, u.uploads, u.shared_file_count, u.shared_folder_count]
        users.append([name, u.status.value, st, bool(u.privileged)])
    return {'rooms': rooms, 'users': users, 'privset': sorted(client.users._privileged_users)}


def run_impl(blocked: dict, msgs: list, env=None):
    """Send msgs through a real logged-in client; per message: (snapshot, events)."""
    from vlib.world import World
    from aioslsk.user.model import BlockingFlag
    import aioslsk.events as E
    w = World(username='me')
    try:
        w.settings.users.blocked = {u: BlockingFlag[f] for u, f in blocked.items()}
        if env == 'friends':
            # the blocked users are friends as well (the block filters are about the message kind, not about friendship)
            w.settings.users.friends = set(blocked) | {'u2'}
        w.start()
        w.login()
        client = w.client
        pins = [client.users.get_user_object(n) for n in USERS]   # users are held weakly by the manager
        got = []

        def listener(e):
            got.append(e)
        for n in EVENT_LABELS:
            client.events.register(getattr(E, n), listener)
        # helper-exercising environments: other listeners on the same events that raise / suspend / are registered late
        import asyncio
        keep = []
        late = []
        if env == 'raising':
            def bad_listener(e):
                raise RuntimeError('listener failed')
            keep.append(bad_listener)
        elif env == 'suspending':
            async def slow_listener(e):
                await asyncio.sleep(0)
                await asyncio.sleep(0)
            keep.append(slow_listener)
        for fn in keep:
            for n in EVENT_LABELS:
                client.events.register(getattr(E, n), fn, priority=10)
        late_from = len(msgs) // 2 if env == 'late' else None
        all_events = []
        collect = 'u3' in json.dumps(msgs)
        out = [(snapshot(client, collect), [])]
        for i, m in enumerate(msgs):
            if late_from is not None and i == late_from:
                def late_listener(e):
                    late.append(_event_tuple(e))
                keep.append(late_listener)
                for n in EVENT_LABELS:
                    client.events.register(getattr(E, n), late_listener)
            del got[:]
            w.server_send(to_message(m))
            w.settle(14 if env is None else 40)
            evs = [_event_tuple(e) for e in got]
            if late_from is not None and i >= late_from:
                all_events += evs
            out.append((snapshot(client, collect), evs))
        assert len(pins) == 3
        bad = [c for c in w.loop.unhandled if c.get('exception') is not None]
        problems = [repr(c.get('exception')) for c in bad]
        if late_from is not None and late != all_events:
            problems.append(f'a listener registered later received {late} instead of {all_events}')
        return out, problems
    finally:
        try:
            w.stop()
        except Exception:
            w.close()


# ----------------------------------------------------------------------------------------
# L3: the property text as an independent replay (rooms: dict of dicts with Python sets)
# ----------------------------------------------------------------------------------------

class Reference:
    """'join adds, leave removes, grant adds, revoke removes, lists replace', replayed in order.
    `own_grant_discards=True` reproduces the shape of finding F24 (used only to classify)."""

    def __init__(self, blocked, own_grant_discards=False):
        self.rooms = {}
        self.users = {n: {'status': -1, 'stats': None, 'priv': False} for n in ALL_USERS}
        self.users['me']['status'] = 2          # online after login
        self.blocked = blocked
        self.quirk = own_grant_discards

    def _room(self, r, private):
        if r not in self.rooms:
            self.rooms[r] = {'private': private, 'users': set(), 'joined': False, 'tickers': {}, 'members': set(),
                             'owner': None, 'ops': set()}
        return self.rooms[r]

    def _is_blocked(self, u, kind):
        f = self.blocked.get(u)
        if f is None:
            return False
        if kind == 'room':
            return f in ('ROOM_MESSAGES', 'IGNORE', 'ALL')
        return f in ('PRIVATE_MESSAGES', 'IGNORE', 'ALL')

    def apply(self, m):
        """returns the events that must be reported: list of [label, room, user]"""
        k = m[0]
        U = self.users
        if k == 'RoomList':
            pub, owned, priv, oper = m[1:]
            named = set(pub) | set(owned) | set(priv)
            for r in named:
                self._room(r, r not in pub)
            for r in list(self.rooms):
                if r not in named:
                    del self.rooms[r]
            for r, x in self.rooms.items():
                x['private'] = r not in pub
                if r in owned:
                    x['owner'] = 'me'
                elif x['owner'] == 'me':
                    x['owner'] = None
                (x['members'].add if r in priv else x['members'].discard)('me')
                (x['ops'].add if r in oper else x['ops'].discard)('me')
            return [['LRoomList', None, None]]
        if k == 'JoinRoom':
            _, r, users, owner, ops = m
            x = self._room(r, False)
            x['joined'] = True
            x['private'] = owner is not None
            for u, st, ss in users:
                U[u]['status'], U[u]['stats'] = st, ss
                x['users'].add(u)
            x['owner'] = owner
            x['ops'] = set(ops)
            return [['LRoomJoined', r, None]]
        if k == 'LeaveRoom':
            x = self._room(m[1], False)
            x['joined'] = False
            x['users'] = set()
            return [['LRoomLeft', m[1], None]]
        if k == 'UserJoined':
            _, r, u, st, ss = m
            U[u]['status'], U[u]['stats'] = st, ss
            self._room(r, False)['users'].add(u)
            return [['LRoomJoined', r, u]]
        if k == 'UserLeft':
            self._room(m[1], False)['users'].discard(m[2])
            return [['LRoomLeft', m[1], m[2]]]
        if k == 'MemberGrant':
            self._room(m[1], True)['members'].add(m[2])
            return [['LMembershipGranted', m[1], m[2]]]
        if k == 'MembershipGranted':
            self._room(m[1], True)['members'].add('me')
            return [['LMembershipGranted', m[1], None]]
        if k == 'MemberRevoke':
            x = self._room(m[1], True)
            x['members'].discard(m[2])
            x['ops'].discard(m[2])
            return [['LMembershipRevoked', m[1], m[2]]]
        if k == 'MembershipRevoked':
            x = self._room(m[1], True)
            x['members'].discard('me')
            x['ops'].discard('me')
            return [['LMembershipRevoked', m[1], None]]
        if k == 'Members':
            self._room(m[1], True)['members'] = set(m[2])
            return [['LMembers', m[1], None]]
        if k == 'Operators':
            self._room(m[1], True)['ops'] = set(m[2])
            return [['LOperators', m[1], None]]
        if k == 'OpGrant':
            self._room(m[1], True)['ops'].add(m[2])
            return [['LOperatorGranted', m[1], m[2]]]
        if k == 'OpRevoke':
            self._room(m[1], True)['ops'].discard(m[2])
            return [['LOperatorRevoked', m[1], m[2]]]
        if k == 'OpGranted':
            x = self._room(m[1], True)
            if self.quirk:
                x['ops'].discard('me')
            else:
                x['ops'].add('me')                      # grant adds
            return [['LOperatorGranted', m[1], None]]
        if k == 'OpRevoked':
            self._room(m[1], True)['ops'].discard('me')
            return [['LOperatorRevoked', m[1], None]]
        if k == 'Tickers':
            x = self._room(m[1], False)
            x['tickers'] = {}
            for u, t in m[2]:
                x['tickers'][u] = t
            return [['LRoomTickers', m[1], None]]
        if k == 'TickerAdd':
            self._room(m[1], False)['tickers'][m[2]] = m[3]
            return [['LTickerAdded', m[1], m[2]]]
        if k == 'TickerRem':
            self._room(m[1], False)['tickers'].pop(m[2], None)
            return [['LTickerRemoved', m[1], m[2]]]
        if k in ('RoomChat', 'PublicChat'):
            if self._is_blocked(m[2], 'room'):
                return []
            self._room(m[1], False)
            return [['LRoomMessage' if k == 'RoomChat' else 'LPublicMessage', m[1], m[2]]]
        if k == 'PrivateChat':
            if self._is_blocked(m[1], 'private'):
                return []
            return [['LPrivateMessage', None, m[1]]]
        if k == 'UserStatus':
            U[m[1]]['status'], U[m[1]]['priv'] = m[2], m[3]
            return [['LUserStatus', None, m[1]]]
        if k == 'UserStats':
            U[m[1]]['stats'] = m[2]
            return [['LUserStats', None, m[1]]]
        if k == 'AddUser':
            if m[2]:
                U[m[1]]['status'] = m[3]
                if m[4] is not None:
                    U[m[1]]['stats'] = m[4]
            return []
        if k == 'PrivUsers':
            for u in U:
                U[u]['priv'] = u in m[1]
            return [['LPrivilegedUsers', None, None]]
        if k == 'AddPrivUser':
            U[m[1]]['priv'] = True
            return [['LPrivilegedUserAdded', None, m[1]]]
        raise AssertionError(k)

    def view(self):
        rooms = {r: [x['private'], sorted(x['users']), x['joined'], sorted(x['tickers'].items()), sorted(x['members']),
                     x['owner'], sorted(x['ops'])] for r, x in self.rooms.items()}
        users = {u: [x['status'], x['stats'], x['priv']] for u, x in self.users.items()}
        return {'rooms': rooms, 'users': users}


def impl_view(snap):
    rooms = {r[0]: [r[1], sorted(r[2]), r[3], sorted(tuple(t) for t in r[4]), r[5], r[6], r[7]] for r in snap['rooms']}
    users = {u[0]: [u[1], u[2], u[3]] for u in snap['users']}
    return {'rooms': rooms, 'users': users}


def _norm(v):
    return json.loads(json.dumps(v))


def monitor(blocked, msgs, obs):
    """Compare the implementation with the property replay after every message.
    Returns None or (step, what, observed, expected, is_f24_shape)."""
    ref = Reference(blocked)
    quirk = Reference(blocked, own_grant_discards=True)
    first = None
    quirk_ok = True
    for i, m in enumerate(msgs):
        exp_ev = ref.apply(m)
        quirk.apply(m)
        snap, evs = obs[i + 1]
        iv = _norm(impl_view(snap))

        def _restrict(v):
            v = _norm(v)
            v['users'] = {u: x for u, x in v['users'].items() if u in USERS or u in iv['users']}
            return v
        if first is None:
            if _norm(evs) != _norm(exp_ev):
                first = (i, 'events', evs, exp_ev)
            else:
                rv = _restrict(ref.view())
                if iv != rv:
                    what = 'view'
                    for r in set(iv['rooms']) | set(rv['rooms']):
                        if iv['rooms'].get(r) != rv['rooms'].get(r):
                            a, b = iv['rooms'].get(r), rv['rooms'].get(r)
                            if a is None or b is None:
                                what = f'room {r} known'
                            else:
                                names = ['private', 'users', 'joined', 'tickers', 'members', 'owner', 'operators']
                                what = f'room {r} ' + ','.join(n for n, x, y in zip(names, a, b) if x != y)
                    if what == 'view':
                        for u in ALL_USERS:
                            a, b = iv['users'].get(u), rv['users'].get(u)
                            if a != b:
                                names = ['status', 'stats', 'privileged']
                                what = f'user {u} ' + (','.join(n for n, x, y in zip(names, a or [], b or []) if x != y) or 'known')
                    first = (i, what, iv, rv)
        if iv != _restrict(quirk.view()):
            quirk_ok = False
    if first is None:
        return None
    is_f24 = quirk_ok and first[1].endswith('operators') and msgs[first[0]][0] == 'OpGranted'
    return first + (is_f24,)


# ----------------------------------------------------------------------------------------
# model side
# ----------------------------------------------------------------------------------------

HEADER = r'''From Coq Require Import ZArith List Bool Arith.
From Slsk Require Import C19.Spec C19.Model.
From SlskGen Require Import RoomGen.
Import ListNotations.
Open Scope nat_scope.
Definition zz (a b c d : Z) : stats := (a, b, c, d).
Fixpoint ins (x : nat) (l : list nat) := match l with [] => [x] | y :: r => if Nat.leb x y then x :: l else y :: ins x r end.
Definition srt (l : list nat) := fold_right ins [] l.
Fixpoint leq {A} (e : A -> A -> bool) (a b : list A) := match a, b with [] , [] => true | x :: a, y :: b => e x y && leq e a b | _, _ => false end.
Definition oeq {A} (e : A -> A -> bool) (a b : option A) := match a, b with None, None => true | Some x, Some y => e x y | _, _ => false end.
Definition peq {A B} (e : A -> A -> bool) (f : B -> B -> bool) (a b : A * B) := e (fst a) (fst b) && f (snd a) (snd b).
Definition seq4 (a b : stats) := let '(a1, a2, a3, a4) := a in let '(b1, b2, b3, b4) := b in (Z.eqb a1 b1 && Z.eqb a2 b2 && Z.eqb a3 b3 && Z.eqb a4 b4)%bool.
Definition req (a b : rrec) := Bool.eqb (r_private a) (r_private b) && leq Nat.eqb (r_users a) (r_users b) && Bool.eqb (r_joined a) (r_joined b)
  && leq (peq Nat.eqb Nat.eqb) (r_tickers a) (r_tickers b) && leq Nat.eqb (srt (r_members a)) (r_members b)
  && oeq Nat.eqb (r_owner a) (r_owner b) && leq Nat.eqb (srt (r_ops a)) (r_ops b).
Definition ueq (a b : urec) := Z.eqb (u_status a) (u_status b) && oeq seq4 (u_stats a) (u_stats b) && Bool.eqb (u_priv a) (u_priv b).
(* user 3 is not held by the harness: the implementation forgets it when nothing references it any more; the model's entry
   is compared only while the implementation has one *)
Definition uvis (b : list (nat * urec)) (p : nat * urec) := negb (Nat.eqb (fst p) 3) || existsb (fun q => Nat.eqb (fst q) 3) b.
Definition steq (a b : state) := leq (peq Nat.eqb req) (rooms a) (rooms b) && leq (peq Nat.eqb ueq) (filter (uvis (users b)) (users a)) (users b) && leq Nat.eqb (srt (privset a)) (privset b).
Definition labeq (a b : label) := match a, b with
 | LRoomMessage, LRoomMessage | LPublicMessage, LPublicMessage | LPrivateMessage, LPrivateMessage | LRoomJoined, LRoomJoined
 | LRoomLeft, LRoomLeft | LRoomTickers, LRoomTickers | LTickerAdded, LTickerAdded | LTickerRemoved, LTickerRemoved
 | LMembershipGranted, LMembershipGranted | LMembershipRevoked, LMembershipRevoked | LMembers, LMembers
 | LOperatorGranted, LOperatorGranted | LOperatorRevoked, LOperatorRevoked | LOperators, LOperators | LRoomList, LRoomList
 | LUserStatus, LUserStatus | LUserStats, LUserStats | LPrivilegedUsers, LPrivilegedUsers | LPrivilegedUserAdded, LPrivilegedUserAdded => true
 | _, _ => false end.
Definition eveq (a b : event) := labeq (ev_label a) (ev_label b) && oeq Nat.eqb (ev_room a) (ev_room b) && oeq Nat.eqb (ev_user a) (ev_user b).
Definition stepeq (a b : state * list event) := steq (fst a) (fst b) && leq eveq (snd a) (snd b).
Definition R := mkR. Definition U := mkU. Definition S := mkS. Definition E := mkEv.
(* index of the first differing step, or 99 when the traces agree *)
Fixpoint firstdiff (n : nat) (a b : list (state * list event)) : nat :=
  match a, b with
  | [], [] => 99
  | x :: a, y :: b => if stepeq x y then firstdiff (S n) a b else n
  | _, _ => n
  end.
'''
HEADER = HEADER.replace('firstdiff (S n)', 'firstdiff (Datatypes.S n)')


def _b(x):
    return 'true' if x else 'false'


def _l(xs):
    return '[' + ';'.join(xs) + ']'


def _o(x, f=str):
    return 'None' if x is None else f'(Some {f(x)})'


def _z(n):
    return f'({n})%Z' if n < 0 else f'{n}%Z'


def _st(ss):
    # a component the implementation left unset (None) becomes a value the model never produces
    return 'zz ' + ' '.join(_z(-999 if x is None else x) for x in ss)


def coq_msg(m):
    k = m[0]
    r = lambda x: str(RID[x])
    u = lambda x: str(UID[x])
    t = lambda x: str(TID[x])
    if k == 'RoomList':
        return 'RoomListM ' + ' '.join(_l(map(r, x)) for x in m[1:])
    if k == 'JoinRoom':
        us = _l(f'({u(a)},({_z(b)},{_st(c)}))' for a, b, c in m[2])
        return f'JoinRoomM {r(m[1])} {us} {_o(m[3], u)} {_l(map(u, m[4]))}'
    if k in ('LeaveRoom', 'MembershipGranted', 'MembershipRevoked', 'OpGranted', 'OpRevoked'):
        return f'{k}M {r(m[1])}'
    if k == 'UserJoined':
        return f'UserJoinedM {r(m[1])} {u(m[2])} {_z(m[3])} ({_st(m[4])})'
    if k in ('UserLeft', 'MemberGrant', 'MemberRevoke', 'OpGrant', 'OpRevoke', 'TickerRem'):
        return f'{k}M {r(m[1])} {u(m[2])}'
    if k in ('Members', 'Operators'):
        return f'{k}M {r(m[1])} {_l(map(u, m[2]))}'
    if k == 'Tickers':
        return f'TickersM {r(m[1])} ' + _l(f'({u(a)},{t(b)})' for a, b in m[2])
    if k in ('TickerAdd', 'RoomChat', 'PublicChat'):
        return f'{k}M {r(m[1])} {u(m[2])} {t(m[3])}'
    if k == 'PrivateChat':
        return f'PrivateChatM {u(m[1])} {t(m[2])}'
    if k == 'UserStatus':
        return f'UserStatusM {u(m[1])} {_z(m[2])} {_b(m[3])}'
    if k == 'UserStats':
        return f'UserStatsM {u(m[1])} ({_st(m[2])})'
    if k == 'AddUser':
        return f'AddUserM {u(m[1])} {_b(m[2])} {_z(m[3])} ' + ('None' if m[4] is None else f'(Some ({_st(m[4])}))')
    if k == 'PrivUsers':
        return f'PrivUsersM {_l(map(u, m[1]))}'
    if k == 'AddPrivUser':
        return f'AddPrivUserM {u(m[1])}'
    raise AssertionError(k)


def coq_state(snap):
    rooms = _l(
        f'({RID[r[0]]},R {_b(r[1])} {_l(str(UID[x]) for x in r[2])} {_b(r[3])} '
        f'{_l(f"({UID[a]},{TID[b]})" for a, b in r[4])} {_l(str(UID[x]) for x in sorted(r[5], key=UID.get))} '
        f'{_o(r[6], lambda x: str(UID[x]))} {_l(str(UID[x]) for x in sorted(r[7], key=UID.get))})' for r in snap['rooms'])
    users = _l(f'({UID[x[0]]},U {_z(x[1])} {"None" if x[2] is None else "(Some (" + _st(x[2]) + "))"} {_b(x[3])})' for x in snap['users'])
    ps = _l(str(UID[x]) for x in sorted(snap['privset'], key=UID.get))
    return f'S {rooms} {users} {ps}'


def coq_events(evs):
    return _l(f'E {lab} {_o(r, lambda x: str(RID[x]))} {_o(u, lambda x: str(UID[x]))}' for lab, r, u in evs)


def coq_blocked(blocked):
    def pr(f):
        return (f in ('PRIVATE_MESSAGES', 'IGNORE', 'ALL'), f in ('ROOM_MESSAGES', 'IGNORE', 'ALL'))
    return _l(f'({UID[u]},({_b(pr(f)[0])},{_b(pr(f)[1])}))' for u, f in blocked.items())


def coq_cases(cases):
    rows = []
    for idx, (blocked, msgs, obs) in enumerate(cases):
        exp = _l(f'({coq_state(s)},{coq_events(e)})' for s, e in obs[1:])
        rows.append(f' ({idx}, {coq_blocked(blocked)}, {coq_state(obs[0][0])}, {_l(coq_msg(m) for m in msgs)},\n   {exp})')
    body = ('Definition cases : list (nat * blockmap * state * list msg * list (state * list event)) := [\n' + ';\n'.join(rows) + '].\n'
            'Definition res := map (fun c => match c with (i, bl, s0, ms, ex) => (i, firstdiff 0 (trace 0 bl s0 ms) ex) end) cases.\n'
            'Definition bad := filter (fun p => negb (Nat.eqb (snd p) 99)) res.\n'
            'Eval vm_compute in (map fst bad).\nEval vm_compute in (map snd bad).\n')
    return HEADER + body


def model_check(run, cases, tag='c19'):
    """Returns list of (case index, first differing step)."""
    shard = 60
    texts = [coq_cases(cases[i:i + shard]) for i in range(0, len(cases), shard)]
    outs = coq_eval_many(tag, texts, timeout=600)
    bad = []
    for k, out in enumerate(outs):
        vals = parse_eval(out)
        if len(vals) < 2:
            raise BrokenTie('correspondence:C19', f'no output from shard {k}: {out[:300]}')
        for a, b in zip(parse_coq_list(vals[0]), parse_coq_list(vals[1])):
            bad.append((k * shard + int(a), int(b)))
    return bad


# ----------------------------------------------------------------------------------------

def _check_one(blocked, msgs, env=None):
    obs, exc = run_impl(blocked, msgs, env)
    return obs, exc, monitor(blocked, msgs, obs)


def _f24(run, blocked, msgs, mon):
    step, what, observed, expected, _ = mon
    run.add_finding(Finding(
        F24_KEY,
        'PrivateRoomOperatorGranted (own operator grant) removes the own name from Room.operators instead of adding it',
        {'blocked': blocked, 'msgs': msgs}, observed={'step': step, 'what': what, 'rooms': observed['rooms']},
        expected=expected['rooms']))


def run(run: Run):
    run.rule = ('server notification sequences of length 1..12 over rooms r0..r2 and users me,u1,u2 (26 message kinds: room list, '
                'join/leave self+others, private-room membership/operator grant/revoke self+others, member/operator lists, tickers '
                'set/add/remove, chats, status/stats/privileges), 9 block maps; each sequence is sent as real frames to a real '
                'logged-in client and compared after EVERY message; distinct = distinct (block map, sequence); non-trivial = at '
                'least 3 messages and 2 kinds')
    run.trusted += ['users are pinned by the harness (UserManager holds them weakly): garbage collection of user objects is not explored',
                    'user_count, country, slots_free and chat texts/timestamps are not part of the compared view',
                    'status values are drawn from the valid UserStatus range 0..2 (UserStatus(n) raises for others)']
    run.assumptions += ['message fields name only the 3 rooms / 3 users of the scope (the theorems are for arbitrary names)',
                        'JoinRoom replies carry owner and operators together or not at all']
    proved = run.prove(['tr_rooms'])

    cases = []
    witnessed_f24 = False

    def explore(blocked, msgs, kind, env=None):
        nonlocal witnessed_f24
        try:
            obs, exc, mon = _check_one(blocked, msgs, env)
        except Exception as e:  # the real client crashed on a well-formed notification sequence
            run.add_finding(Finding('impl-exception', f'client raised {type(e).__name__}: {e}', {'blocked': blocked, 'msgs': msgs}))
            return
        run.case({'b': blocked, 'm': msgs, 'env': env}, nontrivial=len(msgs) >= 3 and len({m[0] for m in msgs}) >= 2, kind=kind)
        run.count('messages', len(msgs))
        for m in msgs:
            run.count('kind:' + m[0])
        if exc:
            run.add_finding(Finding('handler-exception', f'unhandled exception in a handler: {exc[0]}', {'blocked': blocked, 'msgs': msgs}))
        cases.append((blocked, msgs, obs))
        if mon:
            if mon[4]:
                if not witnessed_f24:
                    witnessed_f24 = True
                    small = shrink_list(msgs, lambda ms: _is_f24(blocked, ms), max_steps=120)
                    o2, _, m2 = _check_one(blocked, small)
                    _f24(run, blocked, small, m2)
            else:
                small = shrink_list(msgs, lambda ms: _differs(blocked, ms), max_steps=150)
                o2, _, m2 = _check_one(blocked, small)
                m2 = m2 or mon
                run.add_finding(Finding(f'view-mismatch:{m2[1].split(" ")[-1]}',
                                        f'after message {m2[0]} the implementation\'s {m2[1]} differs from the replay of the notifications',
                                        {'blocked': blocked, 'msgs': small}, observed=m2[2], expected=m2[3]))

    # listed findings first (deterministic KNOWN-FINDING line), fixed ones are re-checked too
    for key, wit, _fixed in run.known_witnesses():
        obs, exc, mon = _check_one(wit['blocked'], wit['msgs'])
        run.case({'corpus': key}, kind='corpus')
        cases.append((wit['blocked'], wit['msgs'], obs))
        if mon and mon[4]:
            witnessed_f24 = True
            _f24(run, wit['blocked'], wit['msgs'], mon)
        elif mon:
            run.add_finding(Finding(f'view-mismatch:{mon[1].split(" ")[-1]}', f'{mon[1]} differs at step {mon[0]}',
                                    wit, observed=mon[2], expected=mon[3]))

    # one message of every kind from the initial state, and all pairs (kind, OpGranted/RoomList) for composition
    rng = run.rng
    for k in KINDS:
        explore({}, [gen_msg(rng, k)], 'single')
    # every message kind applied to states with >= 2 entries in every container (seed-independent), then once more
    for pi, prefix in enumerate(RICH_PREFIXES):
        for a in alphabet():
            explore({}, prefix + [a], f'rich{pi}')
            if run.tier != 'quick':
                for b in alphabet()[::9]:
                    explore({}, prefix + [a, b], f'rich{pi}+2')
    # helper-exercising environments (EventBus: raising / suspending / late listeners next to the handlers); all of them when a
    # tie is broken or in the thorough tier, one sequence each otherwise
    al = alphabet()
    for env in ('raising', 'suspending', 'late'):
        npre = len(RICH_PREFIXES) if (not proved or run.tier != 'quick') else 1
        for pi in range(npre):
            for k in range(4 if (not proved or run.tier != 'quick') else 1):
                explore({'u2': 'IGNORE'} if k % 2 else {}, RICH_PREFIXES[pi] + al[k::4][:8], 'env:' + env, env)
    # block filters with the blocked users being friends as well (settings.users.friends), every chat kind
    st = [5, 1, 7, 2]
    chats = [['RoomChat', 'r0', 'u1', 't0'], ['PublicChat', 'r0', 'u1', 't1'], ['PrivateChat', 'u1', 't2'], ['RoomChat', 'r1', 'u2', 't0'],
             ['PrivateChat', 'u2', 't3'], ['PublicChat', 'r0', 'me', 't0'], ['PrivateChat', 'me', 't1']]
    for bm in ({'u1': 'IGNORE'}, {'u1': 'ROOM_MESSAGES', 'u2': 'PRIVATE_MESSAGES'}, {'u1': 'ALL', 'me': 'IGNORE'}, {'u2': 'SEARCHES'}):
        explore(bm, [['UserJoined', 'r0', 'u1', 2, st]] + chats, 'friends+blocked', 'friends')
    # a user that is first referenced AFTER a privileged-users list named it (u3 is not held by the harness: the user object is
    # created by the first handler that references it and lives as long as a room lists it)
    for seq in ([['PrivUsers', ['u3', 'u1']], ['UserJoined', 'r0', 'u3', 2, st], ['UserStatus', 'u3', 1, True], ['PrivUsers', ['u1']],
                 ['AddPrivUser', 'u3'], ['UserStats', 'u3', [1, 2, 3, 4]]],
                [['PrivUsers', ['u3']], ['JoinRoom', 'r0', [['u3', 2, st], ['u1', 1, st]], None, []], ['PrivUsers', []],
                 ['UserJoined', 'r1', 'u3', 0, st], ['PrivUsers', ['u3', 'u2']]],
                [['UserJoined', 'r0', 'u3', 2, st], ['PrivUsers', ['u3']], ['UserLeft', 'r0', 'u3']],
                [['PrivUsers', ['u2', 'u3']], ['LeaveRoom', 'r0'], ['UserJoined', 'r0', 'u3', 1, st], ['UserJoined', 'r0', 'u2', 1, st]]):
        explore({}, seq, 'late-user')
    n = 60 if run.tier == "quick" else 2000
    for i in range(n):
        explore(rng.choice(BLOCKMAPS), gen_seq(rng), 'random')

    # directed search: a proof / the translator broke and the random sequences did not produce a concrete failing history:
    # small-scope enumeration (every ordered pair of a compact message alphabet) on the implementation under the monitor
    if not proved and not run.findings:
        import time as _t
        t_end = _t.time() + (90 if run.tier == 'quick' else 300)
        for blocked, msgs in small_scope():
            explore(blocked, msgs, 'directed')
            if run.findings or _t.time() > t_end:
                break

    # L2
    try:
        bad = model_check(run, cases)
        for ci, step in bad[:1]:
            blocked, msgs, obs = cases[ci]
            run.add_broken('correspondence:C19 model(trace) vs RoomManager/UserManager',
                           f'first diverging history: blocked={blocked} msgs={msgs} step={step} impl_after={obs[min(step + 1, len(obs) - 1)]}')
        run.cov['traces_validated_against_impl'] = len(cases) - len(bad)
        run.cov['steps_compared'] = sum(len(c[1]) for c in cases)
    except BrokenTie as e:
        run.add_broken(e.obligation, e.detail)


def alphabet():
    """one or two fixed instances of every message kind on room r0 / users me, u1, u2"""
    st = [5, 1, 7, 2]
    return [
        ['RoomList', ['r0'], [], [], []], ['RoomList', [], ['r0'], ['r0'], ['r0']], ['RoomList', [], [], [], []],
        ['JoinRoom', 'r0', [['u1', 2, st]], None, []], ['JoinRoom', 'r0', [['me', 1, st]], 'u1', ['me']], ['LeaveRoom', 'r0'],
        ['UserJoined', 'r0', 'u1', 1, st], ['UserLeft', 'r0', 'u1'], ['MemberGrant', 'r0', 'u1'], ['MemberRevoke', 'r0', 'u1'],
        ['MembershipGranted', 'r0'], ['MembershipRevoked', 'r0'], ['Members', 'r0', ['me', 'u1']], ['Members', 'r0', []],
        ['Operators', 'r0', ['me', 'u1']], ['Operators', 'r0', []], ['OpGrant', 'r0', 'u1'], ['OpRevoke', 'r0', 'u1'],
        ['OpGranted', 'r0'], ['OpRevoked', 'r0'], ['Tickers', 'r0', [['u1', 't0'], ['me', 't1']]], ['Tickers', 'r0', []],
        ['TickerAdd', 'r0', 'u1', 't2'], ['TickerRem', 'r0', 'u1'], ['RoomChat', 'r0', 'u1', 't0'], ['PublicChat', 'r0', 'u1', 't0'],
        ['PrivateChat', 'u1', 't0'], ['UserStatus', 'u1', 2, True], ['UserStatus', 'u1', 2, False], ['UserStatus', 'u1', 1, False],
        ['UserStats', 'u1', st], ['AddUser', 'u1', True, 1, st], ['AddUser', 'u1', False, 0, None], ['PrivUsers', ['u1']], ['PrivUsers', []],
        ['AddPrivUser', 'u1'],
        ['JoinRoom', 'r0', [['u1', 2, st], ['u2', 0, st], ['me', 2, st]], None, []],
        # every status value (offline / away / online) through every status-carrying notification
        ['UserStatus', 'u1', 0, False], ['UserStatus', 'u2', 0, True], ['UserStatus', 'me', 0, False],
        ['UserJoined', 'r0', 'u2', 0, st], ['UserJoined', 'r0', 'u1', 2, st], ['AddUser', 'u1', True, 0, st], ['AddUser', 'u2', True, 2, st],
        ['UserStats', 'u2', [0, 0, 0, 0]],
    ]


# states with something in every container of room r0 (several users, members, operators, tickers, owner, privileged users):
# the compositions the property is about start from such states, not from the empty model
RICH_PREFIXES = [
    [['JoinRoom', 'r0', [['u1', 2, [5, 1, 7, 2]], ['u2', 1, [0, 0, 0, 0]], ['me', 2, [1, 1, 1, 1]]], 'u2', ['me', 'u1', 'u2']],
     ['Members', 'r0', ['me', 'u1', 'u2']], ['Tickers', 'r0', [['u1', 't0'], ['u2', 't1'], ['me', 't2']]], ['PrivUsers', ['u1', 'u2']]],
    [['RoomList', ['r0'], [], [], []], ['UserJoined', 'r0', 'u1', 2, [5, 1, 7, 2]], ['UserJoined', 'r0', 'u2', 1, [0, 0, 0, 0]],
     ['UserStatus', 'u1', 2, True]],
    [['RoomList', [], ['r0'], ['r0'], ['r0']], ['Operators', 'r0', ['me', 'u1']], ['Members', 'r0', ['me', 'u1']],
     ['JoinRoom', 'r0', [['u1', 2, [5, 1, 7, 2]], ['u2', 1, [0, 0, 0, 0]]], 'me', ['me', 'u1']]],
]


def small_scope():
    """every ordered pair over the compact alphabet"""
    alpha = alphabet()
    for blocked in ({}, {'u1': 'IGNORE'}):
        for a in alpha:
            yield blocked, [a]
    for a in alpha:
        for b in alpha:
            yield {}, [a, b]


def _differs(blocked, msgs):
    try:
        _, _, mon = _check_one(blocked, msgs)
    except Exception:
        return False
    return bool(mon) and not mon[4]


def _is_f24(blocked, msgs):
    try:
        _, _, mon = _check_one(blocked, msgs)
    except Exception:
        return False
    return bool(mon) and mon[4]


def replay(rep) -> int:
    wit = rep['witness']
    obs, exc, mon = _check_one(wit['blocked'], wit['msgs'])
    print('blocked:', wit['blocked'])
    for i, m in enumerate(wit['msgs']):
        print(f'  {i}: {m}\n      rooms={obs[i + 1][0]["rooms"]} events={obs[i + 1][1]}')
    print('monitor:', mon)
    return 1 if (mon or exc) else 0
