"""C07 — a search over the shares returns exactly the files that match the query; index exact.

L1  theories/C07/Props.v over the hand model C07/Model.v and the regenerated gen/CharTable.v
L2  correspondence: random directory trees in a temp dir, histories of add / remove / update /
    scan / load_from_settings operations and on-disk changes on the real SharesManager, compared
    after every step with the model run inside coqc (vm_compute): per-directory item sets with
    query paths and owner aliases, term-map keys, weak-set population, get_stats(), and the
    results (visible/locked split) of generated queries; the real `re` engine is compared with
    `term_occurs` on all term/path pairs of the run.
L3  monitor = the property text, written independently of both: brute force over the files held
    by the shared directories ("contains every include term, matches every wildcard term and no
    exclude term, as whole words, case-insensitively", path relative to the innermost shared
    directory), index-vs-disk exactness after a rescan of everything, folder/file counts.
"""
from __future__ import annotations

import gc
import json
import os
import re
import shutil
import tempfile

from vlib.common import Run, Finding, BrokenTie, coq_eval_many, parse_eval, parse_coq_list

MODES = ['everyone', 'friends', 'users']
USERS = ['u1', 'u2', 'u3']

K_F04 = 'F04-wildcard-prefilter-intersects-all-words-with-the-suffix'
K_F05 = 'F05-moved-items-keep-old-shared-directory'
K_ZOMBIE = 'F05b-items-of-removed-directory-stay-searchable-while-a-moved-item-points-at-it'
K_GC = 'F27-items-of-removed-directory-searchable-until-cyclic-gc'
K_DUP = 'F29-duplicate-settings-entry-lists-directory-twice'

# ----------------------------------------------------------------------------------------------
# running a history on the real SharesManager
# ----------------------------------------------------------------------------------------------


class Impl:
    """The real SharesManager over a temp directory; paths are component lists relative to the temp root."""

    def __init__(self, files, collect=True, hostile=False):
        from vlib import vloop
        from aioslsk.shares.manager import SharesManager
        from aioslsk.settings import Settings, CredentialsSettings
        from aioslsk.events import EventBus
        self.collect = collect
        self.gc_was = gc.isenabled()
        gc.disable()
        self.root = os.path.realpath(tempfile.mkdtemp(prefix='verif_c07_'))
        self.loop = vloop.new_loop()
        self.settings = Settings(credentials=CredentialsSettings(username='me', password='pw'))
        self.bus = EventBus()
        self.sm = SharesManager(self.settings, self.bus, None)
        if hostile:
            # an application listener that raises on every shared-directory change: the event bus must swallow it
            from aioslsk.events import SharedDirectoryChangeEvent

            def raising(event):
                raise RuntimeError('listener failure')
            self._listener = raising
            self.bus.register(SharedDirectoryChangeEvent, raising, priority=0)
        self.disk = {}
        for comps, mt in files:
            self.mkfile(comps, mt)

    def close(self):
        from vlib import vloop
        try:
            vloop.close_loop(self.loop)
        finally:
            shutil.rmtree(self.root, ignore_errors=True)
            shutil.rmtree(self.root + '_cache', ignore_errors=True)
            self.sm = None
            gc.collect()
            if self.gc_was:
                gc.enable()

    def abs(self, comps):
        return os.path.join(self.root, *comps) if comps else self.root

    def rel(self, abspath):
        r = os.path.relpath(abspath, self.root)
        return [] if r == '.' else r.split(os.sep)

    def mkfile(self, comps, mt):
        p = self.abs(comps)
        os.makedirs(os.path.dirname(p), exist_ok=True)
        with open(p, 'w') as f:
            f.write('x')
        os.utime(p, (mt, mt))
        self.disk[tuple(comps)] = mt

    def rmfile(self, comps):
        try:
            os.remove(self.abs(comps))
        except OSError:
            pass
        self.disk.pop(tuple(comps), None)

    def snapshot(self):
        return sorted((list(k), v) for k, v in self.disk.items())

    def alias(self, comps):
        return self.sm.generate_alias(os.path.normpath(os.path.abspath(self.abs(comps))))

    def gc(self):
        if self.collect:
            gc.collect()

    def apply(self, st):
        """One operation; returns the exception class name or None."""
        from aioslsk.shares.model import DirectoryShareMode
        from aioslsk.settings import SharedDirectorySettingEntry
        from aioslsk.exceptions import SharedDirectoryError
        k = st[0]
        err = None
        try:
            if k == 'mkfile':
                self.mkfile(st[1], st[2])
            elif k == 'rmfile':
                self.rmfile(st[1])
            elif k == 'add':
                self.sm.add_shared_directory(self.abs(st[1]), share_mode=DirectoryShareMode(st[2]), users=list(st[3]))
            elif k == 'remove':
                self.sm.remove_shared_directory(self.abs(st[1]))
            elif k == 'update':
                self.sm.update_shared_directory(self.abs(st[1]), share_mode=DirectoryShareMode(st[2]) if st[2] else None,
                                                users=list(st[3]) if st[3] is not None else None)
            elif k == 'scan':
                d = self.sm.get_shared_directory(self.abs(st[1]))
                self.loop.run_coro(self.sm.scan_directory_files(d))
                d = None
            elif k == 'restart':
                # what a client restart does with the shares: write the shelve cache, read it back, re-apply the settings
                from aioslsk.shares.cache import SharesShelveCache
                cdir = self.root + '_cache'
                os.makedirs(cdir, exist_ok=True)
                self.sm.cache = SharesShelveCache(cdir)
                self.settings.shares.directories = [
                    SharedDirectorySettingEntry(path=d.directory, share_mode=d.share_mode, users=list(d.users)) for d in self.sm.shared_directories]
                self.sm.write_cache()
                self.sm._shared_directories = []
                self.sm._term_map = {}
                self.gc()
                self.sm.read_cache()
                self.sm.load_from_settings()
            elif k == 'load':
                self.settings.shares.directories = [
                    SharedDirectorySettingEntry(path=self.abs(c), share_mode=DirectoryShareMode(m), users=list(us)) for c, m, us in st[1]]
                self.sm.load_from_settings()
            else:
                raise ValueError(k)
        except SharedDirectoryError:
            err = 'SharedDirectoryError'
        self.gc()
        return err

    # observations --------------------------------------------------------------------------
    def item_obs(self, it):
        return (self.rel(it.get_absolute_path()), it.get_query_path())

    def query(self, q, user, friends, phrases, maxr):
        self.settings.users.friends = set(friends)
        self.settings.searches.receive.max_results = maxr
        vis, lock = self.sm.query(q, username=user or None, excluded_search_phrases=list(phrases) or None)
        held = {id(i) for d in self.sm.shared_directories for i in d.items}
        res = [self.item_obs(i) + (False, id(i) in held) for i in vis] + [self.item_obs(i) + (True, id(i) in held) for i in lock]
        vis = lock = None
        return res

    def index(self):
        dirs = []
        stale = 0
        for d in self.sm.shared_directories:
            its = []
            for i in d.items:
                its.append((self.rel(i.get_absolute_path()), i.get_query_path(), i.shared_directory.alias, i.modified))
                if i.shared_directory is not d:
                    stale += 1
            dirs.append((self.rel(d.absolute_path), sorted(its)))
        tm = self.sm._term_map
        keys = sorted(tm.keys())
        union = set()
        for ws in tm.values():
            for i in ws:
                union.add(id(i))
        i = ws = None
        return {'dirs': dirs, 'keys': keys, 'nindexed': len(union), 'stats': tuple(self.sm.get_stats()), 'stale': stale}


def run_history(files, steps, collect=True, hostile=None):
    """Executes a history; returns the list of observations (one per step, None for plain ops)."""
    if hostile is None:
        hostile = len(steps) % 3 == 0          # a third of the histories run with a raising listener on the event bus
    im = Impl(files, collect=collect, hostile=hostile)
    out = []
    try:
        for st in steps:
            if st[0] == 'query':
                out.append({'result': im.query(*st[1:]), 'index': im.index()})
            elif st[0] == 'index':
                out.append({'index': im.index()})
            elif st[0] == 'scan':
                snap = im.snapshot()
                err = im.apply(st)
                out.append({'disk': snap, 'err': err})
            elif st[0] == 'restart':
                ents = [[im.rel(d.absolute_path), d.share_mode.value, list(d.users), d.alias] for d in im.sm.shared_directories]
                err = im.apply(st)
                out.append({'entries': ents, 'err': err})
            elif st[0] in ('add', 'load'):
                aliases = [im.alias(st[1])] if st[0] == 'add' else [im.alias(c) for c, _, _ in st[1]]
                err = im.apply(st)
                out.append({'aliases': aliases, 'err': err})
            else:
                out.append({'err': im.apply(st)})
        return out
    finally:
        im.close()


# ----------------------------------------------------------------------------------------------
# the property text, independently (monitor)
# ----------------------------------------------------------------------------------------------

def _isword(c):
    return c.isalnum()          # letters and digits of any script; '_' and punctuation are separators


def _split_terms(q):
    inc, wild, exc = set(), set(), set()
    for t in q.split():
        lt = t.lower()
        if not any(_isword(c) for c in lt):
            continue
        if t[0] == '*':
            wild.add(lt[1:])
        elif t[0] == '-':
            exc.add(lt[1:])
        else:
            inc.add(lt)
    return inc, wild, exc


def _contains(path, term, wildcard):
    """term occurs in path delimited as a whole word (left delimiter not required for a wildcard term)."""
    p, t = path.lower(), term.lower()
    i = p.find(t)
    while i >= 0:
        j = i + len(t)
        left = wildcard or i == 0 or not _isword(p[i - 1])
        right = j == len(p) or not _isword(p[j])
        if left and right:
            return True
        i = p.find(t, i + 1)
    return False


def reference(q, paths):
    """paths: dict key -> query path. Returns the keys the property text selects (None: query has no positive term)."""
    inc, wild, exc = _split_terms(q)
    if not inc and not wild:
        return set()
    return {k for k, p in paths.items()
            if all(_contains(p, t, False) for t in inc) and all(_contains(p, t, True) for t in wild)
            and not any(_contains(p, t, False) for t in exc)}


def innermost(dirs, comps):
    best = None
    for d in dirs:
        if comps[:len(d)] == d and len(comps) > len(d) and (best is None or len(d) > len(best)):
            best = d
    return best


def monitor_query(st, ob):
    """Property text on one query observation. Returns list of (key, what, detail)."""
    _, q, user, friends, phrases, maxr = st
    idx = ob['index']
    dirs = [d for d, _ in idx['dirs']]
    held = {}
    for d, its in idx['dirs']:
        for a, qp, alias, mt in its:
            held.setdefault(tuple(a), []).append((d, qp))
    paths = {}
    for a in held:
        inn = innermost(dirs, list(a))
        if inn is not None:
            paths[a] = '\\'.join(a[len(inn):])
    exp = reference(q, paths)
    if phrases:
        exp = {a for a in exp if not any(ph.lower() in paths[a].lower() for ph in phrases)}
    got = [tuple(r[0]) for r in ob['result']]
    out = []
    inc, wild, exc = _split_terms(q)
    unheld = [r for r in ob['result'] if not r[3]]
    if unheld:
        out.append((K_ZOMBIE, 'query returned a file that no shared directory holds', {'returned': unheld[0][0]}))
    if len(set(got)) != len(got) and not unheld:
        out.append(('duplicate-result', 'a file was returned twice', {'result': sorted(map(list, got))}))
    gs = {g for g, r in zip(got, ob['result']) if r[3]}
    if len(exp) <= maxr:
        extra, missing = gs - exp, exp - gs
    else:
        # above the cap any max_results of the matches may be returned
        extra, missing = gs - exp, set()
        if len(got) > maxr:
            out.append(('cap', f'{len(got)} results returned with max_results {maxr}', {}))
        elif len(got) < maxr:
            missing = exp - gs      # fewer than the cap although more matches exist: each absent match must be explained
            if all(not _f04_shape(wild, paths[a], idx['keys']) and not any(qp != paths.get(a) for _, qp in held.get(a, [])) for a in missing):
                out.append(('cap', f'{len(got)} results returned with max_results {maxr} and {len(exp)} matches', {}))
    for a in sorted(extra | missing):
        stale = any(qp != paths.get(a) for _, qp in held.get(a, []))
        if stale and idx['stale']:
            out.append((K_F05, 'a moved item is matched through the path it had in its previous shared directory',
                        {'file': list(a), 'indexed_as': [qp for _, qp in held.get(a, [])], 'should_be': paths.get(a)}))
        elif a in missing and wild and _f04_shape(wild, paths[a], idx['keys']):
            out.append((K_F04, 'wildcard term: the term-map prefilter requires EVERY indexed word with that suffix',
                        {'file': list(a), 'path': paths[a]}))
        else:
            out.append(('query-mismatch', ('missing' if a in missing else 'unexpected') + ' result', {'file': list(a), 'path': paths.get(a)}))
    return out


def _f04_shape(wild, path, keys):
    words = {w for w in re.split(r'[\W_]', path.lower()) if w}
    for t in wild:
        u = re.split(r'[\W_]', t)[0]
        if u and any(k.endswith(u) and k not in words for k in keys):
            return True
    return False


def monitor_index(ob_index, disk, settled):
    """Index exactness after everything was rescanned, and the reported counts."""
    out = []
    dirs = [d for d, _ in ob_index['dirs']]
    files = {tuple(a) for d, its in ob_index['dirs'] for a, _, _, _ in its}
    nfiles, nfolders = len(files), len({a[:-1] for a in files})
    for d, its in ob_index['dirs']:
        for a, qp, alias, mt in its:
            if innermost(dirs, a) != d:
                out.append(('index-not-innermost', 'a file is held by a shared directory that is not the innermost one containing it',
                            {'file': a, 'held_by': d, 'innermost': innermost(dirs, a)}))
    if len({tuple(d) for d in dirs}) != len(dirs):
        out.append((K_DUP, 'a shared directory is listed twice (settings entry repeated): its files and folders are counted / reported twice',
                    {'dirs': dirs, 'stats': list(ob_index['stats']), 'distinct': [nfolders, nfiles]}))
    elif (nfolders, nfiles) != tuple(ob_index['stats']):
        key = K_F05 if ob_index['stale'] else 'stats-mismatch'
        out.append((key, f'get_stats() = {tuple(ob_index["stats"])}, the index holds {nfolders} folders / {nfiles} files', {}))
    if settled:
        want = {}
        for comps, mt in disk:
            inn = innermost(dirs, comps)
            if inn is not None:
                want.setdefault(tuple(inn), set()).add((tuple(comps), mt))
        for d, its in ob_index['dirs']:
            have = [(tuple(a), mt) for a, _, _, mt in its]
            if len(set(have)) != len(have) or set(have) != want.get(tuple(d), set()):
                out.append(('index-not-exact', 'after rescanning every directory the items of a shared directory differ from the '
                            'files on disk whose innermost shared directory it is',
                            {'dir': d, 'have': sorted(map(str, have)), 'want': sorted(map(str, want.get(tuple(d), set())))}))
            for a, qp, alias, mt in its:
                if qp != '\\'.join(a[len(d):]):
                    out.append(('index-not-exact', 'query path of a rescanned item is not relative to its shared directory', {'file': a, 'qpath': qp}))
    return out


# ----------------------------------------------------------------------------------------------
# generators
# ----------------------------------------------------------------------------------------------

WORDS = ['sing', 'ring', 'king', 'ing', 'thing', 'song', 'long', 'live', 'alive', 'love', 'glove', '01', '1', '2001', 'a', 'b2',
         'déjà', 'vu', 'Été', 'été', 'ÉTÉ', '日本', '本', '語', 'ØRE', 'øre', 'Ärger'.replace('Ä', 'A'), 'straße', 'Дд', 'SING', 'Ring', 'x']
SEPS = [' ', '_', '-', '.', ' - ', ' (', ') ', '[', ']', "'", '&', ' & ', '  ', '__']
EXTS = ['.mp3', '.flac', '', '.MP3']


def gen_name(rng, nmax=3):
    n = rng.randrange(1, nmax + 1)
    s = rng.choice(WORDS)
    for _ in range(n - 1):
        s += rng.choice(SEPS) + rng.choice(WORDS)
    r = rng.random()
    if r < 0.15:
        s = s.upper() if s.upper().lower() == s.lower() and len(s.upper()) == len(s) else s
    elif r < 0.25:
        s = rng.choice(['(', '[', "'", '-']) + s
    s = s.strip()
    return s or 'x'


def gen_tree(rng):
    """-> (dirs: list of component lists, files: list of (comps, mtime))"""
    dirs = [[]]
    files = {}
    ntop = rng.randrange(1, 4)
    for _ in range(ntop):
        d1 = [gen_name(rng, 2)]
        if d1 in dirs:
            continue
        dirs.append(d1)
        if rng.random() < 0.35:
            # sibling whose name extends this one as a STRING (Live / Live 1999): path-prefix tests must work on components
            sib = [d1[0] + rng.choice([' 1999', '2', '_b', 'er', ' (live)'])]
            if sib not in dirs:
                dirs.append(sib)
        for _ in range(rng.randrange(0, 3)):
            d2 = d1 + [gen_name(rng, 2)]
            if d2 in dirs:
                continue
            dirs.append(d2)
            if rng.random() < 0.4:
                sib = d1 + [d2[-1] + rng.choice([' 1999', '2', '_b', 'er'])]
                if sib not in dirs:
                    dirs.append(sib)
            if rng.random() < 0.35 and len(dirs) > 2:
                # a directory with the same BASE NAME elsewhere in the tree
                par = rng.choice([d for d in dirs if d and d != d2 and d != d1] or [d1])
                twin = par + [d2[-1]]
                if twin not in dirs and len(twin) <= 3:
                    dirs.append(twin)
            if rng.random() < 0.4:
                d3 = d2 + [gen_name(rng, 1)]
                if d3 not in dirs:
                    dirs.append(d3)
    twins = rng.random() < 0.4        # the same relative path AND mtime below two directories (copied trees)
    budget = rng.choice([3, 6, 10, 16, 30])
    for d in dirs:
        if not d and rng.random() < 0.7:
            continue
        for _ in range(rng.randrange(0, 5)):
            if len(files) >= budget:
                break
            nm = gen_name(rng) + rng.choice(EXTS)
            if [*d, nm] in dirs or any(tuple(x[:len(d) + 1]) == tuple([*d, nm]) for x in dirs):
                continue
            files[tuple([*d, nm])] = rng.randrange(1, 50)
    if twins and len(dirs) >= 3:
        for _ in range(rng.randrange(1, 4)):
            src = rng.choice(sorted(files)) if files else None
            if src is None:
                break
            for d in rng.sample([d for d in dirs if d], min(2, len([d for d in dirs if d]))):
                k = tuple([*d, *src[-rng.randrange(1, min(3, len(src)) + 1):]])
                if len(files) < 30 and list(k) not in dirs and not any(tuple(x[:len(k)]) == k for x in dirs) \
                        and not any(tuple(k[:i]) in files for i in range(1, len(k))):
                    for i in range(len(d) + 1, len(k)):
                        if list(k[:i]) not in dirs:
                            dirs.append(list(k[:i]))
                    files[k] = files[src]
    return dirs, [(list(k), v) for k, v in sorted(files.items())]


def gen_share(rng):
    m = rng.choice(MODES)
    us = rng.sample(USERS, rng.randrange(0, 3)) if m == 'users' or rng.random() < 0.2 else []
    return m, us


def gen_query(rng, vocab, target=None):
    tw = [w for c in (target or []) for w in re.split(r'[\W_]', c) if w]

    def word():
        if tw and rng.random() < 0.75:
            w = rng.choice(tw)
        else:
            w = rng.choice(vocab) if vocab and rng.random() < 0.85 else rng.choice(WORDS)
        r = rng.random()
        if r < 0.2:
            w = w.upper()
        elif r < 0.3:
            w = w.title()
        return w
    terms = []
    for _ in range(rng.choice([1, 1, 2, 2, 3, 4])):
        r = rng.random()
        w = word()
        if r < 0.30:
            k = rng.randrange(1, max(2, len(w)))
            terms.append('*' + w[-k:] if rng.random() < 0.8 else '*' + w)
        elif r < 0.45:
            terms.append('-' + w)
        elif r < 0.60:
            terms.append(w + rng.choice(SEPS).strip() + word() if rng.random() < 0.7 else w + '\\' + word())
        elif r < 0.65:
            terms.append(rng.choice(['*', '-', '--', '*-' + w, '**' + w, '*' + w + '-' + word(), '-*' + w, "'" + w, w + ')', '(' + w + ')']))
        elif r < 0.72:
            terms.append(w[:max(1, len(w) - 1)])
        else:
            terms.append(w)
    rng.shuffle(terms)
    return rng.choice([' ', ' ', '  ', '\t']).join(terms)


def vocab_of(files, dirs):
    v = set()
    for comps, _ in files:
        for c in comps:
            v.update(w for w in re.split(r'[\W_]', c) if w)
    return sorted(v)


def gen_history(rng, tier, force_chain=False):
    dirs, files = gen_tree(rng)
    vocab = vocab_of(files, dirs)
    steps = []
    shared = []
    nops = rng.randrange(2, 9)
    cand = [d for d in dirs if d] + ([[]] if rng.random() < 0.15 else [])
    if not cand:
        cand = [[]]
    disk = {tuple(c): m for c, m in files}
    clock = [100]

    def checkpoint(settled=False):
        if disk and rng.random() < 0.3:
            # the same term text used plain / excluded and then as a wildcard (and the other way round) on one manager
            tgt = list(rng.choice(sorted(disk)))
            ws = [w for c in tgt for w in re.split(r'[\W_]', c) if w] or ['a']
            w = rng.choice(ws)
            w = w[-rng.randrange(1, len(w) + 1):].lower()
            other = rng.choice(ws)
            pair = [rng.choice([w, other + ' -' + w, '-' + w + ' ' + other]), rng.choice(['*' + w, other + ' *' + w])]
            if rng.random() < 0.4:
                pair.reverse()
            for qs in pair:
                steps.append(['query', qs, '', [], [], 100])
        if rng.random() < 0.35:
            # many matches for a user who sees some of them as locked, small cap: the cap is on the TOTAL
            steps.append(['query', rng.choice(['mp3', 'flac', '*3', '*c', '*p3 -zzz']), rng.choice(USERS),
                          rng.sample(USERS, rng.randrange(0, 3)), [], rng.choice([2, 3, 4])])
        for _ in range(rng.choice([1, 2, 2, 3])):
            fr = rng.sample(USERS, rng.randrange(0, 3))
            target = list(rng.choice(sorted(disk))) if disk and rng.random() < 0.8 else None
            steps.append(['query', gen_query(rng, vocab, target), rng.choice(['', 'u1', 'u2', 'u3']), fr,
                          [], rng.choice([1, 2, 3, 5, 10, 100, 100, 100])])
        if settled:
            steps.append(['index', True])

    def scan_all():
        for d in list(shared):
            steps.append(['scan', d])

    nested = [(a, b) for a in cand for b in cand if len(b) > len(a) and b[:len(a)] == a]
    chains = [(a, b, c3) for a, b in nested for c3 in cand if len(c3) > len(b) and c3[:len(b)] == b]
    if chains and (force_chain or rng.random() < 0.5):
        # directed: three nested shared directories, the innermost / middle one removed again
        a, b, c3 = rng.choice(chains)
        order = rng.choice([[a, b, c3], [c3, a, b], [a, c3, b], [b, c3, a], [b, a, c3], [c3, b, a]])
        for d in order:
            steps.append(['add', d, *gen_share(rng)])
            if rng.random() < 0.7:
                steps.append(['scan', d])
        shared += order
        if rng.random() < 0.7:
            scan_all()
            checkpoint(settled=True)
        else:
            checkpoint()
        for d in rng.choice([[c3], [b], [c3, b], [b, c3], [a]]):
            steps.append(['remove', d])
            shared.remove(d)
            checkpoint()
        nops = rng.randrange(0, 3)
    elif nested and rng.random() < 0.3:
        # directed: nested shared directories added / removed without rescans (items move between them)
        a, b = rng.choice(nested)
        steps.append(['add', a, *gen_share(rng)])
        steps.append(['scan', a])
        steps.append(['add', b, *gen_share(rng)])
        shared += [a, b]
        checkpoint()
        for d in rng.choice([[a], [b], [a, b], [b, a], []]):
            steps.append(['remove', d])
            shared.remove(d)
            checkpoint()
        nops = rng.randrange(0, 4)
    for i in range(nops):
        r = rng.random()
        if not shared or r < 0.25:
            d = rng.choice(cand + ([shared[-1] + ['nested']] if shared and rng.random() < 0.1 else []))
            m, us = gen_share(rng)
            steps.append(['add', d, m, us])
            if d not in shared:
                shared.append(d)
            if rng.random() < 0.6:
                steps.append(['scan', d])
        elif r < 0.40:
            d = rng.choice(shared) if rng.random() < 0.9 else rng.choice(cand)
            steps.append(['remove', d])
            if d in shared:
                shared.remove(d)
        elif r < 0.50:
            d = rng.choice(shared) if rng.random() < 0.9 else rng.choice(cand)
            m, us = gen_share(rng)
            steps.append(['update', d, m if rng.random() < 0.8 else None, us if rng.random() < 0.6 else None])
        elif r < 0.68:
            d = rng.choice(shared)
            steps.append(['scan', d])
        elif r < 0.78:
            scan_all()
            checkpoint(settled=True)
            continue
        elif r < 0.87:
            keep = [d for d in shared if rng.random() < 0.7]
            new = [d for d in cand if d not in shared and rng.random() < 0.25]
            ent = [[d, *gen_share(rng)] for d in keep + new]
            if ent and rng.random() < 0.08:
                ent.append([rng.choice(ent)[0], *gen_share(rng)])      # the same path twice in the settings
            rng.shuffle(ent)
            steps.append(['load', ent])
            shared[:] = []
            for e in ent:
                if e[0] not in shared:
                    shared.append(e[0])
        elif r < 0.905 and shared:
            steps.append(['restart'])
            nest = [d for d in cand if d not in shared and any(d[:len(x)] == x and len(d) > len(x) for x in shared)]
            if nest and rng.random() < 0.7:
                d = rng.choice(nest)
                steps.append(['add', d, *gen_share(rng)])
                shared.append(d)
        elif r < 0.93 and shared and disk:
            # a shared directory loses ALL its files on disk, then is rescanned
            d = rng.choice(shared)
            gone = [k for k in sorted(disk) if list(k[:len(d)]) == d]
            for k in gone:
                steps.append(['rmfile', list(k)])
                del disk[k]
            steps.append(['scan', d])
            if rng.random() < 0.7:
                scan_all()
                checkpoint(settled=True)
                continue
        else:
            # on-disk change: touch / delete / create
            for _ in range(rng.randrange(1, 4)):
                rr = rng.random()
                clock[0] += 1
                if disk and rr < 0.35:
                    k = rng.choice(sorted(disk))
                    steps.append(['mkfile', list(k), clock[0]])
                    disk[k] = clock[0]
                elif disk and rr < 0.6:
                    k = rng.choice(sorted(disk))
                    steps.append(['rmfile', list(k)])
                    del disk[k]
                elif len(disk) < 30:
                    d = rng.choice(dirs)
                    nm = gen_name(rng) + rng.choice(EXTS)
                    k = tuple([*d, nm])
                    if list(k) in dirs or any(tuple(x[:len(k)]) == k for x in dirs):
                        continue
                    steps.append(['mkfile', list(k), clock[0]])
                    disk[k] = clock[0]
                    vocab[:] = sorted(set(vocab) | {w for w in re.split(r'[\W_]', nm) if w})
            if shared and rng.random() < 0.7:
                steps.append(['scan', rng.choice(shared)])
        checkpoint()
    if shared and rng.random() < 0.8:
        scan_all()
        checkpoint(settled=True)
    return {'files': files, 'steps': steps}


# ----------------------------------------------------------------------------------------------
# Coq text
# ----------------------------------------------------------------------------------------------

class Names:
    """Interning of strings as Coq definitions (w0, w1, ...)."""

    def __init__(self):
        self.ids = {}
        self.defs = []

    def s(self, text: str) -> str:
        i = self.ids.get(text)
        if i is None:
            i = len(self.ids)
            self.ids[text] = i
            self.defs.append(f'Definition w{i} : str := [{";".join(str(ord(c)) for c in text)}].')
        return f'w{i}'

    def p(self, comps) -> str:
        return '[' + ';'.join(self.s(c) for c in comps) + ']'

    def sl(self, strs) -> str:
        return '[' + ';'.join(self.s(c) for c in strs) + ']'


MODE_COQ = {'everyone': 'Everyone', 'friends': 'Friends', 'users': 'Users'}


def coq_history(nm: Names, hist, obs, name):
    """-> Coq definition text of one history (list hstep)."""
    rows = []
    disks = {}
    pre = []
    dirty = True          # an operation happened since the index was last compared
    for st, ob in zip(hist['steps'], obs):
        k = st[0]
        if k in ('mkfile', 'rmfile'):
            continue
        if k not in ('query', 'index'):
            dirty = True
        if k == 'add':
            rows.append(f'HOp (Add {nm.p(st[1])} {nm.s(ob["aliases"][0])} {MODE_COQ[st[2]]} {nm.sl(st[3])})')
        elif k == 'remove':
            rows.append(f'HOp (Remove {nm.p(st[1])})')
        elif k == 'update':
            m = f'(Some {MODE_COQ[st[2]]})' if st[2] else 'None'
            u = f'(Some {nm.sl(st[3])})' if st[3] is not None else 'None'
            rows.append(f'HOp (Update {nm.p(st[1])} {m} {u})')
        elif k == 'scan':
            key = json.dumps(ob['disk'])
            if key not in disks:
                dn = f'{name}_disk{len(disks)}'
                disks[key] = dn
                pre.append(f'Definition {dn} : list file := [' + ';'.join(f'({nm.p(c)},{m})' for c, m in ob['disk']) + '].')
            rows.append(f'HOp (Scan {nm.p(st[1])} {disks[key]})')
        elif k == 'restart':
            ents = ';'.join(f'({nm.p(c)},{nm.s(a)},{MODE_COQ[m]},{nm.sl(us)})' for c, m, us, a in ob['entries'])
            rows.append(f'HOp (LoadSettings [{ents}])')
        elif k == 'load':
            ents = ';'.join(f'({nm.p(c)},{nm.s(a)},{MODE_COQ[m]},{nm.sl(us)})' for (c, m, us), a in zip(st[1], ob['aliases']))
            rows.append(f'HOp (LoadSettings [{ents}])')
        elif k == 'query':
            _, q, user, friends, phrases, maxr = st
            res = ';'.join(f'({nm.p(a)},{nm.s(qp)},{"true" if lk else "false"})' for a, qp, lk, _ in ob['result'])
            rows.append(f'HQuery (mkQ {nm.s(q)} {nm.s(user)} {nm.sl(friends)} {nm.sl(phrases)} {maxr}%nat [{res}])')
            rows.append(coq_index(nm, ob['index']) if dirty else 'HIndex_skip')
            dirty = False
        elif k == 'index':
            rows.append(coq_index(nm, ob['index']))
            dirty = False
    return '\n'.join(pre) + f'\nDefinition {name} : list hstep := [\n ' + ';\n '.join(rows) + '].\n'


def coq_index(nm, idx):
    ds = ';'.join(f'({nm.p(d)},[' + ';'.join(f'({nm.p(a)},{nm.s(qp)},{nm.s(al)})' for a, qp, al, _ in its) + '])' for d, its in idx['dirs'])
    return (f'HIndex (mkI [{ds}] {nm.sl(idx["keys"])} {idx["nindexed"]}%nat ({idx["stats"][0]}%nat,{idx["stats"][1]}%nat))')


HEADER = ('From Coq Require Import NArith List Bool.\nFrom SlskGen Require Import CharTable SharesGen.\nFrom Slsk Require Import C07.Model.\n'
          'Import ListNotations.\nOpen Scope N_scope.\n'
          'Definition HIndex_skip : hstep := HQuery (mkQ [] [] [] [] 0%nat []).\n')


def coq_file(histories):
    """histories: list of (hist, obs). One Eval per file: list of (history number, failing step numbers)."""
    nm = Names()
    body = []
    for i, (h, o) in enumerate(histories):
        body.append(coq_history(nm, h, o, f'h{i}'))
    hs = ';'.join(f'({i}%nat, run_history init 0 h{i})' for i in range(len(histories)))
    tail = (f'Definition results : list (nat * list nat) := filter (fun r => match snd r with [] => false | _ => true end) [{hs}].\n'
            'Eval vm_compute in results.\n')
    return HEADER + '\n'.join(nm.defs) + '\n' + '\n'.join(body) + tail


def coq_matcher_file(paths, terms):
    """terms: list of (wild, term, mask)."""
    nm = Names()
    ps = nm.sl(paths)
    ts = ';'.join(f'({"true" if w else "false"},{nm.s(t)},{m})' for w, t, m in terms)
    return (HEADER + '\n'.join(nm.defs) + f'\nDefinition ps : list str := {ps}.\nDefinition ts : list (bool * str * N) := [{ts}].\n'
            'Eval vm_compute in (bad_masks ps 0 ts).\n')


def parse_results(val: str):
    """'[(3, [1; 2]); (5, [7])]' -> {3: [1,2], 5: [7]}"""
    val = re.sub(r'%(nat|N)', '', val)
    out = {}
    for m in re.finditer(r'\((\d+)\s*,\s*\[([^\]]*)\]\)', val):
        out[int(m.group(1))] = [int(x) for x in m.group(2).split(';') if x.strip()]
    return out


# ----------------------------------------------------------------------------------------------
# the check
# ----------------------------------------------------------------------------------------------

def coq_step_numbers(hist):
    """Maps Coq hstep positions back to step indices of the history."""
    pos = []
    for i, st in enumerate(hist['steps']):
        if st[0] in ('mkfile', 'rmfile'):
            continue
        pos.append(i)
        if st[0] == 'query':
            pos.append(i)
    return pos


def monitor_history(hist, obs):
    found = []
    disk = {tuple(c): m for c, m in hist['files']}
    for st, ob in zip(hist['steps'], obs):
        if st[0] == 'mkfile':
            disk[tuple(st[1])] = st[2]
        elif st[0] == 'rmfile':
            disk.pop(tuple(st[1]), None)
        elif st[0] == 'query':
            found += monitor_query(st, ob)
            found += monitor_index(ob['index'], None, False)
        elif st[0] == 'index':
            found += monitor_index(ob['index'], sorted((list(k), v) for k, v in disk.items()), bool(st[1]))
    return found


def minimise(hist, key):
    """Shrink a history that shows finding `key` (drop steps / files while the monitor still reports it)."""
    from vlib.common import shrink_list

    def shows(h):
        try:
            return any(k == key for k, _, _ in monitor_history(h, run_history(h['files'], h['steps'])))
        except Exception:
            return False
    steps = shrink_list(hist['steps'], lambda s: shows({'files': hist['files'], 'steps': s}), max_steps=60)
    files = hist['files']
    if len(files) > 1:
        files = shrink_list(files, lambda f: shows({'files': f, 'steps': steps}), max_steps=40)
    return {'files': files, 'steps': steps}


WHAT = {
    K_F04: 'a *wildcard term makes the term-map prefilter intersect the item sets of ALL indexed words ending with the suffix, '
           'so a file is only returned when it contains every such word (e.g. "*ing" over sing.mp3 and ring.mp3 returns nothing)',
    K_F05: 'items moved between nested shared directories (add/remove of a nested directory) keep pointing at their previous '
           'SharedDirectory: their query path, remote path, folder count and lock rules stay those of the old directory',
    K_ZOMBIE: 'after a shared directory is removed, its remaining items stay in the term map (and are returned by searches) for as '
              'long as an item that was moved out of it into a nested shared directory still points at it',
    K_DUP: 'load_from_settings appends the SharedDirectory object once per settings entry: a path that occurs twice in settings.shares.directories '
           'is listed twice, get_stats() double-counts its files and folders and shares replies repeat it',
    K_GC: 'remove_shared_directory leaves the directory<->items reference cycle to the cyclic garbage collector: until it happens to '
          'run, the weak sets of the term map keep the items and query() returns files of a directory that is no longer shared',
}


def directed_histories():
    """Small fixed histories for input classes that random generation only hits sometimes (run on every run, any seed)."""
    out = []
    Q = lambda q, u='', fr=(), mx=100: ['query', q, u, list(fr), [], mx]
    # cap with a mix of visible and locked matches (2 visible + 2 locked, cap 3; 3+1 cap 2; ...)
    files = [[['pub', 'a one.mp3'], 5], [['pub', 'b one.mp3'], 6], [['pub', 'c one.mp3'], 7], [['priv', 'd one.mp3'], 8],
             [['priv', 'e one.mp3'], 9], [['priv', 'f one.mp3'], 10]]
    for mx in (2, 3, 4, 5):
        for user, fr in (('u1', []), ('u1', ['u1']), ('', [])):
            out.append({'files': files, 'steps': [['add', ['pub'], 'everyone', []], ['add', ['priv'], 'friends', []], ['scan', ['pub']],
                                                  ['scan', ['priv']], Q('one', user, fr, mx), Q('*ne mp3', user, fr, mx), ['index', True]]})
    # the same relative path and mtime below two shared directories (siblings; nested)
    files = [[['x', 'al', 'song.mp3'], 5], [['y', 'al', 'song.mp3'], 5], [['x', 'n', 'al', 'song.mp3'], 5]]
    for order in ([['x'], ['y'], ['x', 'n']], [['x', 'n'], ['y'], ['x']], [['y'], ['x']]):
        st = []
        for d in order:
            st += [['add', d, 'everyone', []], ['scan', d]]
        st += [['scan', d] for d in order] + [Q('song'), Q('*ong al'), Q('song', 'u1'), ['index', True]]
        out.append({'files': files, 'steps': st})
    # a shared directory loses all of its files (also: all moved below a nested shared directory), then is rescanned
    files = [[['d', 'a.mp3'], 5], [['d', 'sub', 'b.mp3'], 6], [['e', 'c.mp3'], 7]]
    out.append({'files': files, 'steps': [['add', ['d'], 'everyone', []], ['add', ['e'], 'everyone', []], ['scan', ['d']], ['scan', ['e']], Q('mp3'),
                                          ['rmfile', ['d', 'a.mp3']], ['rmfile', ['d', 'sub', 'b.mp3']], ['scan', ['d']], Q('mp3'), Q('a'), ['index', True]]})
    out.append({'files': files, 'steps': [['add', ['d'], 'everyone', []], ['scan', ['d']], ['rmfile', ['d', 'a.mp3']], ['add', ['d', 'sub'], 'friends', []],
                                          ['scan', ['d']], ['scan', ['d', 'sub']], Q('mp3', 'u1'), ['index', True]]})
    # a rescan after on-disk changes that keep the number of files equal: touched (new mtime), renamed, one deleted + one created
    files = [[['d', 'alpha.mp3'], 5], [['d', 'beta.mp3'], 6]]
    for change in ([['mkfile', ['d', 'alpha.mp3'], 50]], [['rmfile', ['d', 'alpha.mp3']], ['mkfile', ['d', 'gamma.mp3'], 5]],
                   [['mkfile', ['d', 'alpha.mp3'], 50], ['mkfile', ['d', 'beta.mp3'], 51]]):
        out.append({'files': files, 'steps': [['add', ['d'], 'everyone', []], ['scan', ['d']], Q('alpha'), *change, ['scan', ['d']],
                                              Q('alpha'), Q('gamma'), Q('mp3'), Q('*a'), ['index', True]]})
    # a nested share, and elsewhere in the scanned tree an ordinary directory with the same base name
    files = [[['m', 'a1', 'live', 'x.mp3'], 5], [['m', 'a2', 'live', 'y.mp3'], 6], [['m', 'a2', 'live', 'deep', 'z.mp3'], 7], [['m', 'live', 'w.mp3'], 8]]
    out.append({'files': files, 'steps': [['add', ['m'], 'everyone', []], ['add', ['m', 'a1', 'live'], 'friends', []], ['scan', ['m']], ['scan', ['m', 'a1', 'live']],
                                          Q('mp3', 'u1'), Q('live'), ['index', True]]})
    # restart (shares restored from the shelve cache), then a nested directory is shared before any rescan
    files = [[['p', 'top.mp3'], 5], [['p', 'c', 'deep.mp3'], 6], [['p', 'c', 'd', 'deeper.mp3'], 7]]
    for nested in (['p', 'c'], ['p', 'c', 'd']):
        out.append({'files': files, 'steps': [['add', ['p'], 'everyone', []], ['scan', ['p']], ['restart'], Q('mp3'), ['add', nested, 'friends', []],
                                              Q('mp3', 'u1'), Q('deep'), ['index', False], ['remove', nested], Q('mp3'), ['scan', ['p']], ['index', True]]})
    return out


def gc_probe():
    """F27: not part of the model (which assumes a collection after every operation)."""
    hist = {'files': [[['d', 'sing.mp3'], 5]], 'steps': [['add', ['d'], 'everyone', []], ['scan', ['d']], ['remove', ['d']],
                                                          ['query', 'sing', '', [], [], 100]]}
    obs = run_history(hist['files'], hist['steps'], collect=False)
    res = obs[-1]['result']
    return hist, res


def run(run: Run):
    run.rule = ('random directory trees (<= 30 files; names from a pool of suffix-sharing words joined by the separators space _ - . ( ) [ ] \' & ; '
                'accents, Cyrillic and CJK; case variants) x histories of 2..8 share operations (add incl. nested and non-existing dirs, remove, '
                'update, scan, rescan-all, load_from_settings, on-disk create/touch/delete) with 1..3 queries after every operation (1..4 terms mixing '
                'include / -exclude / *wildcard, punctuation inside terms, word prefixes/suffixes, junk terms; max_results 1..100; 3 users x friend sets); '
                'distinct = distinct (tree, history); non-trivial = at least one query with a non-empty result and at least one directory holding items')
    run.trusted += ['character classes outside the generated table (harness alphabet: printable ASCII, tab, 22 accented letters, 2 Cyrillic, 5 CJK) are not modelled',
                    'garbage collection: the repaired code no longer depends on it (remove/load rebuild the term map); the harness still forces a collection after every operation and replays the F27 witness without one',
                    'os.walk / os.path / mtime of the real file system are used as given (symlinks, unreadable files, ProcessPool executors not explored)',
                    'CPython re engine: compared with the hand matcher term_occurs on every term/path pair of the run (not proved)']
    run.assumptions += ['file and directory names contain no path separator, newline or character outside the table',
                        'directory aliases do not collide (generate_alias is a 5-letter hash)']
    proved = run.prove(['tr_chartable', 'tr_shares'])

    # --- listed findings: replay the stored witnesses first (deterministic KNOWN-FINDING lines)
    for key, wit, _fixed in run.known_witnesses():
        try:
            if key == K_GC:
                _, res = gc_probe()
                run.case({'corpus': key})
                if res:
                    run.add_finding(Finding(K_GC, WHAT[K_GC], wit, observed=[r[0] for r in res], expected=[]))
                continue
            obs = run_history(wit['files'], wit['steps'])
            run.case({'corpus': key})
            for k, what, detail in monitor_history(wit, obs):
                run.add_finding(Finding(k, WHAT.get(k, what), wit if k == key else {'history': wit, 'detail': detail}, observed=detail))
        except Exception as e:
            run.add_broken(f'replay-of-known-witness:{key}', f'{type(e).__name__}: {e}')

    # F27 probe even when not listed
    try:
        hist, res = gc_probe()
        if res:
            run.add_finding(Finding(K_GC, WHAT[K_GC], hist, observed=[r[0] for r in res], expected=[]))
    except Exception as e:
        run.add_broken('gc-probe', f'{type(e).__name__}: {e}')

    nhist = int(os.environ.get("VERIF_C07_N", 0)) or (65 if run.tier == "quick" else 400)   # env override: development aid for mutant runs
    cases = []
    pairs_paths, pairs_terms = {}, {}
    new_keys = {}
    # directed search when the tie to the source is broken (a translator refused / a proof no longer compiles): more of the
    # histories that exercise the regenerated / fingerprinted decisions (three nested shares in every registration order)
    extra = 0 if proved else 60
    directed = directed_histories()
    for i in range(len(directed) + nhist + extra):
        hist = directed[i] if i < len(directed) else gen_history(run.rng, run.tier, force_chain=i - len(directed) >= nhist)
        try:
            obs = run_history(hist['files'], hist['steps'])
        except Exception as e:
            run.add_finding(Finding('impl-exception', f'SharesManager raised {type(e).__name__}: {e}', hist))
            continue
        nres = sum(1 for o in obs if o and o.get('result'))
        nheld = max([sum(len(its) for _, its in o['index']['dirs']) for o in obs if o and 'index' in o] or [0])
        run.case(hist, nontrivial=nres > 0 and nheld > 0, kind=f'ops<={(len(hist["steps"]) // 8 + 1) * 8}')
        for st, ob in zip(hist['steps'], obs):
            run.count('op:' + st[0])
            if st[0] == 'query':
                inc, wild, exc = _split_terms(st[1])
                run.count('queries')
                run.count('queries-with-wildcard', 1 if wild else 0)
                run.count('queries-with-exclude', 1 if exc else 0)
                run.count('queries-nonempty', 1 if ob['result'] else 0)
                for t in inc | exc:
                    pairs_terms[(False, t)] = 1
                for t in wild:
                    pairs_terms[(True, t)] = 1
                for d, its in ob['index']['dirs']:
                    for a, qp, al, mt in its:
                        pairs_paths[qp] = 1
        cases.append((hist, obs))
        for k, what, detail in monitor_history(hist, obs):
            if k not in new_keys:
                new_keys[k] = (hist, what, detail)
    for k, (hist, what, detail) in new_keys.items():
        if any(f.key == k for f in run.findings):
            continue
        small = minimise(hist, k)
        run.add_finding(Finding(k, WHAT.get(k, what), small, observed=detail))

    # --- L2 a: regex engine vs term_occurs on all term/path pairs of the run
    from aioslsk.shares.utils import create_term_pattern
    paths = sorted(pairs_paths)
    terms = sorted(pairs_terms)
    mtexts = []
    chunks = []
    PCH = 120
    for pi in range(0, len(paths), PCH):
        pch = paths[pi:pi + PCH]
        for ti in range(0, len(terms), 150):
            tch = terms[ti:ti + 150]
            rows = []
            for w, t in tch:
                pat = create_term_pattern(t, wildcard=w)
                m = 0
                for bit, p in enumerate(pch):
                    if pat.search(p):
                        m |= 1 << bit
                rows.append((w, t, m))
            mtexts.append(coq_matcher_file(pch, rows))
            chunks.append((pch, rows))
    run.count('matcher-pairs', len(paths) * len(terms))
    try:
        outs = coq_eval_many('c07m', mtexts)
        nbad = 0
        for (pch, rows), out in zip(chunks, outs):
            vals = parse_eval(out)
            if not vals:
                raise BrokenTie('correspondence:C07 matcher', 'no output')
            for b in parse_coq_list(vals[0]):
                w, t, m = rows[int(b)]
                nbad += 1
                if nbad == 1:
                    pat = create_term_pattern(t, wildcard=w)
                    ex = next((p for bit, p in enumerate(pch)), None)
                    run.add_broken('correspondence:C07 term_occurs vs create_term_pattern',
                                   f'term {t!r} wildcard={w}: regex mask {m:b} over paths {pch[:8]}...')
                    # a concrete failing input for the property: the regex disagrees with the property text
                    for p in pch:
                        if bool(pat.search(p)) != _contains(p, t, w):
                            run.add_finding(Finding('matcher-not-whole-word', f'pattern for term {t!r} (wildcard={w}) '
                                                    f'{"matches" if pat.search(p) else "does not match"} path {p!r}',
                                                    {'term': t, 'wildcard': w, 'path': p}, observed=bool(pat.search(p)), expected=_contains(p, t, w)))
                            break
        run.cov['matcher_pairs_validated'] = len(paths) * len(terms) if not nbad else 0
    except BrokenTie as e:
        run.add_broken(e.obligation, e.detail)

    # --- L2 b: histories, model vs implementation
    shard = 10
    texts = [coq_file(cases[i:i + shard]) for i in range(0, len(cases), shard)]
    try:
        outs = coq_eval_many('c07', texts, timeout=600)
        nbad = 0
        for k, out in enumerate(outs):
            vals = parse_eval(out)
            if not vals:
                raise BrokenTie('correspondence:C07', f'no output from shard {k}')
            for hidx, stepnos in parse_results(vals[0]).items():
                hist, obs = cases[k * shard + hidx]
                nbad += 1
                if nbad <= 1:
                    pos = coq_step_numbers(hist)
                    si = pos[stepnos[0]] if stepnos[0] < len(pos) else -1
                    run.add_broken('correspondence:C07 model vs SharesManager',
                                   f'history diverges at step {si} ({hist["steps"][si] if si >= 0 else "?"}); impl observed: '
                                   f'{json.dumps(obs[si], default=str)[:600]}; history: {json.dumps(hist)[:1500]}')
        run.cov['traces_validated_against_impl'] = len(cases) - nbad
    except BrokenTie as e:
        run.add_broken(e.obligation, e.detail)


def replay(rep) -> int:
    wit = rep['witness']
    if 'history' in wit:
        wit = wit['history']
    if 'term' in wit:
        from aioslsk.shares.utils import create_term_pattern
        create_term_pattern(wit['term'], wildcard=False)      # the run asks for the plain pattern of a term before the wildcard one
        m = bool(create_term_pattern(wit['term'], wildcard=wit['wildcard']).search(wit['path']))
        print('regex:', m, 'property text:', _contains(wit['path'], wit['term'], wit['wildcard']))
        return 1 if m != _contains(wit['path'], wit['term'], wit['wildcard']) else 0
    collect = rep.get('key') != K_GC
    obs = run_history(wit['files'], wit['steps'], collect=collect)
    bad = 0
    for st, ob in zip(wit['steps'], obs):
        print(st, '->', json.dumps(ob, default=str)[:400] if st[0] in ('query', 'index') else ob.get('err'))
    if not collect:
        res = obs[-1]['result']
        print('results for a removed directory (no collection yet):', res)
        return 1 if res else 0
    for k, what, detail in monitor_history(wit, obs):
        print('MONITOR:', k, what, detail)
        bad += 1
    return 1 if bad else 0
