"""Fixture shared by checks/c05.py and checks/c06.py: a real SoulSeekClient (real TransferManager,
UserManager, Network, PeerConnection) on vlib.world.World with

* a scripted server that answers GetPeerAddress / ConnectToPeer according to a per-user mode,
* per-user peer behaviour for outgoing connects ('ok' | 'refuse' | 'hang' | 'slow' (held until released)),
* a global, ordered log of everything the client writes to peer endpoints and of every outgoing
  connect, and recorders (from outside, instance attributes) for the order in which
  `_initialize_upload` / `_queue_remotely` coroutines are created and `send_peer_messages` is called.

Nothing in /repo is modified; the recorders wrap bound methods on the instances under test.
"""
from __future__ import annotations

import asyncio
import os
import struct

from vlib import fakes
from vlib.world import World

NEG_PREFIXES = ('queue-remotely-', 'initialize-upload-', 'initialize-download-')


class TW:
    def __init__(self, slots=2, connect_mode='race', driven=True, nusers=5):
        from aioslsk.settings import PeerConnectMode
        self.w = World()
        w = self.w
        w.settings.network.peer.connect_mode = PeerConnectMode.RACE if connect_mode == 'race' else PeerConnectMode.FALLBACK
        w.settings.transfers.limits.upload_slots = slots
        w.start()
        w.login()
        self.tm = w.client.transfers
        self.um = w.client.users
        self.net = w.client.network
        self.driven = driven
        if driven:
            # the harness chooses when a management cycle happens (a schedule), by calling
            # manage_transfers() itself; the periodic job is stopped
            t = self.tm._management_task.cancel()
            w.loop.run_ready(3)
        self.names = [f'u{i}' for i in range(nusers)]
        self.mode = {n: 'ok' for n in self.names}          # outgoing connect behaviour
        self.addr_mode = {n: 'auto' for n in self.names}   # 'auto' | 'hold' (GetPeerAddress answered on release)
        self.held_addr = []                                 # usernames whose address request is held
        self.indirect_fail = set()                          # users for which ConnectToPeer is always answered CannotConnect
        self.slow = []                                      # (user, future) of held connects
        self.keep = [self.um.get_user_object(n) for n in self.names]   # users are held weakly by the manager
        self.eps = []                                       # (user, Endpoint)
        self.wlog = []                                      # (seq, user, ep_index, bytes)
        self.connects = []                                  # (user, outcome) in order
        self.created = []                                   # ('U'|'Q', transfer) in creation order of coroutines
        self.sent = []                                      # (username, message) in call order of send_peer_messages
        self.cycles = 0
        self.a1_violations = []
        self.last_skipped = set()
        self._srv_buf = bytearray()
        w.peer_connect = self._peer_connect
        w.server.on_data = self._on_server_data
        self._wrap()
        self.tmpfile = os.path.join(str(w.tmp), 'upload.bin')
        with open(self.tmpfile, 'wb') as f:
            f.write(b'0123456789')
        w.loop.run_ready(20)
        w.server.written.clear()

    # ---- recorders -----------------------------------------------------------------------
    def _wrap(self):
        tm, net = self.tm, self.net
        orig_iu, orig_qr, orig_send, orig_mt = tm._initialize_upload, tm._queue_remotely, net.send_peer_messages, tm.manage_transfers

        def iu(transfer):
            self.created.append(('U', transfer))
            return orig_iu(transfer)

        def qr(transfer):
            self.created.append(('Q', transfer))
            return orig_qr(transfer)

        def send(username, *messages, **kw):
            for m in messages:
                self.sent.append((username, m))
            return orig_send(username, *messages, **kw)

        def mt():
            # A1 monitor: at the start of a cycle no QUEUED upload may still own a task that has not
            # run its first segment
            import inspect
            self.last_skipped = set()
            for t in tm.transfers:
                if t.is_upload() and t.state.VALUE.name == 'QUEUED' and t._transfer_task is not None and not t._transfer_task.done():
                    # A1 is about tasks that have not run their first segment yet (a task that is about to finish does not count)
                    if inspect.getcoroutinestate(t._transfer_task.get_coro()) == 'CORO_CREATED':
                        self.a1_violations.append((self.cycles, t.username, t.remote_path))
                    self.last_skipped.add(id(t))
                elif t.is_upload() and t.state.VALUE.name == 'QUEUED' and t._state_lock.locked():
                    self.last_skipped.add(id(t))
            self.cycles += 1
            return orig_mt()
        tm._initialize_upload = iu
        tm._queue_remotely = qr
        net.send_peer_messages = send
        tm.manage_transfers = mt

    # ---- scripted server -----------------------------------------------------------------
    def user_ip(self, name):
        return f'10.1.0.{self.names.index(name) + 1}'

    def _on_server_data(self, data: bytes):
        from aioslsk.protocol.messages import ServerMessage, GetPeerAddress, ConnectToPeer, CannotConnect
        self._srv_buf += data
        while len(self._srv_buf) >= 4:
            (ln,) = struct.unpack('<I', self._srv_buf[:4])
            if len(self._srv_buf) < 4 + ln:
                break
            fr = bytes(self._srv_buf[:4 + ln])
            del self._srv_buf[:4 + ln]
            try:
                m = ServerMessage.deserialize_request(fr)
            except Exception:
                continue
            if isinstance(m, GetPeerAddress.Request):
                if m.username in self.names and self.addr_mode[m.username] == 'hold':
                    self.held_addr.append(m.username)
                else:
                    self._defer(4, lambda u=m.username: self._send_addr(u))
            elif isinstance(m, ConnectToPeer.Request):
                if m.username not in self.names or self.mode[m.username] == 'refuse' or m.username in self.indirect_fail:
                    self._defer(4, lambda t=m.ticket: self.w.server.feed(CannotConnect.Response(ticket=t).serialize()))

    def _defer(self, hops, fn):
        """Run fn a few loop iterations later (a reply never arrives in the iteration of the request:
        the client registers its response future only after the send returned)."""
        if hops <= 0:
            fn()
        else:
            self.w.loop.call_soon(self._defer, hops - 1, fn)

    def _send_addr(self, username):
        from aioslsk.protocol.messages import GetPeerAddress
        self._addr_n = getattr(self, '_addr_n', 0) + 1
        if username in self.names and self._addr_n % 2 == 0:
            # every other reply comes from an old server: the optional obfuscated-port fields are absent
            r = GetPeerAddress.Response(username, ip=self.user_ip(username), port=2000)
        elif username in self.names:
            r = GetPeerAddress.Response(username, ip=self.user_ip(username), port=2000, obfuscated_port_amount=0, obfuscated_port=0)
        else:
            r = GetPeerAddress.Response(username, ip='0.0.0.0', port=0, obfuscated_port_amount=0, obfuscated_port=0)
        self.w.server.feed(r.serialize())

    def release_addr(self, username=None):
        """Answer held GetPeerAddress requests (all, or those of one user)."""
        rest = []
        for u in self.held_addr:
            if username is None or u == username:
                self._send_addr(u)
            else:
                rest.append(u)
        self.held_addr = rest

    # ---- peers -----------------------------------------------------------------------------
    def _peer_connect(self, host, port):
        user = None
        for n in self.names:
            if self.user_ip(n) == host:
                user = n
        mode = self.mode.get(user, 'refuse')
        if mode == 'refuse':
            self.connects.append((user, 'refused'))
            return ConnectionRefusedError('refused')
        if mode == 'hang':
            self.connects.append((user, 'hang'))
            return 'hang'
        if mode == 'slow':
            fut = self.w.loop.create_future()
            self.slow.append((user, fut))
            self.connects.append((user, 'slow'))
            return fut
        return self._new_ep(user, host, port)

    def _new_ep(self, user, host, port):
        ep = fakes.Endpoint(self.w.net, peername=(host, port))
        idx = len(self.eps)
        self.eps.append((user, ep))
        ep.on_data = lambda d, user=user, idx=idx: self.wlog.append((len(self.wlog), user, idx, d))
        self.connects.append((user, 'ok'))
        return ep

    def incoming_peer(self, user, typ='P'):
        """The peer connects to our listening port and introduces itself (PeerInit)."""
        from aioslsk.protocol.messages import PeerInit
        ep = self.w.net.incoming(60000, peername=(self.user_ip(user), 42000 + len(self.eps)))
        idx = len(self.eps)
        self.eps.append((user, ep))
        ep.on_data = lambda d, user=user, idx=idx: self.wlog.append((len(self.wlog), user, idx, d))
        ep.feed(PeerInit.Request(user, typ, 1).serialize())
        return ep

    def release_slow(self, user=None, ok=True):
        rest = []
        for u, fut in self.slow:
            if (user is None or u == user) and not fut.done():
                if ok:
                    fut.set_result(self._new_ep(u, self.user_ip(u), 2000))
                else:
                    fut.set_result(ConnectionRefusedError('refused late'))
            elif not fut.done():
                rest.append((u, fut))
        self.slow = rest

    def peer_frames(self, user=None, since=0):
        """Parsed peer messages (PeerMessage requests) written by the client, in global order.
        Returns [(user, message-or-raw)] for log entries with seq >= since."""
        from aioslsk.protocol.messages import PeerMessage
        out = []
        for seq, u, idx, data in self.wlog:
            if seq < since or (user is not None and u != user):
                continue
            for fr in fakes.split_frames(data):
                try:
                    out.append((u, PeerMessage.deserialize_request(fr)))
                except Exception:
                    out.append((u, fr))
        return out

    def last_ep(self, user):
        for u, ep in reversed(self.eps):
            if u == user:
                return ep
        return None

    def peer_ep(self, user):
        """The first endpoint of the user that carries peer (P) messages and is still open."""
        for u, ep in self.eps:
            if u == user and not ep.client_closed and not ep.remote_closed:
                return ep
        return None

    # ---- users -------------------------------------------------------------------------------
    def set_status(self, name, status_value: int, privileged: bool):
        from aioslsk.protocol.messages import GetUserStatus
        self.w.server_send(GetUserStatus.Response(name, status_value, privileged))
        self.settle()

    def set_friend(self, name, flag: bool, replace: bool = False):
        fr = self.w.settings.users.friends
        if replace:     # the application assigns a new set object (settings dialog) instead of mutating the old one
            self.w.settings.users.friends = (set(fr) | {name}) if flag else (set(fr) - {name})
        elif flag:
            fr.add(name)
        else:
            fr.discard(name)

    # ---- transfers ------------------------------------------------------------------------------
    def add_upload(self, name, path):
        from aioslsk.transfer.model import Transfer, TransferDirection
        t = Transfer(name, path, TransferDirection.UPLOAD)
        t.filesize = 10
        t.local_path = self.tmpfile
        t = self.w.run(self.tm.add(t))
        self.w.run(t.state.queue())
        return t

    def add_download(self, name, path):
        return self.w.run(self.tm.download(name, path))

    def call(self, coro):
        """Run an API coroutine to completion; returns (ok, exception-name)."""
        try:
            self.w.run(coro, timeout_virtual=5.0)
            return True, None
        except Exception as e:  # noqa
            return False, type(e).__name__

    def cycle(self):
        """One management cycle NOW (the synchronous manage_transfers, inside one loop iteration);
        the tasks it creates have not run when this returns."""
        self.w.loop.call_soon(self.tm.manage_transfers)
        self.w.loop.run_ready(1)

    def settle(self, rounds=60):
        self.w.loop.run_ready(rounds)

    def neg_tasks(self):
        return sorted(t.get_name() for t in asyncio.all_tasks(self.w.loop)
                      if not t.done() and t.get_name().startswith(NEG_PREFIXES))

    def live_tasks_of(self, transfer):
        """Live negotiation tasks whose coroutine was created for this transfer (by frame inspection)."""
        out = []
        for t in asyncio.all_tasks(self.w.loop):
            if t.done() or not t.get_name().startswith(NEG_PREFIXES):
                continue
            coro = t.get_coro()
            fr = getattr(coro, 'cr_frame', None)
            loc = fr.f_locals if fr is not None else {}
            if loc.get('transfer') is transfer:
                out.append(t)
        return out

    def close(self):
        try:
            for u, fut in self.slow:
                if not fut.done():
                    fut.cancel()
            self.w.stop()
        except Exception:
            self.w.close()
