"""Rig shared by the C13 / C14 checks.

The REAL ``Network``, ``EventBus``, ``DistributedNetwork`` (and, for C14, ``SharesManager`` +
``SearchManager``) run on ``vlib.fakes`` endpoints under the virtual-time loop.  Distributed peers
are fake endpoints: incoming ones go through the real ``ListeningConnection.accept`` /
``Network.on_peer_accepted`` path, requested ones through the real
``Network.create_peer_connection`` (direct connect).  Inbound messages are real frames fed to the
real reader tasks.  What the client wrote is parsed back from the endpoints with the real parsers.

Scheduling control: ``hold()`` makes ``drain()`` of the *server* writer block (the server's TCP
window is closed); every handler that awaits a server send then stays suspended after its writes,
until ``release()`` lets all of them continue (in FIFO order, as asyncio wakes drain waiters).
No virtual time passes (``run_ready`` only), so no inactivity timeout fires.
"""
from __future__ import annotations

import asyncio
import shutil
import tempfile
from pathlib import Path

from vlib import vloop, fakes
from vlib.world import make_settings

ME = 'me'
PORT = 60000


class Rig:
    def __init__(self, with_search: bool = False, share_tree: dict | None = None, noisy: bool = False):
        from aioslsk.events import EventBus
        from aioslsk.network.network import Network, PeerConnectMode
        from aioslsk.network.connection import ConnectionState
        from aioslsk.distributed import DistributedNetwork
        self.loop = vloop.new_loop(1000.0)
        self.net = fakes.FakeNet().install()
        self.tmp = Path(tempfile.mkdtemp(prefix='verif_c13_'))
        self.closed = False
        try:
            self.settings = make_settings(username=ME, tmp=self.tmp, port=PORT, obfuscated_port=0, connect_mode=PeerConnectMode.FALLBACK)
            self.bus = EventBus()
            self.network = Network(self.settings, self.bus)
            # server connection on a fake endpoint whose drain can be held
            self.server = fakes.Endpoint(self.net, label='server')
            self.held = False
            self.waiters: list[asyncio.Future] = []    # one future per blocked drain, released in FIFO order
            self.blocked = 0

            async def gated_drain():
                if self.held:
                    self.blocked += 1
                    f = self.loop.create_future()
                    self.waiters.append(f)
                    await f
                await asyncio.sleep(0)
            self.server.writer.drain = gated_drain
            sc = self.network.server_connection
            sc._reader, sc._writer = self.server.reader, self.server.writer
            sc.state = ConnectionState.CONNECTED
            self.dist = DistributedNetwork(self.settings, self.bus, self.network)
            self.search = None
            self.shares = None
            if with_search:
                self._init_search(share_tree or {})
            self.run(self.network.listening_connections[0].connect())
            if noisy:
                self._add_noisy_listeners()      # registered late: after the managers and after start-up
            self.eps: dict[int, fakes.Endpoint] = {}       # conn id -> endpoint (distributed peers)
            self.conn_of: dict[int, object] = {}           # conn id -> PeerConnection
            self.names: dict[int, str] = {}
            self.cursor: dict[object, int] = {}             # endpoint -> frames already reported
            self.askers: dict[str, fakes.Endpoint] = {}
            self._want: list = []                           # endpoints to hand to outgoing connects
            self.pending_connects: dict[str, list] = {}     # host -> futures of pending outgoing connects
            self.net.connect_handler = self._on_connect
            self.session = None
        except Exception:
            self.close()
            raise

    def _add_noisy_listeners(self):
        """Foreign listeners on the same bus, registered after the managers: one that raises, suspending ones that run
        before and after the managers' listeners.  The EventBus must isolate them (exceptions swallowed, order by priority)."""
        from aioslsk import events as E

        def raising(event):
            raise RuntimeError('foreign listener failed')

        async def slow_first(event):
            await asyncio.sleep(0)
            await asyncio.sleep(0)

        async def slow_last(event):
            await asyncio.sleep(0)
            raise ValueError('foreign coroutine listener failed')
        async def raising_async(event):
            raise RuntimeError('foreign coroutine listener failed at once')
        self._noisy = [raising, slow_first, slow_last, raising_async]      # the bus holds listeners weakly
        for cls in (E.MessageReceivedEvent, E.ConnectionStateChangedEvent, E.PeerInitializedEvent,
                    E.SessionInitializedEvent, E.SessionDestroyedEvent, E.SearchRequestReceivedEvent):
            self.bus.register(cls, raising, priority=50)
            self.bus.register(cls, slow_first, priority=10)
            self.bus.register(cls, raising_async, priority=20)
            self.bus.register(cls, slow_last, priority=150)

    def advance(self, seconds: float):
        """let virtual time pass (timers that become due run), then settle"""
        self.loop.advance(seconds)
        self.settle()

    def replace_settings_objects(self):
        """the debug / users settings objects are replaced as a whole (same values): managers must read through Settings"""
        from aioslsk.settings import DebugSettings, UsersSettings
        old = self.settings.users
        self.settings.debug = DebugSettings(search_for_parent=self.settings.debug.search_for_parent)
        self.settings.users = UsersSettings(friends=set(old.friends), blocked=dict(old.blocked))
        self.settle()

    # ------------------------------------------------------------------ plumbing
    def run(self, coro):
        return self.loop.run_coro(coro)

    def settle(self, max_rounds: int = 400):
        """Run loop iterations (no time passes) until nothing is ready any more."""
        for _ in range(max_rounds):
            self.loop.run_ready(1)
            if not self.loop._ready:
                self.loop.run_ready(1)
                if not self.loop._ready:
                    return
        raise RuntimeError('rig did not settle')

    def _on_connect(self, host, port):
        if self._want:
            return self._want.pop(0)
        # connects started by the PotentialParents handler stay pending until the harness lets them fail
        f = self.loop.create_future()
        self.pending_connects.setdefault(host, []).append(f)
        return f

    def fail_connects(self, host: str):
        """The outgoing connection attempts to `host` fail: direct connect refused, and the server answers the
        indirect attempt (ConnectToPeer) with CannotConnect.  Returns the number of attempts that were pending."""
        from aioslsk.protocol.messages import ServerMessage, ConnectToPeer, CannotConnect
        futs = [f for f in self.pending_connects.pop(host, []) if not f.done()]
        if not futs:
            return 0
        mark = len(self.server.frames())
        for f in futs:
            f.set_exception(ConnectionRefusedError(f'{host} refused'))
        self.settle()
        for fr in self.server.frames()[mark:]:
            m = ServerMessage.deserialize_request(fr)
            if isinstance(m, ConnectToPeer.Request):
                self.loop.create_task(self.network.on_message_received(CannotConnect.Response(ticket=m.ticket), self.network.server_connection))
        self.settle()
        return len(futs)

    def _init_search(self, share_tree: dict):
        from aioslsk.shares.manager import SharesManager
        from aioslsk.search.manager import SearchManager
        from aioslsk.shares.model import DirectoryShareMode

        class Uploads:
            def has_slots_free(self):
                return True

            def get_average_upload_speed(self):
                return 0.0

            def get_queue_size(self):
                return 0
        self.shares = SharesManager(self.settings, self.bus, self.network)
        self.search = SearchManager(self.settings, self.bus, self.shares, Uploads(), self.network)
        modes = {'everyone': DirectoryShareMode.EVERYONE, 'friends': DirectoryShareMode.FRIENDS, 'users': DirectoryShareMode.USERS}
        for dname, spec in share_tree.items():
            d = self.tmp / 'shares' / dname
            for rel in spec['files']:
                p = d / rel
                p.parent.mkdir(parents=True, exist_ok=True)
                p.write_bytes(b'x' * 10)
            sd = self.shares.add_shared_directory(str(d), share_mode=modes[spec.get('mode', 'everyone')],
                                                  users=spec.get('users'))
            self.run(self.shares.scan_directory_files(sd))

    # ------------------------------------------------------------------ stimuli
    def session_init(self):
        from aioslsk.events import SessionInitializedEvent
        from aioslsk.session import Session
        from aioslsk.user.model import User
        self.session = Session(user=User(name=ME), ip_address='1.2.3.4', greeting='', client_version=157, minor_version=100)
        from aioslsk.protocol.messages import Login
        raw = Login.Response(success=True, greeting='', ip='1.2.3.4', md5hash='x', privileged=False)
        self.loop.create_task(self.bus.emit(SessionInitializedEvent(self.session, raw)))
        self.settle()

    def session_destroyed(self):
        from aioslsk.events import SessionDestroyedEvent
        self.loop.create_task(self.bus.emit(SessionDestroyedEvent(self.session)))
        self.settle()

    def server_closed(self):
        from aioslsk.events import ConnectionStateChangedEvent
        from aioslsk.network.connection import ConnectionState
        self.loop.create_task(self.bus.emit(ConnectionStateChangedEvent(self.network.server_connection, ConnectionState.CLOSED)))
        self.settle()

    def server_msg(self, msg):
        """A message from the server, through the real dispatch of Network.on_message_received."""
        self.loop.create_task(self.network.on_message_received(msg, self.network.server_connection))
        self.settle()

    def _gate_endpoint(self, ep, hold: bool = False):
        """per-connection write control: drain() of this endpoint can be held (slow peer) or made to fail"""
        ep._verif_hold = hold
        ep._verif_waiters = []

        async def drain():
            if ep.drain_error is not None:
                raise ep.drain_error
            if ep._verif_hold:
                f = self.loop.create_future()
                ep._verif_waiters.append(f)
                await f
            if ep.writer._closing:
                raise ConnectionResetError('Connection lost')
            await asyncio.sleep(0)
        ep.writer.drain = drain
        ep._verif_close_hold = False
        ep._verif_close_waiters = []

        async def wait_closed():
            if ep._verif_close_hold:
                f = self.loop.create_future()
                ep._verif_close_waiters.append(f)
                await f
            await asyncio.sleep(0)
        ep.writer.wait_closed = wait_closed

    def slow_close(self, cid: int, on: bool = True):
        """closing this connection takes time: our disconnect() stays in wait_closed until finish_close()"""
        self.eps[cid]._verif_close_hold = on

    def closing_pending(self):
        return sorted(cid for cid, ep in self.eps.items() if any(not f.done() for f in getattr(ep, '_verif_close_waiters', [])))

    def begin_close(self, cid: int):
        """The remote side closes; our disconnect() stays in the CLOSING state (wait_closed pending) until finish_close()."""
        ep = self.eps[cid]
        ep._verif_close_hold = True
        ep.feed_eof()
        self.settle()

    def finish_close(self, cid: int):
        ep = self.eps[cid]
        ep._verif_close_hold = False
        ws, ep._verif_close_waiters = ep._verif_close_waiters, []
        for f in ws:
            if not f.done():
                f.set_result(None)
        self.settle()

    def child_hold(self, cid: int):
        self.eps[cid]._verif_hold = True

    def child_release(self, cid: int):
        ep = self.eps[cid]
        ep._verif_hold = False
        ws, ep._verif_waiters = ep._verif_waiters, []
        for f in ws:
            if not f.done():
                f.set_result(None)
        self.settle()

    def held_children(self):
        return sorted(cid for cid, ep in self.eps.items() if getattr(ep, '_verif_hold', False) and not ep.client_closed)

    def drain_fault(self, cid: int, on: bool = True):
        self.eps[cid].drain_error = ConnectionResetError('reset by peer') if on else None

    def peer_init(self, cid: int, name: str, requested: bool, hold: bool = False):
        from aioslsk.protocol.messages import PeerInit
        if requested:
            ep = fakes.Endpoint(self.net, peername=(f'10.1.0.{cid}', 2234), label=f'c{cid}')
            self._gate_endpoint(ep, hold)
            self._want.append(ep)
            before = set(map(id, self.network.peer_connections))
            self.loop.create_task(self.network.create_peer_connection(name, 'D', ip=f'10.1.0.{cid}', port=2234))
            self.settle()
            new = [c for c in self.network.peer_connections if id(c) not in before and c.username == name and c._writer is ep.writer]
        else:
            known = set(map(id, self.network.peer_connections))
            ep = self.net.incoming(PORT, peername=(f'10.2.0.{cid}', 40000 + cid))
            ep.label = f'c{cid}'
            self._gate_endpoint(ep, hold)
            ep.feed(PeerInit.Request(name, 'D', 0).serialize())
            self.settle()
            new = [c for c in self.network.peer_connections if id(c) not in known]
            if not new:    # rejected at once: already closed and removed again; find it through the peers' writer
                new = []
        self.eps[cid] = ep
        self.names[cid] = name
        if new:
            self.conn_of[cid] = new[0]
            new[0]._verif_id = cid
        if requested:
            # the PeerInit frame we sent on the outgoing connection is not an observation
            self.cursor[ep] = len(ep.frames())

    def peer_msg(self, cid: int, msg):
        self.eps[cid].feed(msg.serialize())
        self.settle()

    def peer_eof(self, cid: int):
        self.eps[cid].feed_eof()
        self.settle()

    def hold(self):
        self.held = True

    def release(self):
        self.held = False
        ws, self.waiters = self.waiters, []
        for f in ws:
            if not f.done():
                f.set_result(None)
        self.settle()

    def add_asker(self, name: str):
        """An established peer (P) connection to `name`, so that replies are written there."""
        from aioslsk.network.connection import PeerConnection, ConnectionState, PeerConnectionState
        ep = fakes.Endpoint(self.net, label=f'asker-{name}')
        c = PeerConnection('10.3.0.1', 2234, self.network, username=name, connection_type='P')
        c._reader, c._writer = ep.reader, ep.writer
        c.state = ConnectionState.CONNECTED
        c.connection_state = PeerConnectionState.ESTABLISHED
        self.network.peer_connections.append(c)
        self.askers[name] = ep

    # ------------------------------------------------------------------ observations
    def _new_frames(self, ep):
        fr = ep.frames()
        k = self.cursor.get(ep, 0)
        self.cursor[ep] = len(fr)
        return fr[k:]

    def server_new(self):
        """Tree-related messages written to the server since the last call (parsed)."""
        from aioslsk.protocol.messages import ServerMessage, BranchLevel, BranchRoot, ToggleParentSearch, AcceptChildren
        out = []
        for fr in self._new_frames(self.server):
            m = ServerMessage.deserialize_request(fr)
            if isinstance(m, BranchLevel.Request):
                out.append(['L', m.level])
            elif isinstance(m, BranchRoot.Request):
                out.append(['R', m.username])
            elif isinstance(m, ToggleParentSearch.Request):
                out.append(['S', bool(m.enable)])
            elif isinstance(m, AcceptChildren.Request):
                out.append(['A', bool(m.accept)])
        return out

    def conn_new(self, cid: int):
        from aioslsk.protocol.messages import (DistributedMessage, DistributedBranchLevel, DistributedBranchRoot,
                                               DistributedSearchRequest)
        out = []
        for fr in self._new_frames(self.eps[cid]):
            try:
                m = DistributedMessage.deserialize_request(fr)
            except Exception:
                out.append(['?', fr.hex()])
                continue
            if isinstance(m, DistributedBranchLevel.Request):
                out.append(['L', m.level])
            elif isinstance(m, DistributedBranchRoot.Request):
                out.append(['R', m.username])
            elif isinstance(m, DistributedSearchRequest.Request):
                out.append(['Q', m.unknown, m.username, m.ticket, m.query])
            else:
                out.append(['?', type(m).__qualname__])
        return out

    def asker_new(self, name: str):
        from aioslsk.protocol.messages import PeerMessage, PeerSearchReply
        out = []
        for fr in self._new_frames(self.askers[name]):
            m = PeerMessage.deserialize_request(fr)
            if isinstance(m, PeerSearchReply.Request):
                out.append({'user': m.username, 'ticket': m.ticket,
                            'visible': sorted(f.filename for f in m.results),
                            'locked': sorted(f.filename for f in (m.locked_results or []))})
            else:
                out.append({'other': type(m).__qualname__})
        return out

    def cid(self, conn):
        return getattr(conn, '_verif_id', -1)

    def state(self):
        d = self.dist
        return {
            'parent': None if d.parent is None else self.cid(d.parent.connection),
            'children': [self.cid(p.connection) for p in d.children],
            'peers': sorted([self.cid(p.connection), p.username, p.branch_level, p.branch_root] for p in d.distributed_peers),
            'cands': list(d.potential_parents),
            'accept': bool(d._accept_children),
            'max': d._max_children,
            'pmin': d.parent_min_speed, 'pratio': d.parent_speed_ratio,
            'session': d._session is not None,
            'live': sorted(self.cid(c) for c in self.network.peer_connections
                           if c.connection_type == 'D' and getattr(c, '_verif_id', None) is not None),
        }

    def closed_ids(self):
        return sorted(cid for cid, ep in self.eps.items() if ep.client_closed)

    # ------------------------------------------------------------------ teardown
    def close(self):
        if self.closed:
            return
        self.closed = True
        try:
            for f in [x for fs in getattr(self, 'pending_connects', {}).values() for x in fs] + list(getattr(self, 'waiters', [])) + [w for ep in getattr(self, 'eps', {}).values() for w in getattr(ep, '_verif_waiters', []) + getattr(ep, '_verif_close_waiters', [])]:
                if not f.done():
                    f.cancel()
        except Exception:
            pass
        self.net.uninstall()
        vloop.close_loop(self.loop)
        shutil.rmtree(self.tmp, ignore_errors=True)
