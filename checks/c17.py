"""C17 — transfers survive a restart: cache round trip and state repair.

L1  theories/C17/Props.v (cache as key->pickle map with an arbitrary hash H; getstate/setstate; repair over
    SlskGen.TransGen.trans for the INITIALIZING case; load = repair + add)
L2  correspondence on the real TransferShelveCache / TransferManager in a temp dir: histories of
    write / mutate / remove / write over lists of 0..8 transfers (every state x direction x field combination,
    colliding and non-ASCII names), then read() and load_data() in a new client; legacy pickles (no
    abort_reason, with _offset) against `setstate`; loaded transfers driven through C03's harness
L3  monitor = the property text: same set each once, removed gone, nothing in progress, repair table,
    remote-queue marks cleared, loaded transfers registered / scheduled / reporting state changes
"""
from __future__ import annotations

import json
import os
import pickle
import shutil
import tempfile

from vlib.common import Run, Finding, BrokenTie, REPO, coq_eval_many, parse_eval, parse_coq_list
from vlib import vloop
from checks import c03_lib as L

F21_KEY = 'F21-cache-key-collision-no-separator'
F21_WHAT = ('TransferShelveCache.write keys the shelve by sha256(username + remote_path + str(direction)) without separators: '
            'two different transfers whose concatenations coincide (("ab","c") / ("a","bc")) share one slot, the second '
            'overwrites the first, and after a restart one transfer is lost')

USERS = ['ab', 'a', 'user0', 'usür', 'x1', 'x', '']
PATHS = ['c', 'bc', '@abc\\dir\\file.mp3', '@abc\\dir\\fïle.flac', '1', '11', 'p0', '0']
LOCALS = [None, '/dl/file.mp3', '/dl/other (1).flac', '/sh/x']
INPROG = ('INITIALIZING', 'DOWNLOADING', 'UPLOADING')

COQ_HEADER = L.COQ_HEADER + '''From Slsk Require Import C17.Model C17.Eval.
'''


def spec_to_coq(s) -> str:
    b = lambda x: 'true' if x else 'false'
    o = L.coq_opt
    bl = lambda t: '[' + ';'.join(str(x) for x in t.encode('utf-8')) + ']%N'
    return (f'(mkMt {bl(s["user"])} {bl(s["path"])} {"Upload" if s["dir"] == "UPLOAD" else "Download"} {s["state"]} '
            f'{o(None if s["local"] is None else LOCALS.index(s["local"]))} {b(s["rq"])} {o(s["place"])} {o(s["fail"] or None)} '
            f'{o(s["abort"] or None)} {o(s["filesize"])} {s["bytes"]}%N {s["qatt"]}%N {s["uatt"]}%N {o(s["start"])} {o(s["complete"])} '
            f'{b(s["offset"])} {b(s.get("registered", False))})')


def make_transfer(s):
    from aioslsk.transfer.model import Transfer, TransferDirection
    from aioslsk.transfer.state import TransferState
    t = Transfer(s['user'], s['path'], TransferDirection[s['dir']])
    apply_spec(t, s)
    return t


def apply_spec(t, s):
    from aioslsk.transfer.state import TransferState
    t.state = TransferState.init_from_state(TransferState.State[s['state']], t)
    t.local_path = s['local']
    t.remotely_queued = s['rq']
    t.place_in_queue = s['place']
    t.fail_reason = L.REASONS[s['fail']]
    t.abort_reason = L.REASONS[s['abort']]
    t.filesize = s['filesize']
    t.bytes_transfered = s['bytes']
    t.queue_attempts = s['qatt']
    t.last_queue_attempt = 5.0 if s['qatt'] else 0.0
    t.upload_request_attempts = s['uatt']
    t.last_upload_request_attempt = 6.0 if s['uatt'] else 0.0
    t.start_time = None if s['start'] is None else float(s['start'])
    t.complete_time = None if s['complete'] is None else float(s['complete'])
    if s['offset']:
        t._offset = 0
    elif hasattr(t, '_offset'):
        del t._offset


def enc_real(t, manager=None) -> list:
    sv = L.state_values()
    u = list(t.username.encode('utf-8'))
    p = list(t.remote_path.encode('utf-8'))
    oi = lambda v: -1 if v is None else int(v)
    ridx = lambda r: -1 if r is None else (L.REASONS.index(r) if r in L.REASONS else 99)
    return ([len(u)] + u + [len(p)] + p +
            [t.direction.value, sv[t.state.VALUE.name], -1 if t.local_path is None else LOCALS.index(t.local_path),
             int(bool(t.remotely_queued)), oi(t.place_in_queue), ridx(t.fail_reason), ridx(getattr(t, 'abort_reason', 'MISSING') if hasattr(t, 'abort_reason') else None),
             oi(t.filesize), int(t.bytes_transfered), int(t.queue_attempts), int(t.upload_request_attempts), oi(t.start_time), oi(t.complete_time),
             int(hasattr(t, '_offset')), int(manager is not None and any(l is manager for l in t.state_listeners))])


def gen_spec(rng, ident, state=None):
    user, path, d = ident
    state = state or rng.choice(L.STATES)
    fs = rng.choice([None, 0, 10, 10, 4096])
    by = rng.choice([0, 4, 10, 10, 4096]) if rng.random() < 0.8 else (fs or 0)
    return {'user': user, 'path': path, 'dir': d, 'state': state, 'local': rng.choice(LOCALS), 'rq': rng.random() < 0.5,
            'place': rng.choice([None, 0, 7]), 'fail': rng.choice([0, 0, 4, 5]), 'abort': rng.choice([0, 0, 1, 2, 3]), 'filesize': fs, 'bytes': by,
            'qatt': rng.choice([0, 0, 3]), 'uatt': rng.choice([0, 2]), 'start': rng.choice([None, 100, 100]), 'complete': rng.choice([None, 250]),
            'offset': rng.random() < 0.3}


def keystr(s):
    return s['user'] + s['path'] + ('0' if s['dir'] == 'UPLOAD' else '1')


def ident(s):
    return (s['user'], s['path'], s['dir'])


def gen_idents(rng, n, collide):
    pool = [(u, p, d) for u in USERS for p in PATHS for d in L.DIRS]
    rng.shuffle(pool)
    out, keys = [], set()
    for i in pool:
        k = i[0] + i[1] + ('0' if i[2] == 'UPLOAD' else '1')
        if not collide and k in keys:
            continue
        keys.add(k)
        out.append(i)
        if len(out) == n:
            break
    return out


class Monitor:
    def __init__(self, run):
        self.run = run

    def roundtrip(self, ctx, specs, loaded_real):
        """specs: what was written last; loaded_real: Transfer objects read back by a new cache object"""
        want = {ident(s): s for s in specs}
        got = {}
        for t in loaded_real:
            i = (t.username, t.remote_path, t.direction.name)
            got.setdefault(i, []).append(t)
        for i, l in got.items():
            if i not in want:
                self.run.add_finding(Finding('removed-transfer-returns', f'transfer {i} was not in the written list but is read back', ctx))
            elif len(l) > 1:
                self.run.add_finding(Finding('transfer-duplicated', f'transfer {i} read back {len(l)} times', ctx))
        for i, s in want.items():
            if i not in got:
                others = [o for o in specs if ident(o) != i and keystr(o) == keystr(s)]
                if others:
                    self.run.add_finding(Finding(F21_KEY, F21_WHAT, {'transfers': [list(ident(x)) for x in [s] + others[:1]]},
                                                 observed=f'{i} missing after write/read', expected='both transfers'))
                else:
                    self.run.add_finding(Finding('transfer-lost', f'transfer {i} written but not read back', ctx))
                continue
            t = got[i][0]
            exp_abort = L.REASONS[s['abort']]
            if exp_abort is None and s['state'] == 'ABORTED':
                exp_abort = 'Requested'
            same = (t.local_path == s['local'] and t.filesize == s['filesize'] and t.bytes_transfered == s['bytes']
                    and t.fail_reason == L.REASONS[s['fail']] and t.abort_reason == exp_abort)
            if not same:
                self.run.add_finding(Finding('field-changed-on-roundtrip', f'persisted fields of {i} differ after write/read',
                                             dict(ctx, transfer=s), observed=enc_real(t)))

    def loaded(self, ctx, specs, manager):
        want = {ident(s): s for s in specs}
        for t in manager.transfers:
            i = (t.username, t.remote_path, t.direction.name)
            s = want.get(i)
            st = t.state.VALUE.name
            if st in INPROG:
                self.run.add_finding(Finding(f'in-progress-after-load:{st}', f'{i} is {st} after load_data()', dict(ctx, transfer=s)))
            if t.remotely_queued:
                self.run.add_finding(Finding('remotely-queued-after-load', f'{i} still marked remotely queued after load_data()', dict(ctx, transfer=s)))
            if s is not None:
                if s['state'] == 'INITIALIZING':
                    exp = 'QUEUED'
                elif s['state'] in ('DOWNLOADING', 'UPLOADING'):
                    exp = 'COMPLETE' if (s['filesize'] is not None and s['filesize'] == s['bytes']) else 'INCOMPLETE'
                else:
                    exp = s['state']
                if st != exp:
                    self.run.add_finding(Finding(f'repair-table:{s["state"]}->{st}', f'{i} persisted as {s["state"]} is {st} after load (expected {exp})',
                                                 dict(ctx, transfer=s), observed=st, expected=exp))
            if not any(l is manager for l in t.state_listeners):
                self.run.add_finding(Finding('loaded-not-registered', f'{i}: manager does not listen to state changes after load', dict(ctx, transfer=s)))
            if t._transfer_task is not None or t._remotely_queue_task is not None or t._state_lock.locked():
                self.run.add_finding(Finding('loaded-runtime-not-fresh', f'{i}: tasks / lock not fresh after load', dict(ctx, transfer=s)))
        if manager.transfers and manager._management_queue.qsize() == 0:
            self.run.add_finding(Finding('loaded-not-scheduled', 'no management cycle requested after load_data()', ctx))


def history(rng, maxn, collide):
    """list of writes; each write = list of specs (distinct identities)"""
    n0 = rng.randrange(0, maxn + 1)
    ids = gen_idents(rng, maxn + 3, collide)
    cur = [gen_spec(rng, i) for i in ids[:n0]]
    spare = ids[n0:]
    writes = [[dict(s) for s in cur]]
    for _ in range(rng.randrange(0, 3)):
        # mutate / remove / add, then write again
        for s in cur:
            if rng.random() < 0.4:
                s.update({k: v for k, v in gen_spec(rng, ident(s)).items() if k not in ('user', 'path', 'dir')})
        if cur and rng.random() < 0.6:
            for _ in range(rng.randrange(1, min(3, len(cur)) + 1)):
                cur.pop(rng.randrange(len(cur)))
        if spare and rng.random() < 0.5 and len(cur) < maxn:
            cur.append(gen_spec(rng, spare.pop()))
        if rng.random() < 0.3:
            rng.shuffle(cur)
        writes.append([dict(s) for s in cur])
    return writes


def old_key(s) -> str:
    """key format of the versions before the fix of F21"""
    import hashlib
    return hashlib.sha256((s['user'] + s['path'] + ('0' if s['dir'] == 'UPLOAD' else '1')).encode('utf-8')).hexdigest()


def run_history(tmp, writes, mon: Monitor, run: Run, drive_ops=None, old=None):
    """real cache + managers; returns (coq text for read, coq text for load, extra C03 cases).
    old: specs of a database left behind by a version with the old key format"""
    d = tempfile.mkdtemp(dir=tmp)
    from aioslsk.transfer.cache import TransferShelveCache
    loop = vloop.new_loop()
    try:
        old_by_key = {}
        if old:
            import shelve
            for s in old:
                old_by_key[old_key(s)] = s
            with shelve.open(os.path.join(d, TransferShelveCache.DEFAULT_FILENAME), flag='c') as database:
                for k, s in old_by_key.items():
                    database[k] = make_transfer(s)
            # an old cache must still load completely
            mon.roundtrip({'old': old, 'writes': []}, list(old_by_key.values()), TransferShelveCache(d).read())
        cache = TransferShelveCache(d)
        mgr = L.make_manager(cache)
        objs = {}
        for w in writes:
            lst = []
            for s in w:
                i = ident(s)
                if i not in objs:
                    objs[i] = make_transfer(s)
                else:
                    apply_spec(objs[i], s)
                lst.append(objs[i])
            for i in list(objs):
                if i not in {ident(s) for s in w}:
                    del objs[i]
            mgr._transfers = lst
            loop.run_coro(mgr.store_data())
        ctx = {'writes': writes}
        # a new client
        cache2 = TransferShelveCache(d)
        raw = cache2.read()
        mon.roundtrip(ctx, writes[-1], raw)
        exp_read = [enc_real(t) for t in raw]
        mgr2 = L.make_manager(TransferShelveCache(d))
        loop.run_coro(mgr2.load_data())
        mon.loaded(ctx, writes[-1], mgr2)
        exp_load = [enc_real(t, mgr2) for t in mgr2.transfers]
        # a restart as SoulSeekClient.start does it: load_data() of the services first, then start(): the transfers read from
        # the cache must be picked up by the scheduler without any further trigger
        if writes and writes[-1]:
            from unittest.mock import AsyncMock
            mgr3 = L.make_manager(TransferShelveCache(d))
            ran = []
            mgr3.manage_transfers = lambda: ran.append(len(mgr3.transfers))
            mgr3.manage_user_tracking = AsyncMock()
            mgr3.manage_shares_changed = AsyncMock()

            async def restart():
                await mgr3.load_data()
                await mgr3.start()
            loop.run_coro(restart())
            loop.run_for(2.0)
            if mgr3.transfers and not ran:
                mon.run.add_finding(Finding('loaded-not-scheduled-after-start', 'load_data() then start(): no management cycle ran for the loaded transfers',
                                            ctx, observed='manage_transfers never called within 2 s', expected='a management cycle'))
            elif ran and ran[0] != len(mgr3.transfers):
                mon.run.add_finding(Finding('loaded-partially-scheduled', f'management cycle saw {ran[0]} of {len(mgr3.transfers)} loaded transfers', ctx))

            async def halt():
                for t in await mgr3.stop():
                    t.cancel()
            loop.run_coro(halt())
        ws = '[' + '; '.join('[' + '; '.join(spec_to_coq(s) for s in w) + ']' for w in writes) + ']'
        if old:
            ws = '[' + '; '.join(spec_to_coq(s) for s in old_by_key.values()) + '] ' + ws
            ctx['old'] = old
        loaded = list(mgr2.transfers)
    finally:
        vloop.close_loop(loop)
    extra = []
    if drive_ops:
        for t in loaded[:2]:
            extra.append(drive_loaded(tmp, t, mgr2, drive_ops, mon, ctx))
    shutil.rmtree(d, ignore_errors=True)
    fn = '_from' if old else ''
    return (f'(got_read{fn} {ws}, {L.zzl(exp_read)})', f'(got_load{fn} {ws}, {L.zzl(exp_load)})', extra)


def drive_loaded(tmp, t, mgr, calls, mon: Monitor, ctx):
    """a loaded transfer must behave like a fresh one: same answers as C03's model, listeners notified, cycle requested"""
    state = t.state.VALUE.name
    direction = t.direction.name
    ridx = lambda r: 0 if r is None else L.REASONS.index(r)
    cfg = L.default_cfg(fail=ridx(t.fail_reason), abort=ridx(t.abort_reason), rq=bool(t.remotely_queued), place=t.place_in_queue, filesize=t.filesize,
                        bytes=t.bytes_transfered, qatt=t.queue_attempts, uatt=t.upload_request_attempts, start=t.start_time is not None,
                        complete=t.complete_time is not None, local=False, file=False)
    cfg_model = dict(cfg, local=t.local_path is not None)
    h = L.Harness(tmp, state, direction, cfg, gate=True, transfer=t)
    try:
        while not mgr._management_queue.empty():
            mgr._management_queue.get_nowait()
        exp = []
        sv = L.state_values()
        edges = 0
        for j, c in enumerate(calls):
            h.capture(j, c)
            h.start(j)
            guard = 0
            while j not in h.results and h.enabled_step() and guard < 10:
                h.do_step()
                guard += 1
            obs = h.take()
            r = h.results.get(j)
            es = [(o[1], o[2]) for o in obs if o[0] == 'E']
            edges += len(es)
            exp.append([1 if r == ('ret', True) else 0 if r == ('ret', False) else 7] + [x for e in es for x in (sv[e[0]], sv[e[1]])])
        exp.append(h.snapshot())
        if edges and mgr._management_queue.empty():
            mon.run.add_finding(Finding('loaded-state-change-not-scheduled', 'state change of a loaded transfer did not request a management cycle',
                                        dict(ctx, calls=[list(c) for c in calls])))
        if h.violations:
            mon.run.add_finding(Finding('loaded-lock-not-held', 'state method of a loaded transfer acted without the lock', ctx))
        return ('seq', L.coq_transfer(state, direction, cfg_model), [L.coq_call(c) for c in calls], [], exp)
    finally:
        h.close()


def legacy_case(rng, mon: Monitor, tmp):
    """old pickles: no abort_reason, an _offset attribute"""
    s = gen_spec(rng, (rng.choice(USERS), rng.choice(PATHS), rng.choice(L.DIRS)))
    s['offset'] = rng.random() < 0.7
    no_abort = rng.random() < 0.7
    t = make_transfer(s)
    if no_abort:
        del t.abort_reason
        s = dict(s, abort=0)
    from aioslsk.transfer.cache import TransferShelveCache
    d = tempfile.mkdtemp(dir=tmp)
    TransferShelveCache(d).write([t])
    back = TransferShelveCache(d).read()
    shutil.rmtree(d, ignore_errors=True)
    t2 = pickle.loads(pickle.dumps(t))
    from aioslsk.transfer.model import Transfer, TransferDirection
    fresh = Transfer('a', 'b', TransferDirection.DOWNLOAD)
    for x in back + [t2]:
        missing = sorted(set(vars(fresh)) - set(vars(x)))
        if missing:
            mon.run.add_finding(Finding('legacy-attributes-missing', f'unpickled legacy transfer lacks attributes {missing}', {'transfer': s, 'no_abort_reason': no_abort}))
    exp = [enc_real(x) for x in back + [t2]]
    m = spec_to_coq(s)
    pr = f'(mkPr {m} {"false" if no_abort else "true"})'
    return f'([enc_om (setstate {pr}); enc_om (setstate {pr})], {L.zzl(exp)})'


def run(run: Run):
    run.rule = ('histories write / mutate / remove / add / write (1..3 writes) over lists of 0..8 transfers with distinct identities drawn from '
                'name pools that contain colliding concatenations, empty and non-ASCII names; every state x direction first, then random field '
                'combinations; a third of the histories start from a database written with the pre-fix key format; each history is read by a '
                'new cache object and loaded by a new TransferManager; legacy pickles; loaded transfers '
                'driven through 1..3 operations. distinct = distinct history; non-trivial = at least one transfer in the last write')
    run.trusted += ['shelve/dbm/pickle/hashlib of CPython as oracles; the model evaluates with an injective stand-in for sha256 (the theorems '
                    'quantify over every hash function and state key injectivity on the listed transfers as a premise)',
                    'the INITIALIZING repair uses C03/Model.v effect semantics over the regenerated TransGen.trans']
    run.assumptions += ['TransferManager.transfers never holds two transfers with the same (username, remote_path, direction) (add() deduplicates)',
                        'a process end is modelled by the last completed write (torn shelve files are out of scope)']
    run.prove(['tr_state', 'tr_transfer'], extra_targets=['theories/C03/Eval.vo', 'theories/C17/Eval.vo'])
    if L.gen_reasons() != L.REASONS[1:4]:
        run.add_broken('constants: AbortReason values vs harness numbering', str(L.gen_reasons()))
    mon = Monitor(run)
    tmp = tempfile.mkdtemp(prefix='verif_c17_')
    read_cases, load_cases, c03_cases, legacy_cases = [], [], [], []
    try:
        # listed findings first
        for key, wit, _fixed in run.known_witnesses():
            specs = [gen_spec(__import__('random').Random(1), tuple(i), 'QUEUED') for i in wit['transfers']]
            try:
                r, l, _ = run_history(tmp, [specs], mon, run)
            except Exception as e:
                run.add_finding(Finding(f'cache-operation-raised:{type(e).__name__}', f'write/read/load raised {type(e).__name__}: {e}', {'writes': [specs]}))
                continue
            read_cases.append(r)
            load_cases.append(l)
            run.case({'corpus': key})
        # every state x direction x completeness, persisted alone and in one list
        allspecs = []
        k = 0
        for st in L.STATES:
            for v, (fs, by) in enumerate(((10, 10), (10, 4), (None, 0), (0, 0))):
                for d in L.DIRS:   # both directions of one (user, path)
                    s = gen_spec(run.rng, (f'user{k}', f'p{v}', d), st)
                    s.update(filesize=fs, bytes=by, rq=True)
                    allspecs.append(s)
                k += 1
        for i in range(0, len(allspecs), 8):
            chunk = allspecs[i:i + 8]
            ops = [(run.rng.choice(L.OPS), None, False) for _ in range(2)]
            try:
                r, l, extra = run_history(tmp, [chunk], mon, run, drive_ops=ops)
            except Exception as e:
                run.add_finding(Finding(f'cache-operation-raised:{type(e).__name__}', f'write/read/load raised {type(e).__name__}: {e}', {'writes': [chunk]}))
                continue
            read_cases.append(r)
            load_cases.append(l)
            c03_cases += extra
            run.case({'states': [(s['state'], s['dir'], s['filesize'], s['bytes']) for s in chunk]}, kind='all-states')
        run.cov['exhaustive_part'] = 'state x direction x {complete, partial, size unknown, empty} persisted and loaded'
        nh = 100 if run.tier == 'quick' else 800
        for i in range(nh):
            collide = run.rng.random() < 0.15
            writes = history(run.rng, run.rng.choice([0, 1, 2, 4, 8, 8]), collide)
            ops = [one_call(run.rng) for _ in range(run.rng.randrange(1, 4))] if i % 2 == 0 else None
            old = None
            if i % 3 == 0:
                # a cache written by a version with the old key format: some transfers still listed (other field values), some not
                old = [gen_spec(run.rng, ident(s)) for s in writes[0][:run.rng.randrange(0, 4)]]
                old += [gen_spec(run.rng, x) for x in gen_idents(run.rng, run.rng.randrange(0, 3), False) if x not in {ident(o) for o in old}]
            try:
                r, l, extra = run_history(tmp, writes, mon, run, drive_ops=ops, old=old)
            except Exception as e:
                run.add_finding(Finding(f'cache-operation-raised:{type(e).__name__}', f'write/read/load raised {type(e).__name__}: {e}',
                                        {'writes': writes, 'old': old}))
                continue
            read_cases.append(r)
            load_cases.append(l)
            c03_cases += extra
            run.case({'w': writes, 'old': old}, nontrivial=bool(writes[-1]),
                     kind=f'history-{len(writes)}writes' + ('-colliding' if collide else '') + ('-oldformat' if old else ''))
        for _ in range(40 if run.tier == 'quick' else 300):
            try:
                legacy_cases.append(legacy_case(run.rng, mon, tmp))
            except Exception as e:
                run.add_finding(Finding(f'legacy-unpickle-raised:{type(e).__name__}', f'reading a legacy pickle raised {type(e).__name__}: {e}', {'legacy': True}))
            run.case({'legacy': len(legacy_cases)}, nontrivial=False, kind='legacy-pickle')
        check_resource(run, mon, tmp)
    finally:
        shutil.rmtree(tmp, ignore_errors=True)

    groups = [('read', read_cases, COQ_HEADER, 'msame'), ('load', load_cases, COQ_HEADER, 'msame'),
              ('legacy', legacy_cases, COQ_HEADER, 'zzeq'), ('loaded-ops', c03_cases, L.COQ_HEADER, 'zzeq')]
    texts, index = [], []
    for name, cs, header, cmp in groups:
        shard = 150 if name in ('read', 'load') else 600
        if name == 'loaded-ops':
            for i in range(0, len(cs), 1500):
                texts.append(L.shard_text(L.COQ_HEADER, cs[i:i + 1500]))
                index.append((name, [str(c) for c in cs], i))
            continue
        for i in range(0, len(cs), shard):
            rows = ';\n'.join(f' ({k}%nat, {c})' for k, c in enumerate(cs[i:i + shard]))
            texts.append(header + 'Definition cases : list (nat * (list (list Z) * list (list Z))) := [\n' + rows + '\n].\n'
                         f'Definition bad := map fst (filter (fun c => negb ({cmp} (fst (snd c)) (snd (snd c)))) cases).\n'
                         'Eval vm_compute in bad.\n')
            index.append((name, cs, i))
    try:
        outs = coq_eval_many('c17', texts)
        nbad = 0
        total = 0
        for (name, cs, i), out in zip(index, outs):
            vals = parse_eval(out)
            bad = parse_coq_list(vals[0]) if vals else None
            if bad is None:
                raise BrokenTie('correspondence:C17', f'no output from shard {name}/{i}')
            for b in bad:
                nbad += 1
                if nbad <= 3:
                    run.add_broken(f'correspondence:C17 {name}: model vs real cache/manager', cs[i + int(b)][:1500])
        total = sum(len(g[1]) for g in groups)
        run.cov['traces_validated_against_impl'] = total - nbad
    except BrokenTie as e:
        run.add_broken(e.obligation, e.detail)


def check_resource(run, mon, tmp):
    """the legacy cache shipped with the repository's unit tests (written by an older version)"""
    # the legacy cache shipped with the repository's unit tests
    res = REPO / 'tests' / 'unit' / 'resources' / 'data'
    if (res / 'transfers.dat').exists():
        d = tempfile.mkdtemp(dir=tmp)
        shutil.copytree(res, d, dirs_exist_ok=True)
        from aioslsk.transfer.cache import TransferShelveCache
        from aioslsk.transfer.model import Transfer, TransferDirection
        loop = vloop.new_loop()
        try:
            mgr = L.make_manager(TransferShelveCache(d))
            try:
                loop.run_coro(mgr.load_data())
            except Exception as e:
                run.add_finding(Finding(f'legacy-unpickle-raised:{type(e).__name__}', f'loading tests/unit/resources/data raised {type(e).__name__}: {e}',
                                        {'resource': str(res)}))
            fresh = Transfer('a', 'b', TransferDirection.DOWNLOAD)
            for t in mgr.transfers:
                missing = sorted(set(vars(fresh)) - set(vars(t)))
                if missing:
                    run.add_finding(Finding('legacy-attributes-missing', f'transfer from tests/unit/resources/data lacks {missing}', {'resource': str(res)}))
            # what this cache (written by an older version) holds is known: it must be read as that
            got = sorted((t.username, t.remote_path, t.direction.name, t.state.VALUE.name) for t in mgr.transfers)
            want = [('user0', '@abcdef\\file.mp3', 'DOWNLOAD', 'VIRGIN'), ('user1', '@abcdef\\file.flac', 'UPLOAD', 'VIRGIN')]
            if got != want:
                run.add_finding(Finding('legacy-cache-misread', f'tests/unit/resources/data is read as {got}', {'resource': str(res)},
                                        observed=got, expected=want))
            mon.loaded({'resource': str(res)}, [], mgr)
            run.case({'legacy-resource': len(mgr.transfers)}, kind='legacy-resource')
        finally:
            vloop.close_loop(loop)


def one_call(rng):
    op = rng.choice(L.OPS)
    if op in ('fail', 'abort'):
        return (op, rng.choice([None, 1, 5]), False)
    if op == 'queue':
        return (op, None, rng.random() < 0.5)
    return (op, None, False)


def replay(rep) -> int:
    wit = rep['witness']
    r = Run(prop='C17', tier='quick', seed=0)
    mon = Monitor(r)
    tmp = tempfile.mkdtemp(prefix='verif_c17_')
    try:
        if 'writes' in wit:
            if wit['writes']:
                run_history(tmp, wit['writes'], mon, r, old=wit.get('old'))
            else:
                run_history(tmp, [], mon, r, old=wit.get('old'))
        elif 'transfers' in wit:
            import random
            specs = [gen_spec(random.Random(1), tuple(i), 'QUEUED') for i in wit['transfers']]
            run_history(tmp, [specs], mon, r)
        elif 'transfer' in wit:
            run_history(tmp, [[wit['transfer']]], mon, r)
        elif 'resource' in wit:
            check_resource(r, mon, tmp)
    finally:
        shutil.rmtree(tmp, ignore_errors=True)
    for f in r.findings:
        print('FAILS:', f.key, '-', f.what, 'observed:', f.observed)
    return 1 if r.findings else 0
