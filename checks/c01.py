"""C01 — wire codec: round trip and byte compatibility.

L1  theories/C01/Props.v over gen/{ObfGen,PrimGen,SchemaGen,PinnedGen}.v (regenerated from
    protocol/{obfuscation,primitives,messages}.py and pinned/layout.json by tr_obf / tr_messages)
L2  correspondence (vm_compute): for every message class, in-domain values with boundary pools ->
    real serialize() bytes == model enc_msg, real family dispatcher + deserialize == model dispatch;
    string decoding (utf-8 / cp1252 fallback) of hostile byte strings; obfuscation.encode/decode vs
    obf_encode/obf_decode for every length 0..600; the maintainers' byte vectors vs the model
L3  monitors = the property text on the implementation: deserialize(serialize(m)) == m through the
    family dispatcher, length prefix = number of bytes that follow, bytes == the bytes the PINNED
    layout prescribes (independent reference encoder driven by pinned/layout.json), the
    maintainers' vectors still reproduced, decode(encode(x)) == x for all lengths / keys, and wire composition:
    whatever send_message / queue_message / queue_messages (1..5 messages) write on plain and obfuscated
    connections parses (independent receiver) into exactly the sent messages, in order.
"""
from __future__ import annotations

import json
import struct
import zlib

from vlib import common
from vlib.common import Run, Finding, BrokenTie, coq_eval_many, parse_eval, parse_coq_list
from checks import c01_lib as L

TABLES = {('server', 'request'): ('ServerMessage', 'deserialize_request'),
          ('server', 'response'): ('ServerMessage', 'deserialize_response'),
          ('peer_init', 'request'): ('PeerInitializationMessage', 'deserialize_request'),
          ('peer', 'request'): ('PeerMessage', 'deserialize_request'),
          ('distributed', 'request'): ('DistributedMessage', 'deserialize_request')}


def family_deserialize(m: dict, data: bytes):
    import aioslsk.protocol.messages as M
    cls, meth = TABLES[(m['family'], m['dir'])]
    return getattr(getattr(M, cls), meth)(data)


# ----------------------------------------------------------------------------------------
def layout_diff(pin: dict, cur: dict) -> list:
    """Field-level differences between two layouts: list of dict(where, what, pinned, current)."""
    out = []
    for k in ('primitives', 'records', 'family_id_width'):
        for name in sorted(set(pin[k]) | set(cur[k])):
            a, b = pin[k].get(name), cur[k].get(name)
            if a != b:
                out.append({'where': f'{k}.{name}', 'what': 'changed', 'pinned': a, 'current': b})
    pm, cm = L.msg_by_name(pin), L.msg_by_name(cur)
    if [m['name'] for m in pin['messages']] != [m['name'] for m in cur['messages']]:
        for n in sorted(set(pm) - set(cm)):
            out.append({'where': n, 'what': 'message removed', 'pinned': pm[n]['id'], 'current': None})
        for n in sorted(set(cm) - set(pm)):
            out.append({'where': n, 'what': 'message added', 'pinned': None, 'current': cm[n]['id']})
        if set(pm) == set(cm):
            out.append({'where': 'messages', 'what': 'definition (= dispatch) order changed', 'pinned': None, 'current': None})
    for n in pm:
        if n not in cm:
            continue
        a, b = pm[n], cm[n]
        for key in ('family', 'dir', 'id', 'id_width', 'compressed'):
            if a[key] != b[key]:
                out.append({'where': n, 'what': key, 'pinned': a[key], 'current': b[key]})
        fa, fb = a['fields'], b['fields']
        if [f['name'] for f in fa] != [f['name'] for f in fb]:
            out.append({'where': n, 'what': 'field list/order', 'pinned': [f['name'] for f in fa], 'current': [f['name'] for f in fb]})
        fbn = {f['name']: f for f in fb}
        for f in fa:
            g = fbn.get(f['name'])
            if g and any(f[k] != g[k] for k in ('type', 'cond', 'optional', 'default')):
                out.append({'where': f'{n}.{f["name"]}', 'what': 'field', 'pinned': {k: f[k] for k in ('type', 'cond', 'optional', 'default')},
                            'current': {k: g[k] for k in ('type', 'cond', 'optional', 'default')}})
    return out


# ----------------------------------------------------------------------------------------
def decompressed_frame(m: dict, b: bytes) -> bytes:
    """impl frame of a compressed message -> the same frame with the payload decompressed."""
    hdr = 4 + m['id_width']
    body = zlib.decompress(b[hdr:])
    return struct.pack('<I', m['id_width'] + len(body)) + b[4:hdr] + body


def has_string(lay: dict, t) -> bool:
    k = L.kind_of(lay, t)
    return k[0] == 'str' or (k[0] == 'array' and has_string(lay, k[1])) or \
        (k[0] == 'rec' and any(has_string(lay, ft) for _, ft in lay['records'][k[1]]))


def impl_case(play: dict, m: dict, vals: list) -> dict:
    """Run one in-domain message through the implementation; evaluate the property text."""
    res = {'class': m['name'], 'vals': vals, 'bytes': None, 'dec': None, 'problems': []}
    try:
        obj = L.make_obj(play, m, vals)
    except Exception as e:
        res['problems'].append(('construct-raises', f'{type(e).__name__}: {e}'))
        return res
    try:
        b = obj.serialize()
    except Exception as e:
        res['problems'].append(('serialize-raises', f'{type(e).__name__}: {e}'))
        return res
    res['bytes'] = b
    if len(b) < 4 or struct.unpack('<I', b[:4])[0] != len(b) - 4:
        res['problems'].append(('length-prefix', f'prefix {b[:4].hex()} on {len(b)} bytes'))
    # byte compatibility with the pinned layout
    ref = L.ref_enc_msg(play, m, vals, compress=lambda x: x)
    try:
        got = decompressed_frame(m, b) if m['compressed'] else b
    except zlib.error as e:
        got = None
        res['problems'].append(('bytes-differ-from-pinned', f'compressed payload not decodable: {e}'))
    if got is not None and got != ref:
        res['problems'].append(('bytes-differ-from-pinned', {'observed': got.hex(), 'expected': ref.hex()}))
    # round trip through the family dispatcher
    try:
        obj2 = family_deserialize(m, b)
    except Exception as e:
        res['problems'].append(('roundtrip', f'deserialize raised {type(e).__name__}: {e}'))
        return res
    res['dec_class'] = f'{type(obj2).__qualname__}'
    try:
        res['dec'] = L.obj_vals(play, m, obj2) if type(obj2) is type(obj) else None
    except Exception:
        res['dec'] = None
    if type(obj2) is not type(obj):
        res['problems'].append(('roundtrip', f'dispatched to {type(obj2).__qualname__}'))
    elif obj2 != obj:
        res['problems'].append(('roundtrip', {'observed': res['dec'], 'expected': vals}))
    return res


def report_problems(run: Run, res: dict):
    for kind, detail in res['problems']:
        key = f'{kind}:{res["class"]}'
        obs = detail.get('observed') if isinstance(detail, dict) else detail
        exp = detail.get('expected') if isinstance(detail, dict) else None
        what = {'bytes-differ-from-pinned': 'serialised bytes differ from the bytes the pinned protocol layout prescribes',
                'roundtrip': 'deserialize(serialize(m)) is not m',
                'length-prefix': 'length prefix is not the number of bytes that follow',
                'serialize-raises': 'serialize() raises on an in-domain value',
                'construct-raises': 'message class cannot be constructed from its pinned fields'}[kind]
        run.add_finding(Finding(key, f'{res["class"]}: {what}', {'class': res['class'], 'vals': res['vals'], 'kind': kind},
                                observed=obs, expected=exp))


# ----------------------------------------------------------------------------------------
def coq_msg_cases(cases: list, cur: dict, play: dict) -> list:
    """cases: impl_case results. Returns list of .v texts (sharded by size)."""
    cm = L.msg_by_name(cur)
    pm = L.msg_by_name(play)
    shards, rows, size, zc, zd = [], [], 0, [], []
    index_of = []

    def flush():
        nonlocal rows, size, zc, zd
        if not rows:
            return
        t = [L.CASES_PRELUDE,
             f'Definition zc := zc_of {L.coq_table(zc)}.\n',
             f'Definition zd := zd_of {L.coq_table(zd, none_ok=True)}.\n',
             'Definition cases : list (nat * (schema * list value * option bytes * (family * direction) * option (string * list value))) := [\n',
             ';\n'.join(rows), '].\n',
             'Definition bad_enc (c : schema * list value * option bytes * (family * direction) * option (string * list value)) : bool :=\n'
             ' let \'(s, m, b, _, _) := c in negb (opt_eqb bytes_eqb (enc_msg zc s m) b).\n',
             'Definition bad_dec (c : schema * list value * option bytes * (family * direction) * option (string * list value)) : bool :=\n'
             ' let \'(s, m, b, fd, e) := c in\n'
             ' match b with None => false | Some bs =>\n'
             '  negb (match dispatch zd (table all_schemas (fst fd) (snd fd)) (gen_fam_width (fst fd)) bs, e with\n'
             '        | Some (s\', m\'), Some (n, me) => andb (String.eqb (sname s\') n) (values_eqb m\' me)\n'
             '        | None, None => true | _, _ => false end) end.\n',
             'Definition bad_dom (c : schema * list value * option bytes * (family * direction) * option (string * list value)) : bool :=\n'
             ' let \'(s, m, _, _, _) := c in negb (canonicalb s m).\n',
             'Eval vm_compute in (indices_where bad_enc cases).\n',
             'Eval vm_compute in (indices_where bad_dec cases).\n',
             'Eval vm_compute in (indices_where bad_dom cases).\n']
        shards.append(''.join(t))
        rows, size, zc, zd = [], 0, [], []

    for idx, r in enumerate(cases):
        name = r['class']
        if name not in cm or [f['name'] for f in cm[name]['fields']] != [f['name'] for f in pm[name]['fields']]:
            continue
        m = cm[name]
        b = r['bytes']
        mv = L.coq_msg(cur, m, r['vals'])
        if r.get('dec') is not None:
            e = f'(Some ("{r["dec_class"]}"%string, {L.coq_msg(cur, m, r["dec"])}))'
        else:
            e = 'None'
        fd = f'({L.FAMILY_COQ[m["family"]]}, {"DRequest" if m["dir"] == "request" else "DResponse"})'
        row = f' ({idx}%nat, ({L.ident(name)}, {mv}, {L.coq_opt(None if b is None else L.coq_bytes(b))}, {fd}, {e}))'
        if m['compressed'] and b is not None:
            hdr = 4 + m['id_width']
            try:
                body = zlib.decompress(b[hdr:])
                zc.append((body, b[hdr:]))
                zd.append((b[hdr:], body))
            except Exception:
                zd.append((b[hdr:], None))
        rows.append(row)
        size += len(row)
        if size > 90000 or len(rows) >= 150:
            flush()
    flush()
    return shards


def eval_groups(run: Run, name: str, groups: list) -> int:
    """groups: [(label, shards, nvals, on_bad(which:int, index:int) -> str)]; all shards of all groups are
    evaluated in one parallel batch.  Returns the number of disagreeing cases."""
    texts, owner = [], []
    for g, (label, shards, nvals, on_bad) in enumerate(groups):
        for t in shards:
            texts.append(t)
            owner.append(g)
    try:
        outs = coq_eval_many(name, texts, timeout=1500)
    except BrokenTie as e:
        run.add_broken(e.obligation, e.detail)
        return 0
    nbad = 0
    shown = {}
    for g, out in zip(owner, outs):
        label, _, nvals, on_bad = groups[g]
        vals = parse_eval(out)
        if len(vals) != nvals:
            run.add_broken(f'correspondence:C01 {label}', f'unexpected coqc output: {out[:300]}')
            continue
        for which, v in enumerate(vals):
            for i in parse_coq_list(v):
                nbad += 1
                shown[g] = shown.get(g, 0) + 1
                if shown[g] <= 2:
                    run.add_broken(f'correspondence:C01 {label}', on_bad(which, int(i))[:1500])
    return nbad


MSG_WHICH = ('enc_msg vs serialize()', 'dispatch/dec_msg vs family deserialize', 'generated value outside the model domain (canonicalb)')


# ----------------------------------------------------------------------------------------
# obfuscation

def ref_obf_encode(key: bytes, data: bytes) -> bytes:
    """Independent reference (from the protocol description): before every 4-byte block the key is
    rotated left by one bit (= right by 31) as a little-endian uint32; bytes are XORed."""
    k = int.from_bytes(key, 'little')
    out = bytearray(key)
    for i, b in enumerate(data):
        if i % 4 == 0:
            k = ((k << 1) | (k >> 31)) & 0xFFFFFFFF
        out.append(b ^ ((k >> (8 * (i % 4))) & 0xFF))
    return bytes(out)


OBF_KEYS = [bytes(4), b'\xff\xff\xff\xff', b'\x01\x00\x00\x00', b'\x00\x00\x00\x80', b'\x80\x00\x00\x00', b'\x00\x00\x00\x01',
            bytes.fromhex('99abcdef'), bytes.fromhex('deadbeef'), b'\x55\xaa\x55\xaa']


def obf_cases(run: Run, nkeys: int, maxlen: int = 600):
    """Per key one random maxlen-byte payload D; for EVERY n in 0..maxlen the implementation encodes D[:n]
    and decodes the result (monitor: round trip, bytes == pinned algorithm).  Returns per key
    (key, D, E = encode(D), ok_prefix) where ok_prefix says encode(D[:n]) == E[:4+n] for all n, and
    explicit (key, data, e, d) cases for every n where that prefix relation failed."""
    from aioslsk.protocol import obfuscation
    per_key, explicit = [], []
    keys = OBF_KEYS[:nkeys] + [bytes(run.rng.randrange(256) for _ in range(4)) for _ in range(max(0, nkeys - len(OBF_KEYS)) + 2)]
    for key in keys:
        D = bytes(run.rng.randrange(256) for _ in range(maxlen))
        if key == OBF_KEYS[1]:
            D = bytes(maxlen)
        try:
            E = obfuscation.encode(D, key=key)
        except Exception as ex:
            run.add_finding(Finding('obf-raises', f'obfuscation.encode raised {type(ex).__name__}', {'kind': 'obf', 'key': key.hex(), 'data': D.hex()}))
            continue
        for n in range(maxlen + 1):
            data = D[:n]
            try:
                e = obfuscation.encode(data, key=key)
                d = obfuscation.decode(e)
            except Exception as ex:
                run.add_finding(Finding('obf-raises', f'obfuscation raised {type(ex).__name__} on length {n}',
                                        {'kind': 'obf', 'key': key.hex(), 'data': data.hex()}))
                continue
            prob = None
            ref = ref_obf_encode(key, data)
            if d != data:
                prob, what = 'obf-roundtrip', f'decode(encode(data, key)) != data for a {n}-byte payload'
            elif e != ref:
                prob, what = 'obf-bytes-differ-from-pinned', f'obfuscated bytes differ from the pinned algorithm (rotate right by 31 before each block) for a {n}-byte payload'
            if prob:
                run.add_finding(Finding(prob, what, {'kind': 'obf', 'key': key.hex(), 'data': data.hex()}, observed=e.hex()[:200], expected=ref.hex()[:200]))
            if e != E[:4 + n] and len(explicit) < 12:
                explicit.append((key, data, e, d))
            run.case({'obf': [key.hex(), n]}, nontrivial=n > 0, kind='obf>128' if n > 128 else 'obf<=128')
        per_key.append((key, D, E))
    garb = []
    for n in list(range(0, 14)) + [127, 128, 129, 131, 132, 133, 136, 260]:
        g = bytes(run.rng.randrange(256) for _ in range(n))
        try:
            garb.append((g, obfuscation.decode(g)))
        except Exception as ex:
            run.add_finding(Finding('obf-decode-raises', f'obfuscation.decode raised {type(ex).__name__} on {n} bytes', {'kind': 'obf-decode', 'data': g.hex()}))
    return per_key, explicit, garb


def coq_obf(per_key, explicit, garb, maxlen: int = 600) -> list:
    """Per key: for every n, obf_encode key D[:n] = E[:4+n] and obf_decode E[:4+n] = D[:n] (prefixes taken in Coq)."""
    shards = []
    for k in range(0, len(per_key), 2):
        rows = [f' ({k + i}%nat, ({L.coq_bytes(key)}, {L.coq_bytes(D)}, {L.coq_bytes(E)}))' for i, (key, D, E) in enumerate(per_key[k:k + 2])]
        shards.append(L.CASES_PRELUDE +
                      'Definition cases : list (nat * (bytes * bytes * bytes)) := [\n' + ';\n'.join(rows) + '].\n'
                      'Definition bad_len (c : bytes * bytes * bytes) (n : nat) : bool := let \'(k, D, E) := c in\n'
                      ' negb (andb (bytes_eqb (obf_encode k (firstn n D)) (firstn (4 + n) E)) (bytes_eqb (obf_decode (firstn (4 + n) E)) (firstn n D))).\n'
                      f'Eval vm_compute in (flat_map (fun c => map (fun n => (N.of_nat (fst c) * 1000 + N.of_nat n)%N) (filter (bad_len (snd c)) (seq 0 {maxlen + 1}))) cases).\n')
    rows = []
    i = 0
    for key, data, e, d in explicit:
        rows.append(f' ({i}%nat, ({L.coq_bytes(key)}, {L.coq_bytes(data)}, {L.coq_bytes(e)}, {L.coq_bytes(d)}))')
        i += 1
    for g, d in garb:
        rows.append(f' ({i}%nat, ([], [], {L.coq_bytes(g)}, {L.coq_bytes(d)}))')
        i += 1
    shards.append(L.CASES_PRELUDE +
                  'Definition cases : list (nat * (bytes * bytes * bytes * bytes)) := [\n' + ';\n'.join(rows) + '].\n'
                  'Definition bad (c : bytes * bytes * bytes * bytes) : bool := let \'(k, d, e, dd) := c in\n'
                  ' negb (andb (bytes_eqb (if Nat.eqb (List.length k) 4 then obf_encode k d else e) e) (bytes_eqb (obf_decode e) dd)).\n'
                  'Eval vm_compute in (map (fun i => (900000 + N.of_nat i)%N) (indices_where bad cases)).\n')
    return shards


# ----------------------------------------------------------------------------------------
# string decoding fidelity (utf-8 strict, cp1252 fallback)

def string_cases(run: Run, n_random: int):
    from aioslsk.protocol.primitives import string, bytearr
    ins = [bytes([b]) for b in range(256)]
    edge = [0x00, 0x7f, 0x80, 0x81, 0x8d, 0x8f, 0x90, 0x9d, 0x9f, 0xa0, 0xbf, 0xc0, 0xc1, 0xc2, 0xdf, 0xe0, 0xe1, 0xec, 0xed, 0xee, 0xef,
            0xf0, 0xf1, 0xf3, 0xf4, 0xf5, 0xff, 0x41]
    for a in edge:
        for b in edge:
            ins.append(bytes([a, b]))
    for s in ['ࠀ', '퟿', '', '￿', '\U00010000', '\U0010ffff', '€', 'é']:
        e = s.encode('utf-8')
        ins += [e, e[:-1], e + b'\x80', b'A' + e + b'B']
    ins += [bytes.fromhex(h) for h in ['eda080', 'edbfbf', 'e09fbf', 'e0a080', 'f08fbfbf', 'f0908080', 'f48fbfbf', 'f4908080', 'c080', 'c1bf',
                                        'f8888080', '80', 'e28281', 'e2828d41', 'ff', '']]
    for _ in range(n_random):
        n = run.rng.choice([1, 2, 3, 4, 5, 8, 13])
        ins.append(bytes(run.rng.choice(edge + [run.rng.randrange(256)]) for _ in range(n)))
    out = []
    for si, s in enumerate(ins):
        for lie in ((0, 1, -1) if (si % 4 == 0 or len(s) > 2) else (0,)):
            if lie == -1 and not s:
                continue
            frame = struct.pack('<I', len(s) + lie) + s
            try:
                pos, v = string.deserialize(0, frame)
                exp = (v.encode('utf-8'), frame[pos:] if pos <= len(frame) else b'')
            except Exception:
                exp = None
            try:
                pos, v = bytearr.deserialize(0, frame)
                expb = (bytes(v), frame[pos:] if pos <= len(frame) else b'')
            except Exception:
                expb = None
            out.append((frame, exp, expb))
            if lie == 0:
                run.case({'str': s.hex()}, nontrivial=exp is None or exp[0] != s, kind='string-decode')
    return out


def coq_strings(cases) -> list:
    shards = []
    for k in range(0, len(cases), 400):
        rows = []
        for i, (frame, exp, expb) in enumerate(cases[k:k + 400]):
            e = 'None' if exp is None else f'(Some (VStr {L.coq_bytes(exp[0])}, {L.coq_bytes(exp[1])}))'
            eb = 'None' if expb is None else f'(Some (VBytes {L.coq_bytes(expb[0])}, {L.coq_bytes(expb[1])}))'
            rows.append(f' ({k + i}%nat, ({L.coq_bytes(frame)}, {e}, {eb}))')
        shards.append(L.CASES_PRELUDE +
                      'Definition res_eqb (a b : option (value * bytes)) : bool := match a, b with\n'
                      ' | Some (v, r), Some (v\', r\') => andb (value_eqb v v\') (bytes_eqb r r\') | None, None => true | _, _ => false end.\n'
                      'Definition cases : list (nat * (bytes * option (value * bytes) * option (value * bytes))) := [\n' + ';\n'.join(rows) + '].\n'
                      'Definition bad (c : bytes * option (value * bytes) * option (value * bytes)) : bool := let \'(f, e, eb) := c in\n'
                      ' negb (andb (res_eqb (dec TStr f) e) (res_eqb (dec TBytes f) eb)).\n'
                      'Eval vm_compute in (indices_where bad cases).\n')
    return shards


# ----------------------------------------------------------------------------------------
# wire composition through the real send paths (DataConnection.send_message / queue_message / queue_messages)

SEND_TABLES = {'peer': ('peer', 'request'), 'server': ('server', 'request'), 'distributed': ('distributed', 'request'),
               'init': ('peer_init', 'request')}


def ref_split_wire(wire: bytes, obf: bool):
    """Independent receiver: split what was written into frames and de-obfuscate each with the pinned
    algorithm (XOR stream is its own inverse).  -> list of plain frames, or None when the bytes do not
    parse as a whole number of frames."""
    out, pos = [], 0
    while pos < len(wire):
        if obf:
            if pos + 8 > len(wire):
                return None
            key = wire[pos:pos + 4]
            ln = int.from_bytes(ref_obf_encode(key, wire[pos + 4:pos + 8])[4:], 'little')
            end = pos + 8 + ln
            if end > len(wire):
                return None
            out.append(ref_obf_encode(key, wire[pos + 4:end])[4:])
        else:
            if pos + 4 > len(wire):
                return None
            end = pos + 4 + int.from_bytes(wire[pos:pos + 4], 'little')
            if end > len(wire):
                return None
            out.append(wire[pos:end])
        pos = end
    return out


def send_case(play: dict, conn_kind: str, obf: bool, path: str, items: list) -> dict:
    """items: [(message dict, vals)].  Sends them through the real connection; returns the written bytes and
    the problems found by the property text (every frame written decodes to the same messages, in order)."""
    import asyncio
    from vlib import vloop, fakes
    from aioslsk.network.connection import ServerConnection, PeerConnection, PeerConnectionType
    res = {'conn': conn_kind, 'obf': obf, 'path': path, 'items': [(m['name'], v) for m, v in items], 'wire': None, 'problems': []}
    loop = vloop.new_loop()
    net = fakes.FakeNet().install()
    try:
        class Stub:
            async def on_message_received(self, message, connection):
                pass

            async def on_state_changed(self, state, connection, close_reason=None):
                pass
        ep = fakes.Endpoint(net)
        net.connect_handler = lambda h, p: ep
        if conn_kind == 'server':
            conn = ServerConnection('server.test', 2416, Stub(), obfuscated=obf)
        else:
            ctype = PeerConnectionType.DISTRIBUTED if conn_kind == 'distributed' else PeerConnectionType.PEER
            conn = PeerConnection('10.0.0.9', 40000, Stub(), obfuscated=obf, connection_type=ctype)
        loop.run_coro(conn.connect())
        objs = [L.make_obj(play, m, v) for m, v in items]

        async def go():
            if path == 'send_message':
                for o in objs:
                    await conn.send_message(o)
            elif path == 'gather_send_message':      # what Network.send_peer_messages does with several messages
                await asyncio.gather(*[conn.send_message(o) for o in objs])
            elif path == 'queue_message':
                await asyncio.gather(*[conn.queue_message(o) for o in objs])
            else:
                await asyncio.gather(*conn.queue_messages(*objs))
        try:
            loop.run_coro(go())
        except Exception as e:
            res['problems'].append(f'send raised {type(e).__name__}: {e}')
            return res
        wire = bytes(ep.written)
        res['wire'] = wire
        frames = ref_split_wire(wire, bool(conn.obfuscated))
        res['eff_obf'] = bool(conn.obfuscated)
        if frames is None or len(frames) != len(objs):
            res['problems'].append(f'the written bytes parse as {None if frames is None else len(frames)} frames, {len(objs)} messages were sent')
            return res
        for i, (fr, o, (m, v)) in enumerate(zip(frames, objs, items)):
            if fr != o.serialize():
                res['problems'].append(f'frame {i + 1} ({m["name"]}) on the wire is not the serialised message after de-obfuscation')
                break
            try:
                back = family_deserialize(m, fr)
            except Exception as e:
                back = None
            if back != o:
                res['problems'].append(f'frame {i + 1} ({m["name"]}) does not decode to the message that was sent')
                break
        return res
    finally:
        net.uninstall()
        vloop.close_loop(loop)


CONN_TABLES = {'server': ('server', 'response'), 'init': ('peer_init', 'request'), 'peer': ('peer', 'request'),
               'distributed': ('distributed', 'request')}


def connection_decode_sweep(run: Run, play: dict) -> list:
    """encode -> wire -> decode THROUGH A CONNECTION for every class a connection can receive: the frame of every
    message class of every reader table (smallest and full value), plain and obfuscated, is handed to the real
    DataConnection.decode_message_data of the matching connection kind (server, awaiting-init, peer, distributed)
    and must come back as the message.  Covers what Message.deserialize alone cannot: the glue between the
    connection and the parsers (de-obfuscation, size checks, the family chosen for the connection)."""
    from aioslsk.network.connection import ServerConnection, PeerConnection, PeerConnectionState, PeerConnectionType
    out = []
    for kind, (fam, d) in CONN_TABLES.items():
        for obf in (False, True):
            if kind == 'server':
                conn = ServerConnection('server.test', 2416, None, obfuscated=obf)
            else:
                conn = PeerConnection('10.0.0.9', 40000, None, obfuscated=obf,
                                      connection_type=PeerConnectionType.DISTRIBUTED if kind == 'distributed' else PeerConnectionType.PEER)
                if kind != 'init':
                    conn.connection_state = PeerConnectionState.ESTABLISHED
            for m in [x for x in play['messages'] if x['family'] == fam and x['dir'] == d]:
                for mode in ('none', 'full'):
                    vals = L.gen_message(run.rng, play, m, mode)
                    try:
                        obj = L.make_obj(play, m, vals)
                        frame = obj.serialize()
                    except Exception:
                        continue      # reported by the per-class cases
                    wire = ref_obf_encode(bytes(run.rng.randrange(256) for _ in range(4)), frame) if obf else frame
                    try:
                        back = conn.decode_message_data(wire)
                        prob = None if back == obj else f'decoded as {back!r}'[:200]
                    except Exception as e:
                        prob = f'rejected: {type(e).__name__}: {e.__cause__!r}'[:200]
                    run.case({'conn-decode': [kind, obf, m['name'], vals]}, nontrivial=len(frame) > 4 + m['id_width'], kind=f'conn-decode/{kind}')
                    if prob:
                        run.add_finding(Finding(f'connection-decode:{kind}:{m["name"]}',
                                                f'a valid {len(frame)}-byte {m["name"]} frame is not decoded by a{"n obfuscated" if obf else " plain"} {kind} connection: {prob}',
                                                {'kind': 'conn-decode', 'conn': kind, 'obf': obf, 'class': m['name'], 'vals': vals},
                                                observed=prob, expected='the message that was serialised'))
                    out.append((kind, obf, m['name']))
    return out


def conn_decode_one(play: dict, kind: str, obf: bool, m: dict, vals: list):
    from aioslsk.network.connection import ServerConnection, PeerConnection, PeerConnectionState, PeerConnectionType
    if kind == 'server':
        conn = ServerConnection('server.test', 2416, None, obfuscated=obf)
    else:
        conn = PeerConnection('10.0.0.9', 40000, None, obfuscated=obf,
                              connection_type=PeerConnectionType.DISTRIBUTED if kind == 'distributed' else PeerConnectionType.PEER)
        if kind != 'init':
            conn.connection_state = PeerConnectionState.ESTABLISHED
    obj = L.make_obj(play, m, vals)
    frame = obj.serialize()
    wire = ref_obf_encode(b'\x0a\x0b\x0c\x0d', frame) if obf else frame
    return obj, frame, conn.decode_message_data(wire)


# ----------------------------------------------------------------------------------------
# order independence: the codec of a class must not depend on which classes were used before it in the process

def order_child_main():
    """Child process: reads {"items": [[class, vals], ...]} from stdin, runs every item through impl_case IN THAT ORDER in
    a fresh interpreter (no class has been touched before), prints [[index, [problem kinds]], ...]."""
    import sys
    common.use_impl()
    play = L.load_pinned()['layout']
    pm = L.msg_by_name(play)
    items = json.load(sys.stdin)['items']
    out = []
    for i, (name, vals) in enumerate(items):
        r = impl_case(play, pm[name], vals)
        if r['problems']:
            out.append([i, [[k, d if isinstance(d, (str, dict)) else str(d)] for k, d in r['problems']]])
    print('ORDER-RESULT ' + json.dumps(out))


def run_order_child(items: list):
    import os
    import subprocess
    import sys
    p = subprocess.run([sys.executable, '-c', 'import sys; sys.path.insert(0, %r); from checks import c01; c01.order_child_main()' % str(common.VERIF)],
                       input=json.dumps({'items': items}), capture_output=True, text=True, timeout=900, cwd=str(common.VERIF),
                       env=dict(os.environ, PYTHONHASHSEED='0'))
    for ln in p.stdout.splitlines():
        if ln.startswith('ORDER-RESULT '):
            return json.loads(ln[len('ORDER-RESULT '):])
    raise RuntimeError(f'order child failed: {p.stderr[-600:]}')


def order_independence(run: Run, play: dict, orders: int):
    """Every class once (full value, non-ASCII where possible) in a FRESH interpreter, in definition order, in reversed
    order and in shuffled orders: process-wide state of the codec (caches keyed by class, looked up through the MRO,
    memoised dispatch tables ...) must not make a class's bytes depend on the history."""
    base = [[m['name'], L.gen_message(run.rng, play, m, 'nonascii' if any(has_string(play, f['type']) for f in m['fields']) else 'full')]
            for m in play['messages']]
    seqs = [('definition order', list(base)), ('reversed definition order', list(reversed(base)))]
    for k in range(max(0, orders - 2)):
        sh = list(base)
        run.rng.shuffle(sh)
        seqs.append((f'shuffled order {k + 1}', sh))
    for label, seq in seqs:
        try:
            res = run_order_child(seq)
        except Exception as e:
            run.add_broken('order-independence child process', f'{type(e).__name__}: {e}')
            return
        run.case({'order': label, 'n': len(seq)}, kind='order-independence')
        for idx, probs in res[:1]:
            name, vals = seq[idx]

            def fails(prefix):
                try:
                    r = run_order_child(prefix + [[name, vals]])
                except Exception:
                    return False
                return any(i == len(prefix) for i, _ in r)
            prefix = seq[:idx]
            alone = fails([])
            if not alone:
                from vlib.common import shrink_list
                prefix = shrink_list(prefix, fails, max_steps=24) if fails(prefix) else prefix
            else:
                prefix = []
            what = probs[0][0]
            run.add_finding(Finding(f'order-dependence:{name}' if not alone else f'{what}:{name}',
                                    f'{name}: {what} in a fresh process after ' +
                                    (f'{[p[0] for p in prefix]} were (de)serialised first ({label}); alone it is correct' if not alone else 'nothing else'),
                                    {'kind': 'order', 'class': name, 'vals': vals, 'before': prefix},
                                    observed=probs[0][1] if len(json.dumps(probs[0][1])) < 1500 else str(probs[0][1])[:1500]))


def big_message(rng, play: dict, tbl: list, size: int):
    """An in-domain message of the table whose first mandatory string / blob field is inflated so that the
    serialised frame exceeds `size` bytes (-> (message, vals)); None when the table has no such class."""
    cands = [m for m in tbl if any(f['type'] in ('string', 'bytearr') and f['cond'] is None and not f['optional'] for f in m['fields'])]
    if not cands:
        return None
    m = rng.choice(cands)
    vals = L.gen_message(rng, play, m, 'full')
    for i, f in enumerate(m['fields']):
        if f['cond'] is None and not f['optional'] and f['type'] == 'string':
            vals[i] = ''.join(rng.choice('abcdefgh \u00e9') for _ in range(50)) * (size // 50 + 1)
            break
        if f['cond'] is None and not f['optional'] and f['type'] == 'bytearr':
            vals[i] = {'hex': bytes(rng.randrange(256) for _ in range(250)).hex() * (size // 250 + 1)}
            break
    return m, vals


def send_path_cases(run: Run, play: dict, n_random: int) -> list:
    out = []
    combos = [('peer', False), ('peer', True), ('init', True), ('init', False), ('server', False), ('server', True), ('distributed', False)]
    for conn_kind, obf in combos:
        fam, d = SEND_TABLES[conn_kind]
        tbl = [m for m in play['messages'] if m['family'] == fam and m['dir'] == d and not m['compressed']]
        plan = [(path, k, None) for path in ('send_message', 'queue_message', 'queue_messages', 'gather_send_message')
                for k in ([1, 3] + [run.rng.choice([2, 4, 5]) for _ in range(n_random)])]
        # frames larger than 64 KiB next to small ones, sent concurrently (one task / coroutine per message) while
        # drain() yields to the loop: a frame must reach the transport in one piece
        plan += [(path, 3, pos) for path, pos in (('gather_send_message', 0), ('queue_messages', 0), ('queue_message', 1), ('send_message', 1))]
        for path, k, bigpos in plan:
            if True:
                items = []
                for i in range(k):
                    m = run.rng.choice(tbl)
                    items.append((m, L.gen_message(run.rng, play, m, run.rng.choice(['full', 'mixed', 'nonascii']))))
                if bigpos is not None:
                    bm = big_message(run.rng, play, tbl, run.rng.choice([65537, 70000, 140000, 200000]))
                    if bm is None:
                        continue
                    items[bigpos] = bm
                r = send_case(play, 'peer' if conn_kind == 'init' else conn_kind, obf, path, items)
                r['table'] = (fam, d)
                run.case({'send': [conn_kind, obf, path, r['items'] if bigpos is None else [n for n, _ in r['items']], len(r['wire'] or b'')]}, nontrivial=k > 1, kind=f'send-path/{path}/{"obf" if obf else "plain"}')
                if r['problems']:
                    run.add_finding(Finding(f'send-path:{path}:{"obfuscated" if obf else "plain"}',
                                            f'{path} of {k} message(s) on a{"n obfuscated" if obf else " plain"} {conn_kind} connection: {r["problems"][0]}',
                                            {'kind': 'send-path', 'conn': r['conn'], 'obf': obf, 'path': path, 'table': [fam, d],
                                             'messages': [[n, v] for n, v in r['items']]},
                                            expected='every message in one contiguous frame, in order',
                                            observed=r['wire'].hex()[:600] if r['wire'] else None))
                out.append(r)
    return out


def coq_send_cases(cases: list, cur: dict) -> list:
    """Model receiver: C02's run_stream + C01's dispatch on the bytes the real connection wrote."""
    cm = L.msg_by_name(cur)
    rows = []
    for i, r in enumerate(cases):
        if r['wire'] is None or len(r['wire']) > 20000 or any(n not in cm for n, _ in r['items']):
            continue     # (frames > 64 KiB: judged by the independent receiver only)
        fam, d = r['table']
        exp = '; '.join(f'("{n}"%string, {L.coq_msg(cur, cm[n], v)})' for n, v in r['items'])
        rows.append(f' ({i}%nat, ({"true" if r["eff_obf"] else "false"}, ({L.FAMILY_COQ[fam]}, {"DRequest" if d == "request" else "DResponse"}), '
                    f'{L.coq_bytes(r["wire"])}, [{exp}]))')
    shards = []
    for k in range(0, len(rows), 60):
        shards.append(L.CASES_PRELUDE + 'From Slsk Require Import C02.Model.\n'
                      'Definition nod (x : bytes) : option bytes := Some x.\n'
                      'Definition D (fd : family * direction) (bs : bytes) : option (string * list value) :=\n'
                      ' match dispatch nod (table all_schemas (fst fd) (snd fd)) (gen_fam_width (fst fd)) bs with\n'
                      ' | Some (s, m) => Some (sname s, m) | None => None end.\n'
                      'Fixpoint dl_eqb (a b : list (string * list value)) : bool := match a, b with\n'
                      ' | [], [] => true | (n, m) :: a\', (n\', m\') :: b\' => andb (andb (String.eqb n n\') (values_eqb m m\')) (dl_eqb a\' b\') | _, _ => false end.\n'
                      'Definition cases : list (nat * (bool * (family * direction) * bytes * list (string * list value))) := [\n' + ';\n'.join(rows[k:k + 60]) + '].\n'
                      'Definition bad (c : bool * (family * direction) * bytes * list (string * list value)) : bool := let \'(obf, fd, w, e) := c in\n'
                      ' let \'(frames, rest) := run_stream obf [] [w] in\n'
                      ' negb (andb (dl_eqb (deliveries obf (D fd) frames) e) (Nat.eqb (List.length rest) 0)).\n'
                      'Eval vm_compute in (indices_where bad cases).\n')
    return shards


# ----------------------------------------------------------------------------------------
def vectors_check(run: Run, play: dict, cur, pin: dict):
    """The maintainers' byte vectors: (a) the pinned layout reproduces them (anchor of the pin),
    (b) the implementation still does (monitor), (c) returned as cases for the model."""
    vec = json.loads((common.VERIF / 'pinned' / 'vectors.json').read_text())['vectors']
    pm = L.msg_by_name(play)
    cases = []
    bad_anchor = 0
    for v in vec:
        m = pm[v['class']]
        data = bytes.fromhex(v['hex'])
        norm = (lambda b: decompressed_frame(m, b)) if m['compressed'] else (lambda b: b)
        if v['dir'] == 'serialize':
            try:
                ref = L.ref_enc_msg(play, m, v['vals'], compress=lambda x: x)
            except Exception as e:
                ref = None
            if ref != norm(data):
                bad_anchor += 1
                if bad_anchor <= 2:
                    run.add_broken('anchor:pinned-layout-vs-maintainer-vectors',
                                   f'{v["test"]}: pinned layout encodes {ref.hex() if ref else None}, the test asserts {v["hex"]}')
        # implementation
        try:
            obj = L.make_obj(play, m, v['vals'])
            if v['dir'] == 'serialize':
                got = obj.serialize()
                if norm(got) != norm(data):
                    run.add_finding(Finding(f'maintainer-vector:{v["class"]}', f'{v["test"]}: serialize() no longer produces the asserted bytes',
                                            {'kind': 'vector', 'test': v['test'], 'class': v['class'], 'vals': v['vals'], 'hex': v['hex']},
                                            observed=got.hex(), expected=v['hex']))
            else:
                got = L.impl_class(v['class']).deserialize(0, data)
                if got != obj:
                    run.add_finding(Finding(f'maintainer-vector:{v["class"]}', f'{v["test"]}: deserialize() no longer yields the asserted message',
                                            {'kind': 'vector', 'test': v['test'], 'class': v['class'], 'vals': v['vals'], 'hex': v['hex']},
                                            observed=L.obj_vals(play, m, got), expected=v['vals']))
        except Exception as e:
            run.add_finding(Finding(f'maintainer-vector:{v["class"]}', f'{v["test"]}: raises {type(e).__name__}: {e}',
                                    {'kind': 'vector', 'test': v['test'], 'class': v['class'], 'vals': v['vals'], 'hex': v['hex']}))
        run.case({'vector': v['test']}, kind='maintainer-vector')
        cases.append(v)
    return cases


def coq_vectors(vec: list, cur: dict, play: dict) -> list:
    cm, pm = L.msg_by_name(cur), L.msg_by_name(play)
    rows, zc, zd = [], [], []
    for i, v in enumerate(vec):
        name = v['class']
        if name not in cm or [f['name'] for f in cm[name]['fields']] != [f['name'] for f in pm[name]['fields']]:
            continue
        m = cm[name]
        data = bytes.fromhex(v['hex'])
        if m['compressed']:
            payload = data[4 + m['id_width']:]
            try:
                body = zlib.decompress(payload)
            except Exception:
                continue
            zc.append((body, payload))
            zd.append((payload, body))
        rows.append(f' ({i}%nat, ({L.ident(name)}, {L.coq_msg(cur, m, v["vals"])}, {L.coq_bytes(data)}, '
                    f'{"true" if v["dir"] == "serialize" else "false"}))')
    shards = []
    for k in range(0, len(rows), 110):
        shards.append(L.CASES_PRELUDE +
                      f'Definition zc (x : bytes) : bytes := match lookup {L.coq_table(zc)} x with Some y => y | None => x end.\n'
                      f'Definition zd (x : bytes) : option bytes := match lookup {L.coq_table(zd)} x with Some y => Some y | None => Some x end.\n'
                      'Definition cases : list (nat * (schema * list value * bytes * bool)) := [\n' + ';\n'.join(rows[k:k + 110]) + '].\n'
                      'Definition bad (c : schema * list value * bytes * bool) : bool := let \'(s, m, b, ser) := c in\n'
                      ' negb (if ser then opt_eqb bytes_eqb (enc_msg zc s m) (Some b) else opt_eqb values_eqb (dec_msg zd s b) (Some m)).\n'
                      'Eval vm_compute in (indices_where bad cases).\n')
    return shards


# ----------------------------------------------------------------------------------------
def run(run: Run):
    run.rule = ('per message class (all classes of the pinned layout): in-domain field values from boundary pools (0, 1, 2^k, 2^k-1, max, '
                'signed min/-1, empty / non-ASCII / 4-byte UTF-8 / 127-128-300 byte strings, arrays of length 0/1/many incl. nested '
                'records, conditions both ways, optional suffix present / absent / partial); distinct = distinct (class, values); '
                'non-trivial = at least one field on the wire.  Obfuscation: every payload length 0..600 with structured (0, ~0, single '
                'bit) and random keys.  Strings: all 256 single bytes, boundary pairs, overlong / surrogate / truncated sequences, '
                'lying length prefixes.')
    run.trusted += ['zlib (oracle: the actual compress/decompress results are passed to the model)',
                    'CPython struct / UTF-8 / cp1252 codecs, socket.inet_aton/ntoa (validated by correspondence only)',
                    'translate/tr_messages.py, translate/tr_obf.py; source fingerprints of the procedural codec functions']
    run.assumptions += ['field values within the wire domain (predicate `canonical` of C01/Model.v; generated values are checked '
                        'against it by canonicalb)', 'message body shorter than 2^32 bytes']
    proved = run.prove(['tr_obf', 'tr_messages', 'tr_c02conn'], extra_targets=['theories/C01/Eval.vo', 'theories/C02/Model.vo'])
    model_ok = (common.COQ / 'theories' / 'C01' / 'Eval.vo').exists() and (common.COQ / 'gen' / 'SchemaGen.vo').exists() and \
        not any(b[0].startswith('translator:') for b in run.broken)

    try:
        from translate import tr_c02conn
        tr_c02conn.check_helper_pins(common.SRC)
    except Exception as e:
        run.add_broken('helper-pins (exceptions / connection state / send-receive glue)', f'{type(e).__name__}: {e}')
    pin = L.load_pinned()
    play = pin['layout']
    cur = None
    try:
        from translate import tr_messages
        cur = tr_messages.layout(common.SRC)
    except Exception as e:
        if not any(b[0].startswith('translator:tr_messages') for b in run.broken):
            run.add_broken('translator:tr_messages', f'{type(e).__name__}: {e}')
    diffs = layout_diff(play, cur) if cur else []
    if diffs:
        run.add_broken('layout:current source vs pinned/layout.json (C01_layout_pinned)', json.dumps(diffs[:6])[:1500])
    run.cov['layout_differences'] = len(diffs)

    # --- listed findings are replayed first
    for key, wit, _fixed in run.known_witnesses():
        if wit and wit.get('kind') in ('bytes-differ-from-pinned', 'roundtrip', 'length-prefix', 'serialize-raises'):
            pm = L.msg_by_name(play)
            report_problems(run, impl_case(play, pm[wit['class']], wit['vals']))

    # --- maintainers' vectors
    vec = vectors_check(run, play, cur, pin)

    # --- generated messages
    # a broken tie (translator, fingerprint, proof, layout, helper pin) triggers the longer directed search
    eff_tier = 'thorough' if run.broken else run.tier
    per_class = 4 if eff_tier == 'quick' else 20
    focus = {d['where'].split('.')[0] + '.' + d['where'].split('.')[1] for d in diffs if d['where'].count('.') >= 1 and d['where'].split('.')[0] not in ('primitives', 'records', 'family_id_width')}
    cases = []
    for m in play['messages']:
        n = per_class * (6 if (m['name'] in focus or (diffs and not focus)) else 1)
        # classes with strings get an all-non-ASCII case; classes whose strings sit inside arrays of records
        # (FileData / DirectoryData / ... : hand-optimised serialize_into paths) get three of them
        nested = any(isinstance(f['type'], dict) and has_string(play, f['type']) for f in m['fields'])
        anystr = any(has_string(play, f['type']) for f in m['fields'])
        modes = ['full', 'none', 'edge'] + (['nonascii'] if anystr else ['mixed']) + (['nonascii', 'nonascii'] if nested else [])
        n = max(n, len(modes))
        for i in range(n):
            mode = modes[i] if i < len(modes) else 'mixed'
            vals = L.gen_message(run.rng, play, m, mode)
            r = impl_case(play, m, vals)
            run.case({'class': m['name'], 'vals': vals}, nontrivial=bool(r['bytes']) and len(r['bytes']) > 4 + m['id_width'],
                     kind=f'{m["family"]}/{m["dir"]}')
            report_problems(run, r)
            cases.append(r)
    run.count('message_classes', len(play['messages']))

    # --- obfuscation
    okeys, oexplicit, garb = obf_cases(run, 4 if eff_tier == 'quick' else 16)
    for key, plain, obf in [(bytes.fromhex(a), b.encode(), bytes.fromhex(c)) for a, b, c in pin.get('obfuscation_vectors', [])]:
        from aioslsk.protocol import obfuscation
        if obfuscation.encode(plain, key=key) != obf or obfuscation.decode(obf) != plain:
            run.add_finding(Finding('obf-maintainer-vector', 'obfuscation no longer reproduces the maintainers\' vector',
                                    {'kind': 'obf', 'key': key.hex(), 'data': plain.hex()}, observed=obfuscation.encode(plain, key=key).hex(), expected=obf.hex()))
        if ref_obf_encode(key, plain) != obf:
            run.add_broken('anchor:pinned-obfuscation-vs-maintainer-vectors', f'reference encoder disagrees with test vector {obf.hex()}')

    for keyh, datah, wireh in pin.get('obfuscation_vectors_hex', []):
        from aioslsk.protocol import obfuscation
        key, data, wire = bytes.fromhex(keyh), bytes.fromhex(datah), bytes.fromhex(wireh)
        run.case({'obf-vector': [keyh, len(data)]}, kind='obf-pinned-vector')
        if ref_obf_encode(key, data) != wire:
            run.add_broken('anchor:pinned-obfuscation-vectors', f'reference encoder disagrees with pinned wire vector (key {keyh}, {len(data)} bytes)')
        try:
            got, back = obfuscation.encode(data, key=key), obfuscation.decode(wire)
        except Exception as ex:
            got, back = None, None
        if got != wire or back != data:
            run.add_finding(Finding('obf-pinned-wire-vector', f'obfuscation of a {len(data)}-byte payload no longer produces / accepts the pinned wire bytes '
                                    '(other clients would read garbage beyond the first differing block)',
                                    {'kind': 'obf', 'key': keyh, 'data': datah}, observed=got.hex()[:300] if got else None, expected=wireh[:300]))

    # --- order independence in fresh interpreters
    order_independence(run, play, 2 if eff_tier == 'quick' else 5)

    # --- every receivable class through the real connection-level decoder
    connection_decode_sweep(run, play)

    # --- the real send paths
    sends = send_path_cases(run, play, 1 if eff_tier == 'quick' else 8)

    # --- strings
    scases = string_cases(run, 80 if eff_tier == 'quick' else 1500)

    # --- L2: model vs implementation
    if model_ok and cur:
        groups = [
            ('messages', coq_msg_cases(cases, cur, play), 3,
             lambda w, i: MSG_WHICH[w] + ': ' + json.dumps({'class': cases[i]['class'], 'vals': cases[i]['vals'],
                                                             'impl_bytes': cases[i]['bytes'].hex() if cases[i]['bytes'] else None,
                                                             'impl_decoded': cases[i].get('dec')}, default=str)),
            ('maintainer vectors vs model', coq_vectors(vec, cur, play), 1, lambda w, i: json.dumps(vec[i])),
            ('obfuscation.encode/decode vs obf_encode/obf_decode', coq_obf(okeys, oexplicit, garb), 1,
             lambda w, i: (f'key={okeys[i // 1000][0].hex()} payload length {i % 1000} (payload = first bytes of {okeys[i // 1000][1][:16].hex()}...)'
                           if i < 900000 else f'explicit/garbage case {i - 900000}')),
            ('string/bytearr.deserialize vs dec TStr/TBytes', coq_strings(scases), 1,
             lambda w, i: f'frame={scases[i][0].hex()} impl={scases[i][1]} / {scases[i][2]}'),
            ('bytes written by send_message/queue_message/queue_messages vs model receiver (run_stream + dispatch)', coq_send_cases(sends, cur), 1,
             lambda w, i: json.dumps({k: sends[i][k] for k in ('conn', 'obf', 'path', 'items')}) + ' wire=' + (sends[i]['wire'] or b'').hex()[:400]),
        ]
        nb = eval_groups(run, 'c01', groups)
        run.cov['traces_validated_against_impl'] = len(cases) + len(vec) + 601 * len(okeys) + len(garb) + len(scases) + len(sends) - nb
    else:
        if not run.broken:
            run.add_broken('correspondence:C01', 'model not built')
        if (common.COQ / 'theories' / 'C01' / 'Eval.vo').exists() and (common.COQ / 'gen' / 'ObfGen.vo').exists():
            # the translator refused the current source: the last model that did build (= the pinned algorithm)
            # is still compared with the real encoder / decoder, so that a changed wire format shows as a
            # concrete disagreement and not only as a refused translation
            eval_groups(run, 'c01', [('obfuscation.encode/decode vs obf_encode/obf_decode of the last translatable source',
                                     coq_obf(okeys, oexplicit, garb), 1,
                                     lambda w, i: (f'key={okeys[i // 1000][0].hex()} payload length {i % 1000}' if i < 900000 else f'explicit/garbage case {i - 900000}'))])
    run.notes.append('exhaustive sub-domains: obfuscation payload lengths 0..600 per key; all 256 single-byte strings')


# ----------------------------------------------------------------------------------------
def replay(rep: dict) -> int:
    wit = rep['witness']
    pin = L.load_pinned()
    play = pin['layout']
    kind = wit.get('kind')
    if kind in ('obf', 'obf-decode'):
        from aioslsk.protocol import obfuscation
        if kind == 'obf-decode':
            try:
                print('decode ->', obfuscation.decode(bytes.fromhex(wit['data'])).hex())
                return 0
            except Exception as e:
                print('decode raises', repr(e))
                return 1
        key, data = bytes.fromhex(wit['key']), bytes.fromhex(wit['data'])
        e = obfuscation.encode(data, key=key)
        d = obfuscation.decode(e)
        print('encode ->', e.hex())
        print('pinned ->', ref_obf_encode(key, data).hex())
        print('decode(encode) == data:', d == data)
        return 0 if (d == data and e == ref_obf_encode(key, data)) else 1
    pm = L.msg_by_name(play)
    if kind == 'order':
        seq = wit['before'] + [[wit['class'], wit['vals']]]
        res = run_order_child(seq)
        alone = run_order_child([[wit['class'], wit['vals']]])
        print('in a fresh process, after', [p[0] for p in wit['before']], ':', wit['class'], '->', [p for i, p in res if i == len(seq) - 1] or 'correct')
        print('in a fresh process, alone:', [p for i, p in alone] or 'correct')
        return 1 if any(i == len(seq) - 1 for i, _ in res) else 0
    if kind == 'conn-decode':
        m = pm[wit['class']]
        try:
            obj, frame, back = conn_decode_one(play, wit['conn'], wit['obf'], m, wit['vals'])
        except Exception as e:
            print(f"{wit['class']} frame on a {wit['conn']} connection (obfuscated={wit['obf']}): decode_message_data raises {type(e).__name__}: {e.__cause__!r}")
            return 1
        print('frame:', frame.hex()[:200], '| decoded equal to the message:', back == obj)
        return 0 if back == obj else 1
    if kind == 'send-path':
        items = [(pm[n], v) for n, v in wit['messages']]
        r = send_case(play, wit['conn'], wit['obf'], wit['path'], items)
        print(f"{wit['path']} of {len(items)} message(s), obfuscated={wit['obf']}, connection={wit['conn']}")
        print('wire:', r['wire'].hex()[:800] if r['wire'] else None)
        for p in r['problems']:
            print('FAILS:', p)
        return 1 if r['problems'] else 0
    m = pm[wit['class']]
    if kind == 'vector':
        obj = L.make_obj(play, m, wit['vals'])
        data = bytes.fromhex(wit['hex'])
        try:
            s = obj.serialize()
            d = L.impl_class(wit['class']).deserialize(0, data)
        except Exception as e:
            print('raises', repr(e))
            return 1
        print('serialize ->', s.hex())
        print('asserted  ->', wit['hex'])
        print('deserialize(asserted) == message:', d == obj)
        return 0 if (s == data or d == obj) and not (s != data and d != obj) else 1
    r = impl_case(play, m, wit['vals'])
    print('class:', wit['class'])
    print('values:', json.dumps(wit['vals']))
    print('bytes:', r['bytes'].hex() if r['bytes'] else None)
    for p in r['problems']:
        print('FAILS:', p)
    return 1 if r['problems'] else 0
