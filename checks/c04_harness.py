"""C04 harness: the real transfer coroutines of aioslsk over fake transports under virtual time.

Single side (class ``Side``): one real, not started ``SoulSeekClient``; a download attempt is driven
through the real ``TransferManager._on_peer_transfer_request`` -> ``_initialize_download`` ->
``_on_peer_initialized`` (ticket) -> ``_download_file`` -> ``PeerConnection.receive_file`` with a
scripted sender on the other end of a fake file connection; an upload attempt through the real
``_initialize_upload`` -> ``_upload_file`` -> ``send_file`` / ``receive_until_eof`` (the three
Network calls that would need a server are replaced on the instance).

Pair (class ``Pair``): two real, started and logged-in ``SoulSeekClient`` objects on one fake
network with a scripted server that answers GetPeerAddress; peer connections are joined
end-to-end; file connections can be cut after k delivered bytes.
"""
from __future__ import annotations

import asyncio
import shutil
import struct
import tempfile
from pathlib import Path

from vlib import vloop, fakes, world

# vlib.fakes.FakeWriter lacks part of the transport API real code may query (local work-around, vlib is not mine):
# this fake never holds data back, so its write buffer is always empty
if not hasattr(fakes.FakeWriter, 'get_write_buffer_size'):
    fakes.FakeWriter.get_write_buffer_size = lambda self: 0

GRANT_UNLIMITED = 8192
GRANT_LIMITED = 128


def pat(seed: int, n: int) -> bytes:
    """Deterministic test bytes, mirrored by `pat` in the generated Coq cases."""
    return bytes(((seed + 7 * i) % 251) for i in range(n))


def read_sizes(grant: int, segs) -> list[int]:
    """Sizes returned by successive reads of a receiver that drains each delivered segment
    completely (mirrors Model.read_sizes)."""
    out = []
    for n in segs:
        while n > 0:
            k = min(grant, n)
            out.append(k)
            n -= k
    return out


class BackpressureWriter(fakes.FakeWriter):
    """A transport under backpressure, as asyncio's selector transport behaves (Python 3.12): what the
    kernel does not take at once is kept BY REFERENCE (a memoryview of the caller's object, no copy)
    and handed over later; drain() returns at once while less than the high-water mark (64 KiB) is
    queued.  ``delay`` = how long the receiver lets the data wait."""

    HIGH_WATER = 64 * 1024

    def __init__(self, endpoint, peername, sockname, delay: float):
        super().__init__(endpoint, peername, sockname)
        self.delay = delay
        self.queue = []
        self.queued = 0
        self._waiters = []

    def write(self, data):
        if self._closing:
            if self.ep.write_after_close_raises:
                raise ConnectionResetError('write on closed transport')
            return
        if self.ep.write_error is not None:
            raise self.ep.write_error
        view = memoryview(data)          # keeps the object, copies nothing
        self.queue.append(view)
        self.queued += len(view)
        asyncio.get_event_loop().call_later(self.delay, self._flush_one)

    def _flush_one(self):
        if not self.queue:
            return
        view = self.queue.pop(0)
        self.queued -= len(view)
        if not self._closing:
            self.ep._client_wrote(bytes(view))    # only now the bytes leave the process
        if self.queued < self.HIGH_WATER:
            for w in self._waiters:
                if not w.done():
                    w.set_result(None)
            self._waiters.clear()

    def get_write_buffer_size(self):
        return self.queued

    async def drain(self):
        if self.ep.drain_error is not None:
            raise self.ep.drain_error
        if self._closing:
            raise ConnectionResetError('Connection lost')
        if self.queued >= self.HIGH_WATER:
            w = asyncio.get_event_loop().create_future()
            self._waiters.append(w)
            await w
        else:
            await asyncio.sleep(0)

    def close(self):
        # a graceful close sends what is still queued first
        while self.queue:
            self._flush_one()
        super().close()


class Side:
    def __init__(self):
        self.W = world.World()
        self.loop = self.W.loop
        self.client = self.W.client
        self.mgr = self.client.transfers
        self.n = 0
        self.sent_peer = []       # (username, message) passed to the replaced send_peer_messages
        self.file_eps = []        # endpoints handed out by the replaced create_peer_connection
        self.next_file_conn = None
        net = self.client.network

        async def send_peer_messages(username, *messages, raise_on_error=True):
            for m in messages:
                self.sent_peer.append((username, m))
            # the message (P) connection to the peer may be broken or slow as well
            if self.msg_mode == 'raise':
                from aioslsk.exceptions import ConnectionWriteError
                raise ConnectionWriteError('message connection is stale')
            if self.msg_mode == 'peer-gone':
                from aioslsk.exceptions import PeerConnectionError
                raise PeerConnectionError('peer went offline')
            if self.msg_mode == 'hang':
                await self.loop.create_future()

        def create_peer_response_future(peer, message_class, fields=None):
            from aioslsk.protocol.messages import PeerTransferReply
            fut = self.loop.create_future()
            assert message_class is PeerTransferReply.Request, message_class
            fut.set_result((None, PeerTransferReply.Request(ticket=(fields or {})['ticket'], allowed=True)))
            return fut

        async def create_peer_connection(username, typ, **kw):
            conn, ep = self.next_file_conn
            net._finalize_peer_connection(conn)      # real: NEGOTIATING_TRANSFER + limiters of the network
            conn.upload_rate_limiter = self.up_limiter
            return conn

        def queue_server_messages(*messages):
            return []

        net.send_peer_messages = send_peer_messages
        net.create_peer_response_future = create_peer_response_future
        net.create_peer_connection = create_peer_connection
        net.queue_server_messages = queue_server_messages
        self.up_limiter = None
        self.msg_mode = None

    def close(self):
        self.W.close()

    # -- connections --------------------------------------------------------------------------
    def conn(self, typ, username='bob', backpressure=None):
        from aioslsk.network.connection import PeerConnection, ConnectionState
        ep = fakes.Endpoint(self.W.net, label=typ)
        if backpressure is not None:
            ep.writer = BackpressureWriter(ep, ep.writer._peername, ep.writer._sockname, backpressure)
        else:
            ep.writer.get_write_buffer_size = lambda: 0     # transport API: nothing is ever held back by this fake
        c = PeerConnection('10.0.0.9', 40000, self.client.network, connection_type=typ, incoming=True,
                           username=username)
        c._reader, c._writer = ep.reader, ep.writer
        c.state = ConnectionState.CONNECTED
        return c, ep

    def limiter(self, kbps):
        from aioslsk.network.rate_limiter import RateLimiter
        return RateLimiter.create_limiter(kbps)

    # -- downloads ----------------------------------------------------------------------------
    def new_download(self, local0: bytes | None, bt0: int | None = None, listener: str | None = None,
                     name: str | None = None, existing=None):
        """A download as the API creates it (QUEUED); local0 != None: an existing local file (as a
        transfer restored from the cache would have)."""
        from aioslsk.transfer.model import TransferDirection
        self.n += 1
        self.precreated = []
        if name is not None:
            # the remote file name as the peer shares it, and files that already are in the download directory
            # (earlier downloads of equally named files): the new download must get a file of its own
            ddir = Path(self.client.settings.shares.download)
            for fname, content in (existing or []):
                q = ddir / fname
                q.write_bytes(content)
                self.precreated.append((q, content))
            name = f'd{self.n}\\{name}'
        else:
            name = f'd{self.n}\\f{self.n}.bin'
        tr = self.W.run(self.mgr.download('bob', name))
        if local0 is not None:
            p = self.W.tmp / f'pre{self.n}.bin'
            p.write_bytes(local0)
            tr.local_path = str(p)
        if listener:
            # a user's state listener, registered late (after the transfer was queued), that suspends inside
            # every transition (listeners are coroutines; Transfer.transition awaits them one by one)
            loop = self.loop

            class Slow:
                async def on_transfer_state_changed(self, transfer, old, new):
                    await asyncio.sleep(0.01 if listener == 'suspend' else 0)
            tr.state_listeners.append(Slow())
        if bt0 is not None:
            # a progress counter that does not agree with the file (restored from a cache written
            # mid-transfer, or a chunk written while the task was cancelled)
            tr.bytes_transfered = bt0
        return tr

    def forget(self, tr):
        try:
            self.mgr._transfers.remove(tr)
        except ValueError:
            pass
        if tr.local_path:
            try:
                Path(tr.local_path).unlink()
            except OSError:
                pass
        for q, _ in getattr(self, 'precreated', []):
            try:
                q.unlink()
            except OSError:
                pass
        self.precreated = []

    def download_attempt(self, tr, announced, sender, kbps=0, send_ok=True, ticket=None):
        """One attempt on transfer ``tr``.  ``sender(offset) -> (segments, term)`` scripts the other
        side once the offset is known (term: 'eof' | 'reset' | 'timeout').
        Returns the observation dict."""
        from aioslsk.protocol.messages import PeerTransferRequest
        from aioslsk.network.connection import PeerConnectionType
        from aioslsk.events import PeerInitializedEvent
        loop = self.loop
        self.n += 1
        ticket = ticket or (1000 + self.n)
        before = Path(tr.local_path).read_bytes() if tr.local_path and Path(tr.local_path).exists() else b''
        pc, pep = self.conn(PeerConnectionType.PEER)
        msg = PeerTransferRequest.Request(1, ticket, tr.remote_path, filesize=announced)
        reads = []
        orig = type(tr)._transfer_progress_callback

        def cb(data, tr=tr):
            reads.append(len(data))
            orig(tr, data)
        tr._transfer_progress_callback = cb
        self.W.run(self.mgr._on_peer_transfer_request(msg, pc))
        task = tr._transfer_task
        obs = {'started': task is not None, 'before': before}
        if task is None:
            obs.update(state=tr.state.VALUE.name, reply=bytes(pep.written))
            return obs
        loop.run_ready(30)
        if ticket not in self.mgr._file_connection_futures and not task.done():
            loop.run_ready(100)
        if ticket not in self.mgr._file_connection_futures and not task.done():
            # the uploader opens the file connection only after it received the reply: let (virtual) time pass
            # (a listener of the transfer may suspend inside the transition)
            loop.run_for(2)
        fc, fep = self.conn(PeerConnectionType.FILE)
        self.client.network._finalize_peer_connection(fc)
        fc.download_rate_limiter = self.limiter(kbps)
        if not send_ok:
            fep.write_error = ConnectionResetError('gone')
        if task.done():
            # refused before anything started: the uploader would not open a file connection
            init = loop.create_task(asyncio.sleep(0))
        else:
            fep.feed(struct.pack('<I', ticket))
            init = loop.create_task(self.mgr._on_peer_initialized(PeerInitializedEvent(fc, requested=False)))
        loop.run_ready(60)
        if len(fep.written) < 8 and not task.done():
            loop.run_for(2)
        wire = bytes(fep.written)
        segs, term = ([], 'timeout')
        if len(wire) == 8 and not task.done():
            (off,) = struct.unpack('<Q', wire)
            segs, term = sender(off)
            for s in segs:
                fep.feed(s)
                loop.run_for(60)
        if not task.done():
            if term == 'eof':
                fep.feed_eof()
            elif term == 'reset':
                fep.set_exception(ConnectionResetError('reset by peer'))
            loop.run_for(400)
        exc = None
        if task.done() and not task.cancelled():
            e = task.exception()
            exc = type(e).__name__ if e else None
        if not task.done():
            task.cancel()
            loop.run_ready(20)
            exc = 'NOT-DONE'
        if not init.done():
            init.cancel()
            loop.run_ready(5)
        self.mgr._file_connection_futures.pop(ticket, None)
        after = Path(tr.local_path).read_bytes() if tr.local_path and Path(tr.local_path).exists() else b''
        obs.update(state=tr.state.VALUE.name, fail_reason=tr.fail_reason, after=after, wire=wire,
                   bt=tr.bytes_transfered, reads=reads, closed=fep.client_closed, exc=exc,
                   stream=b''.join(segs), segs=[len(s) for s in segs], term=term, reply=bytes(pep.written),
                   remotely_queued=tr.remotely_queued, reply_allowed=self.reply_allowed(bytes(pep.written)))
        return obs

    @staticmethod
    def reply_allowed(buf: bytes):
        from aioslsk.protocol.messages import PeerMessage, PeerTransferReply
        out = []
        for fr in fakes.split_frames(buf):
            try:
                m = PeerMessage.deserialize_request(fr)
            except Exception:
                continue
            if isinstance(m, PeerTransferReply.Request):
                out.append(bool(m.allowed))
        return out

    def download_double(self, tr, src: bytes, plan: dict):
        """A peer that sends TWO PeerTransferRequest messages (tickets t1, t2) for the same download back
        to back (one TCP segment: both handlers run without a suspension point between them) and then
        opens a file connection for each ticket.  plan: {'first': k bytes served on connection A before
        connection B is opened / served, 'order': 'AB' | 'BA' (which ticket's connection comes first)}.
        Both connections serve honest bytes of ``src`` from the offset they are told.  Returns obs."""
        from aioslsk.protocol.messages import PeerTransferRequest
        from aioslsk.network.connection import PeerConnectionType
        from aioslsk.events import PeerInitializedEvent
        loop = self.loop
        self.n += 2
        t1, t2 = 5000 + self.n, 5001 + self.n
        before = Path(tr.local_path).read_bytes() if tr.local_path and Path(tr.local_path).exists() else b''
        pc, pep = self.conn(PeerConnectionType.PEER)
        m1 = PeerTransferRequest.Request(1, t1, tr.remote_path, filesize=len(src))
        m2 = PeerTransferRequest.Request(1, t2, tr.remote_path, filesize=len(src))
        tasks = []

        async def both():
            await self.mgr._on_peer_transfer_request(m1, pc)
            tasks.append(tr._transfer_task)
            await self.mgr._on_peer_transfer_request(m2, pc)
            tasks.append(tr._transfer_task)
        self.W.run(both())
        loop.run_ready(60)
        loop.run_for(2)
        conns = {}
        offsets = {}

        def open_conn(ticket):
            fc, fep = self.conn(PeerConnectionType.FILE)
            self.client.network._finalize_peer_connection(fc)
            fep.feed(struct.pack('<I', ticket))
            init = loop.create_task(self.mgr._on_peer_initialized(PeerInitializedEvent(fc, requested=False)))
            loop.run_ready(60)
            loop.run_for(1)
            conns[ticket] = (fc, fep, init)
            w = bytes(fep.written)
            offsets[ticket] = struct.unpack('<Q', w)[0] if len(w) == 8 else None

        def serve(ticket, k):
            """k more honest bytes on that connection (None: everything that is left)"""
            fc, fep, _ = conns[ticket]
            off = offsets[ticket]
            if off is None or fep.client_closed:
                return 0
            pos = sent.get(ticket, off)
            data = src[pos:] if k is None else src[pos:pos + k]
            if data:
                fep.feed(data)
                sent[ticket] = pos + len(data)
                loop.run_for(5)
            return len(data)
        sent = {}
        a, b = (t1, t2) if plan.get('order', 'AB') == 'AB' else (t2, t1)
        open_conn(a)
        if plan.get('open_b_first'):
            open_conn(b)
        serve(a, plan.get('first', 0))
        if b not in conns:
            open_conn(b)
        serve(b, None)
        serve(a, None)
        loop.run_for(400)
        for t in (a, b):
            fc, fep, init = conns[t]
            if not fep.client_closed:
                fep.feed_eof()
        loop.run_for(400)
        pending = [t for t in tasks if t is not None and not t.done()]
        for t in pending:
            t.cancel()
        for _, _, init in conns.values():
            if not init.done():
                init.cancel()
        loop.run_ready(20)
        for t in (t1, t2):
            self.mgr._file_connection_futures.pop(t, None)
        after = Path(tr.local_path).read_bytes() if tr.local_path and Path(tr.local_path).exists() else b''
        return dict(state=tr.state.VALUE.name, fail_reason=tr.fail_reason, before=before, after=after, bt=tr.bytes_transfered,
                    offsets=[offsets.get(t1), offsets.get(t2)], started=[t is not None for t in tasks],
                    distinct_tasks=len({id(t) for t in tasks if t is not None}), pending=len(pending),
                    replies=self.reply_allowed(bytes(pep.written)))

    # -- uploads ------------------------------------------------------------------------------
    def upload_attempt(self, src: bytes, filesize: int, offset_bytes: bytes | None, kbps=0, cut=None,
                       peer_closes=True, close_kind='eof', osplit=None, msg_mode=None, backpressure=None, cut_mode='error'):
        """One upload attempt.  offset_bytes: what the peer sends as offset (8 bytes; fewer or None:
        the connection ends before the offset is complete).  cut=k: the first send that starts when
        >= k file bytes were written fails.  Returns the observation dict."""
        from aioslsk.transfer.model import Transfer, TransferDirection
        from aioslsk.network.connection import PeerConnectionType
        from aioslsk.protocol.messages import PeerUploadFailed
        loop = self.loop
        self.n += 1
        p = self.W.tmp / f'src{self.n}.bin'
        p.write_bytes(src)
        tr = Transfer('bob', f'u{self.n}\\s{self.n}.bin', TransferDirection.UPLOAD)
        tr.local_path = str(p)
        tr.filesize = filesize

        async def setup():
            await self.mgr.add(tr)
            await tr.state.queue()
        self.W.run(setup())
        fc, fep = self.conn(PeerConnectionType.FILE, backpressure=backpressure)
        fc.incoming = False
        self.next_file_conn = (fc, fep)
        self.up_limiter = self.limiter(kbps)
        self.sent_peer.clear()
        state = {'file': 0}
        arm = {'mode': msg_mode}

        def on_data(d):
            total = len(fep.written) - 4
            if cut is not None and total >= cut:
                if cut_mode == 'lost':
                    # as asyncio behaves after connection_lost: write() silently drops the data, only drain()
                    # (and the reader) report the dead connection
                    def lost():
                        fep.writer._closing = True
                        try:
                            fep.reader.set_exception(ConnectionResetError('reset by peer'))
                        except Exception:
                            pass
                    loop.call_soon(lost)      # right after this write went out
                else:
                    fep.write_error = ConnectionResetError('reset by peer')
        fep.on_data = on_data
        task = loop.create_task(self.mgr._initialize_upload(tr))
        loop.run_ready(60)
        self.msg_mode = msg_mode      # only the messages after the negotiation are affected
        if offset_bytes:
            if osplit:
                # the offset arrives in two TCP segments
                fep.feed(offset_bytes[:osplit])
                loop.run_ready(20)
                loop.run_for(1)
                fep.feed(offset_bytes[osplit:])
            else:
                fep.feed(offset_bytes)
        if offset_bytes is None or len(offset_bytes) < 8:
            fep.feed_eof()
        loop.run_for(170)
        if not task.done() and peer_closes:
            if close_kind == 'eof':
                fep.feed_eof()
            else:
                fep.set_exception(ConnectionResetError('reset by peer'))
            loop.run_for(30)
        stuck = False
        if not task.done():
            loop.run_for(100000)
            stuck = not task.done()
        exc = None
        if task.done() and not task.cancelled():
            e = task.exception()
            exc = type(e).__name__ if e else None
        st = tr.state.VALUE.name
        self.msg_mode = None
        if not task.done():
            task.cancel()
            loop.run_ready(20)
        failmsg = any(isinstance(m, PeerUploadFailed.Request) for _, m in self.sent_peer)
        obs = dict(state=st, fail_reason=tr.fail_reason, wire=bytes(fep.written[4:]), ticket=bytes(fep.written[:4]),
                   bt=tr.bytes_transfered, failmsg=failmsg, stuck=stuck, exc=exc, closed=fep.client_closed)
        self.forget(tr)
        return obs


# =============================================================================================
# two real clients
# =============================================================================================

class CutLink:
    """Joins the connecting endpoint ``a`` with the accepting endpoint ``b`` with a one-way latency
    (FIFO per direction).  Recognises file connections (PeerInit typ 'F' from ``a``) and applies
    ``fault`` = None | (kind, k) to the file bytes flowing a -> b: after k delivered bytes the
    connection breaks for both sides."""

    def __init__(self, pair, a: fakes.Endpoint, b: fakes.Endpoint, latency: float):
        self.pair, self.a, self.b = pair, a, b
        self.latency = latency
        self.head = bytearray()
        self.is_file = None
        self.fault = None
        self.delivered = 0
        self.broken = False
        self.skip = 0
        self.offset = None
        self.q_ab = []
        self.q_ba = []
        a.peer, b.peer = b, a
        a.on_data = lambda d: self.enqueue(self.q_ab, d, self.deliver_ab)
        b.on_data = lambda d: self.enqueue(self.q_ba, d, self.deliver_ba)
        a.on_close = lambda: self.enqueue(self.q_ab, None, self.deliver_ab)
        b.on_close = lambda: self.enqueue(self.q_ba, None, self.deliver_ba)

    def enqueue(self, q, item, deliver):
        if self.broken:
            return
        q.append(item)
        self.pair.loop.call_later(self.latency, deliver)

    def brk(self):
        if self.broken:
            return
        self.broken = True
        self.q_ab.clear()
        self.q_ba.clear()
        kind = self.fault[0]
        if kind == 'reset':
            self.a.write_error = ConnectionResetError('reset')
            self.b.write_error = ConnectionResetError('reset')
            self.b.set_exception(ConnectionResetError('reset'))
            self.a.set_exception(ConnectionResetError('reset'))
        else:
            self.a.write_error = BrokenPipeError('closed')
            self.b.write_error = BrokenPipeError('closed')
            self.b.feed_eof()
            self.a.feed_eof()
        self.pair.breaks += 1

    def deliver_ab(self):
        if self.broken or not self.q_ab:
            return
        d = self.q_ab.pop(0)
        if d is None:
            self.b.feed_eof()
            return
        if self.is_file is None:
            self.head += d
            self.b.feed(d)
            if len(self.head) >= 4:
                (ln,) = struct.unpack('<I', self.head[:4])
                if len(self.head) >= 4 + ln:
                    from aioslsk.protocol.messages import PeerInit
                    try:
                        m = PeerInit.Request.deserialize(0, bytes(self.head[:4 + ln]))
                        self.is_file = (m.typ == 'F')
                    except Exception:
                        self.is_file = False
                    if self.is_file:
                        self.fault = self.pair.next_fault()
                        self.pair.file_links.append(self)
                        self.skip = 4 + ln + 4 - len(self.head)   # bytes of the ticket still to pass
                        assert self.skip >= 0
            return
        if not self.is_file:
            self.b.feed(d)
            return
        if self.skip > 0:
            k = min(self.skip, len(d))
            self.b.feed(d[:k])
            self.skip -= k
            d = d[k:]
            if not d:
                return
        if self.fault is None:
            self.delivered += len(d)
            self.b.feed(d)
            return
        room = self.fault[1] - self.delivered
        part = d[:max(room, 0)]
        if part:
            self.delivered += len(part)
            self.b.feed(part)
        if self.delivered >= self.fault[1]:
            self.brk()

    def deliver_ba(self):
        if self.broken or not self.q_ba:
            return
        d = self.q_ba.pop(0)
        if d is None:
            self.a.feed_eof()
            return
        self.a.feed(d)
        if self.is_file:
            if self.offset is None and len(d) == 8:
                (self.offset,) = struct.unpack('<Q', d)
            if self.fault is not None and self.fault[1] == 0:
                # the offset went through; nothing of the file may
                self.brk()


class Pair:
    """alice downloads from bob."""

    def __init__(self, src: bytes, faults, kbps_down=0, kbps_up=0, local0: bytes | None = None,
                 lat_p: float = 0.02, lat_f: float = 0.02, bp: float | None = None):
        self.lat_p, self.lat_f, self.bp = lat_p, lat_f, bp
        self.loop = vloop.new_loop(1000.0)
        self.net = fakes.FakeNet().install()
        self.tmp = Path(tempfile.mkdtemp(prefix='verif_c04_'))
        self.faults = list(faults)
        self.fault_i = 0
        self.breaks = 0
        self.file_links = []
        self.script_errors = []
        self.links = []
        import aioslsk.network.rate_limiter as rl
        import aioslsk.transfer.manager as tm
        import aioslsk.transfer.model as tmod
        import aioslsk.user.manager as um
        self._undo = vloop.patch_time(self.loop, [rl, tm, tmod, um])
        from aioslsk.client import SoulSeekClient
        from aioslsk.settings import SharedDirectorySettingEntry
        share = self.tmp / 'share'
        share.mkdir()
        self.src_path = share / 'song.bin'
        self.src_path.write_bytes(src)
        self.src = src
        self.info = {
            'alice': dict(ip='10.1.0.1', port=60000, host='srv-a.test'),
            'bob': dict(ip='10.1.0.2', port=61000, host='srv-b.test'),
        }
        self.clients = {}
        self.server_eps = {}
        for name in ('alice', 'bob'):
            d = self.tmp / name
            d.mkdir()
            s = world.make_settings(username=name, tmp=d, port=self.info[name]['port'],
                                    obfuscated_port=self.info[name]['port'] + 1)
            s.network.server.hostname = self.info[name]['host']
            from aioslsk.settings import PeerConnectMode
            try:
                s.network.peer.connect_mode = PeerConnectMode.FALLBACK
            except Exception:
                pass
            if name == 'bob':
                s.shares.directories = [SharedDirectorySettingEntry(path=str(share), share_mode='everyone')]
                s.shares.scan_on_start = True
                s.network.limits.upload_speed_kbps = kbps_up
            else:
                s.network.limits.download_speed_kbps = kbps_down
            self.clients[name] = SoulSeekClient(s)
        self.net.connect_handler = self._on_connect
        self.local0 = local0

    # scripted server + peer broker --------------------------------------------------------------
    def _on_connect(self, host, port):
        for name, inf in self.info.items():
            if host == inf['host']:
                ep = fakes.Endpoint(self.net, peername=(host, port), sockname=(inf['ip'], 50001), label='srv-' + name)
                self.server_eps[name] = ep
                ep.on_data = lambda d, name=name: self._server_rx(name)
                ep.rx_pos = 0
                return ep
        for name, inf in self.info.items():
            if host == inf['ip'] and port in (inf['port'],):
                other = 'alice' if name == 'bob' else 'bob'
                if port not in self.net.listeners:
                    return ConnectionRefusedError('not listening')
                b = self.net.incoming(port, peername=(self.info[other]['ip'], 40000 + len(self.links)))
                a = fakes.Endpoint(self.net, peername=(host, port), sockname=(self.info[other]['ip'], 40000 + len(self.links)))
                # connections are opened alternately for messages (P) and files (F); which is which is only
                # known from the first frame, so the latency is chosen from who connects: bob -> alice = file
                if self.bp is not None and other == 'bob':
                    # the uploader's side of the file connection is under backpressure
                    a.writer = BackpressureWriter(a, a.writer._peername, a.writer._sockname, self.bp)
                self.links.append(CutLink(self, a, b, self.lat_f if other == 'bob' else self.lat_p))
                return a
        return ConnectionRefusedError('unknown host')

    def _server_rx(self, name):
        from aioslsk.protocol.messages import ServerMessage, GetPeerAddress, AddUser
        from aioslsk.protocol.primitives import UserStats
        ep = self.server_eps[name]
        buf = bytes(ep.written)
        while True:
            pos = ep.rx_pos
            if pos + 4 > len(buf):
                return
            (ln,) = struct.unpack('<I', buf[pos:pos + 4])
            if pos + 4 + ln > len(buf):
                return
            fr = buf[pos:pos + 4 + ln]
            ep.rx_pos = pos + 4 + ln
            try:
                m = ServerMessage.deserialize_request(fr)
            except Exception:
                continue
            reply = None
            if isinstance(m, GetPeerAddress.Request) and m.username in self.info:
                inf = self.info[m.username]
                reply = GetPeerAddress.Response(m.username, inf['ip'], inf['port'], obfuscated_port_amount=0,
                                                obfuscated_port=0)
            elif isinstance(m, AddUser.Request):
                reply = AddUser.Response(m.username, exists=True, status=2,
                                         user_stats=UserStats(avg_speed=0, uploads=0, shared_file_count=1, shared_folder_count=1),
                                         country_code='BE')
            if reply is not None:
                # a server round trip takes time (an instant answer would arrive before the client
                # registered its response future)
                self.loop.call_later(0.05, ep.feed, reply.serialize())

    def next_fault(self):
        f = self.faults[self.fault_i] if self.fault_i < len(self.faults) else None
        self.fault_i += 1
        return f

    # life cycle -----------------------------------------------------------------------------------
    def start(self):
        from aioslsk.protocol.messages import Login
        loop = self.loop
        for name, c in self.clients.items():
            loop.run_coro(c.start(connect=True))
            t = loop.create_task(c.login())
            loop.run_ready(20)
            self.server_eps[name].feed(Login.Response(success=True, greeting='', ip=self.info[name]['ip'],
                                                      md5hash='x', privileged=False).serialize())
            loop.run_ready(80)
            assert t.done(), 'login did not finish'
            t.result()
        loop.run_for(5)

    def begin_download(self):
        a = self.clients['alice']
        remote = self.remote_path()
        tr = self.loop.run_coro(a.transfers.download('bob', remote))
        if self.local0 is not None:
            p = self.tmp / 'alice' / 'pre.bin'
            p.write_bytes(self.local0)
            tr.local_path = str(p)
        self.dl = tr
        return tr

    def remote_path(self):
        b = self.clients['bob']
        items = list(b.shares.shared_items if hasattr(b.shares, 'shared_items') else [])
        if not items:
            for d in b.shares.shared_directories:
                items.extend(d.items)
        assert items, 'nothing shared'
        return items[0].get_remote_path()

    def upload(self):
        for t in self.clients['bob'].transfers.transfers:
            return t
        return None

    def run(self, seconds):
        self.loop.run_for(seconds, max_iters=2000000)

    def run_script(self, script, horizon):
        """script: [[t, action, arg]] with t in seconds after the download was requested; actions: user calls
        (pause / queue of the download, pause_up / queue_up of the upload) and settings changes at run time
        (limit_down / limit_up: the limiter objects are replaced as a whole)."""
        t0 = self.loop.time()
        for t, action, arg in sorted(script, key=lambda x: x[0]):
            dt = t0 + t - self.loop.time()
            if dt > 0:
                self.run(dt)
            a, b = self.clients['alice'], self.clients['bob']
            try:
                if action == 'limit_down':
                    a.network.set_download_speed_limit(arg)
                elif action == 'limit_up':
                    b.network.set_upload_speed_limit(arg)
                elif action == 'pause':
                    self.loop.run_coro(a.transfers.pause(self.dl))
                elif action == 'queue':
                    self.loop.run_coro(a.transfers.queue(self.dl))
                elif action == 'pause_up' and self.upload() is not None:
                    self.loop.run_coro(b.transfers.pause(self.upload()))
                elif action == 'queue_up' and self.upload() is not None:
                    self.loop.run_coro(b.transfers.queue(self.upload()))
            except Exception as e:      # a refused transition (e.g. pause of a finished transfer) is not an error
                self.script_errors.append(f'{action}: {type(e).__name__}')
        rest = t0 + horizon - self.loop.time()
        if rest > 0:
            self.run(rest)

    def snapshot(self):
        dl = self.dl
        up = self.upload()
        data = b''
        if dl.local_path and Path(dl.local_path).exists():
            data = Path(dl.local_path).read_bytes()
        return dict(dl=dl.state.VALUE.name, dl_reason=dl.fail_reason, dl_rq=dl.remotely_queued,
                    up=up.state.VALUE.name if up else None, up_reason=up.fail_reason if up else None,
                    file=data, attempts=len(self.file_links), breaks=self.breaks,
                    offsets=[ln.offset for ln in self.file_links],
                    broken=[bool(ln.broken) for ln in self.file_links],
                    kinds=[(ln.fault[0] if ln.fault else None) for ln in self.file_links])

    def close(self):
        try:
            for c in self.clients.values():
                try:
                    self.loop.run_coro(c.stop(), timeout_virtual=120)
                except Exception:
                    pass
        finally:
            self._undo()
            self.net.uninstall()
            vloop.close_loop(self.loop)
            shutil.rmtree(self.tmp, ignore_errors=True)


def run_limited_upload(kbps: int, size: int, seed: int = 0) -> list:
    """For checks/c20.py: one real upload (TransferManager._initialize_upload -> _upload_file -> send_file /
    send_data) of ``size`` bytes over a fake transport under virtual time, with the Network's upload limit set
    to ``kbps`` KiB/s (0 = unlimited) through Network.set_upload_speed_limit; the file connection gets the
    network's limiter from the real Network._finalize_peer_connection.  Returns the file bytes as they were
    written to the transport: [(virtual seconds since the first write attempt started, nbytes), ...] (the
    4-byte ticket is not included).  ``seed`` varies the content and the start time of the virtual clock."""
    import struct as _struct
    side = Side()
    try:
        side.loop.advance((seed % 7) * 0.37)
        net = side.client.network
        net.set_upload_speed_limit(kbps)
        side.up_limiter = None
        real_create = net.create_peer_connection

        async def create_peer_connection(username, typ, **kw):
            conn, ep = side.next_file_conn
            net._finalize_peer_connection(conn)          # assigns the network's limiter
            return conn
        net.create_peer_connection = create_peer_connection
        from aioslsk.transfer.model import Transfer, TransferDirection
        from aioslsk.network.connection import PeerConnectionType
        src = pat(seed % 251, size)
        p = side.W.tmp / 'limited.bin'
        p.write_bytes(src)
        tr = Transfer('bob', 'u\\limited.bin', TransferDirection.UPLOAD)
        tr.local_path = str(p)
        tr.filesize = size

        async def setup():
            await side.mgr.add(tr)
            await tr.state.queue()
        side.W.run(setup())
        fc, fep = side.conn(PeerConnectionType.FILE)
        fc.incoming = False
        side.next_file_conn = (fc, fep)
        t0 = side.loop.time()
        task = side.loop.create_task(side.mgr._initialize_upload(tr))
        side.loop.run_ready(60)
        fep.feed(_struct.pack('<Q', 0))
        horizon = 600 + (size / (kbps * 1024) * 3 if kbps else 0)
        side.loop.run_for(horizon)
        if not task.done():
            fep.feed_eof()
            side.loop.run_for(60)
        if not task.done():
            task.cancel()
            side.loop.run_ready(20)
        out = []
        skip = 4
        for t, data in fep.write_log:
            n = len(data)
            if skip:
                k = min(skip, n)
                skip -= k
                n -= k
            if n:
                out.append((t - t0, n))
        return out
    finally:
        side.close()
