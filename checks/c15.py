"""C15 — user tracking on the server mirrors the set of reasons to track.

L1  coq/theories/C15/Props.v over Model.v (worker machine) and Spec.v (set of reasons); retry delays from
    gen/RetryGen.v (tr_retry, regenerated from user/manager.py).
L2  correspondence: scripts of track/untrack calls for 1-2 users placed at every loop-iteration boundary
    (loop.run_ready(1) stepping), server behaviour per AddUser attempt (exists / not exists / silence / send
    failure), server disconnects at any point, on the real UserManager inside vlib.world.World.  The order in
    which the real worker dequeues requests, leaves its awaits, is cancelled, and its done-callback and retry
    timer run is OBSERVED (wrappers installed from outside) and replayed through the model (vm_compute);
    per event the model's (present, flags, state, queue length, worker alive, retry armed) is compared with
    the implementation, plus the AddUser/RemoveUser frames at the simulated server, the
    UserTrackingStateChangedEvent sequence and the retry delays.
L3  monitor = the property text against a reference count of reasons (independent of the model).
"""
from __future__ import annotations

import asyncio

from vlib.common import Run, Finding, BrokenTie, coq_eval_many, parse_eval, parse_coq_list, shrink_list

USERS = ['bob', 'carol']
F18 = 'F18-track-call-lost-on-finished-worker'
F18B = 'F18b-worker-survives-server-close-inside-cancel-task'
F27 = 'F27-flag0-call-treated-as-retry'
STATE_CODE = {'untracked': 0, 'tracked': 1, 'retry_pending': 2}


class InjectedSendFailure(Exception):
    pass


class Driver:
    def __init__(self, policy, raising_listener=False):
        from vlib.world import World
        from aioslsk.protocol.messages import AddUser, RemoveUser
        from aioslsk.protocol.primitives import UserStats
        from aioslsk.events import UserTrackingStateChangedEvent
        import aioslsk.user.manager as um
        self.um_mod = um
        self.w = World()
        w = self.w
        w.start()
        w.login()
        w.server_send(AddUser.Response('me', True, 2, UserStats(1, 2, 3, 4), 'BE'))
        w.settle(10)
        w.server_received(clear=True)
        self.loop = w.loop
        self.users = w.client.users
        self.tm = self.users._tracking_manager
        self.net = w.client.network
        self.policy = {u: list(p) for u, p in policy.items()}      # per user: behaviour of successive AddUser attempts
        self.attempt = {u: 0 for u in USERS}
        self.events = {u: [] for u in USERS}       # model events per user
        self.snaps = {u: [] for u in USERS}        # snapshot after each event (filled lazily)
        self.frames = {u: [] for u in USERS}
        self.states = {u: [] for u in USERS}
        self.arms = {u: [] for u in USERS}
        self.outs = {u: [] for u in USERS}         # interleaved outputs (code, value) in order
        self.need_snap = []                        # users with an event whose snapshot is still to be taken
        self.in_cancel = {u: False for u in USERS}
        self.retries = {u: [] for u in USERS}      # every scheduled retry: failure it follows, delay, virtual arm / fire time
        self.attempts = {u: [] for u in USERS}     # (0 AddUser | 1 RemoveUser, sent ok, number of closes seen) at the network boundary
        self.calls = []                            # (user, op, flag, dead_worker_at_call)
        self.closes = 0
        self.survived_close = {u: False for u in USERS}
        self.replies = []                          # scheduled server replies: [iterations left, user, exists]
        self.closed = False
        drv = self
        AddUserReq, RemoveUserReq = AddUser.Request, RemoveUser.Request

        # ---- observation points (all installed from outside; removed in close())
        self.saved = []

        def patch(obj, name, new):
            self.saved.append((obj, name, getattr(obj, name), name in vars(obj)))
            setattr(obj, name, new)

        TU = um.TrackedUser
        orig_add, orig_rem = TU.add_flag, TU.remove_flag

        def add_flag(tu, flag):
            drv.log(tu.user.name, 'WorkerStep', dequeuing=True)
            return orig_add(tu, flag)

        def remove_flag(tu, flag):
            drv.log(tu.user.name, 'WorkerStep', dequeuing=True)
            return orig_rem(tu, flag)
        patch(TU, 'add_flag', add_flag)
        patch(TU, 'remove_flag', remove_flag)

        orig_cancel = um.cancel_task

        async def cancel_task(task):
            name = drv._user_of_current_task()
            pending = task is not None and not task.done()
            if pending and name:
                drv.in_cancel[name] = True
            try:
                await orig_cancel(task)
            finally:
                if pending and name:
                    drv.in_cancel[name] = False
            if pending and name:
                drv.log(name, 'WorkerStep')
        patch(um, 'cancel_task', cancel_task)

        orig_send = self.net.send_server_messages

        async def send_server_messages(*messages, **kw):
            m = messages[0] if len(messages) == 1 else None
            name = getattr(m, 'username', None)
            tracked = isinstance(m, (AddUserReq, RemoveUserReq)) and name in USERS and drv._user_of_current_task() == name
            if not tracked:
                return await orig_send(*messages, **kw)
            fail = False
            if isinstance(m, AddUserReq):
                k = drv.attempt[name]
                drv.attempt[name] += 1
                beh = drv.policy[name][k] if k < len(drv.policy[name]) else 'exists'
                fail = beh == 'sendfail'
            else:
                beh = None
            try:
                if fail:
                    await asyncio.sleep(0)
                    raise InjectedSendFailure()
                await orig_send(*messages, **kw)
            except asyncio.CancelledError:
                raise
            except Exception:
                drv.attempts[name].append((0 if isinstance(m, AddUserReq) else 1, False, drv.events[name].count('ServerClosed'), len(drv.events[name])))
                drv.log(name, 'SendFails')
                raise
            drv.attempts[name].append((0 if isinstance(m, AddUserReq) else 1, True, drv.events[name].count('ServerClosed'), len(drv.events[name])))
            drv.log(name, 'WorkerStep')
            drv.out(name, (0 if isinstance(m, AddUserReq) else 1, 0))
            if beh in ('exists', 'notexists'):
                drv.replies.append([drv.policy_delay(name, k), name, beh == 'exists'])
        patch(self.net, 'send_server_messages', send_server_messages)

        orig_wait = self.net.wait_for_server_message

        async def wait_for_server_message(message_class, fields=None, timeout=10):
            name = (fields or {}).get('username')
            tracked = message_class is AddUser.Response and name in USERS and drv._user_of_current_task() == name
            if not tracked:
                return await orig_wait(message_class, fields, timeout=timeout)
            try:
                r = await orig_wait(message_class, fields, timeout=timeout)
            except asyncio.CancelledError:
                raise
            except Exception:
                drv.log(name, 'ServerReply RSilence')
                raise
            drv.log(name, 'ServerReply RExists' if r.exists else 'ServerReply RNotExists')
            return r
        patch(self.net, 'wait_for_server_message', wait_for_server_message)

        orig_retry = self.tm._request_retry

        async def _request_retry(tu, timeout):
            rec = drv.retries[tu.user.name][-1] if drv.retries[tu.user.name] else None
            await orig_retry(tu, timeout)
            if rec is not None:
                rec['fired_at'] = drv.loop.time()
            drv.log(tu.user.name, 'TimerFires', qadj=-1)
        patch(self.tm, '_request_retry', _request_retry)

        import inspect
        orig_set = self.tm._set_tracking_state
        default_retry = inspect.signature(orig_set).parameters['retry_timeout'].default

        async def _set_tracking_state(tu, state, message=None, retry_timeout=default_retry):
            if state == um.TrackingState.RETRY_PENDING:
                drv.out(tu.user.name, (3, int(retry_timeout)))
                ev_ = drv.events[tu.user.name]
                drv.retries[tu.user.name].append({'after': ev_[-1] if ev_ else None, 'delay': retry_timeout, 'armed_at': drv.loop.time(), 'fired_at': None})
            return await orig_set(tu, state, message=message, retry_timeout=retry_timeout)
        patch(self.tm, '_set_tracking_state', _set_tracking_state)

        orig_task = self.tm._tracking_task

        async def _tracking_task(tu):
            drv.task_user[asyncio.current_task()] = tu.user.name
            try:
                return await orig_task(tu)
            except asyncio.CancelledError:
                drv.cancel_logged.add(asyncio.current_task())
                if drv.tm._tracked_users.get(tu.user.name) is tu:      # a worker whose entry is gone is invisible
                    drv.log(tu.user.name, 'WorkerStep')
                raise
        self.task_user = {}
        self.cancel_logged = set()
        patch(self.tm, '_tracking_task', _tracking_task)

        orig_done = self.tm._on_tracking_task_done

        def _on_tracking_task_done(tu, task):
            if drv.tm._tracked_users.get(tu.user.name) is tu:          # only the callback of the registered worker is an event
                if task.cancelled() and task not in drv.cancel_logged:
                    drv.cancel_logged.add(task)
                    drv.log(tu.user.name, 'WorkerStep', undead=True)
                drv.log(tu.user.name, 'DoneCb')
            return orig_done(tu, task)
        patch(self.tm, '_on_tracking_task_done', _on_tracking_task_done)

        orig_stop = self.tm.stop

        def stop():
            drv.closes += 1
            drv.flush()
            res = orig_stop()
            for u in USERS:
                if drv.in_cancel[u]:
                    drv.survived_close[u] = True
                drv.log(u, 'ServerClosed')
            return res
        patch(self.tm, 'stop', stop)

        orig_track, orig_untrack = self.users.track_user, self.users.untrack_user

        async def track_user(username, flag=um.TrackingFlag.REQUESTED):
            drv.note_call(username, 'track', flag.value, 'harness' if drv.in_harness_call else 'library')
            return await orig_track(username, flag)

        async def untrack_user(username, flag=um.TrackingFlag.REQUESTED):
            drv.note_call(username, 'untrack', flag.value, 'harness' if drv.in_harness_call else 'library')
            return await orig_untrack(username, flag)
        patch(self.users, 'track_user', track_user)
        patch(self.users, 'untrack_user', untrack_user)
        self.in_harness_call = False
        self.transfers_of = {}
        self.relogins = 0
        self.frames_before = []

        def on_state(e):
            if e.user.name in USERS:
                drv.out(e.user.name, (2, STATE_CODE[e.state.value]))
        if raising_listener:
            def failing(e):
                if e.user.name in USERS:
                    raise RuntimeError('listener failed')
            self._failing = failing
            w.client.events.register(UserTrackingStateChangedEvent, self._failing, priority=10)
        self._listener = on_state           # the event bus only keeps weak references
        w.client.events.register(UserTrackingStateChangedEvent, self._listener)
        self.delay_rng = None

    def policy_delay(self, name, k):
        return self.reply_delays.get((name, k), 2)

    def _user_of_current_task(self):
        try:
            return self.task_user.get(asyncio.current_task())
        except RuntimeError:
            return None

    # ---- logging with lazy snapshots
    def snapshot(self, name, qadj=0, undead=False):
        tu = self.tm._tracked_users.get(name)
        flags = self.users.get_tracking_flags(name).value
        state = STATE_CODE[self.users.get_tracking_state(name).value]
        if tu is None:
            return (False, flags, state, 0, False, False)
        rt = tu.retry_task
        armed = rt is not None and not rt.done() and rt.cancelling() == 0
        return (True, flags, state, tu.queue.qsize() + qadj, undead or (tu.task is not None and not tu.task.done()), armed)

    def flush(self, who=None, qadj=0, undead=False):
        # Snapshots are taken lazily, when the NEXT event is logged.  Three events are logged by their wrapper only after
        # the first effect of the step has already happened; the snapshot of the state before them is corrected for it:
        # a dequeue (queue.get() already removed the request), a retry expiry (the request is already queued), and the
        # cancellation of a worker that never ran (the task is already done).
        for name in self.need_snap:
            mine = name == who
            self.snaps[name].append(self.snapshot(name, qadj if mine else 0, undead and mine))
        self.need_snap = []

    def log(self, name, ev, dequeuing=False, qadj=0, undead=False):
        self.flush(name, 1 if dequeuing else qadj, undead)
        self.events[name].append(ev)
        self.need_snap.append(name)

    def out(self, name, o):
        self.outs[name].append(o)

    # ---- stimuli
    def note_call(self, name, op, flag, by):
        """every UserManager.track_user / untrack_user call for a watched user (made by the harness or by the transfer manager)"""
        if name not in USERS:
            return
        tu = self.tm._tracked_users.get(name)
        dead = tu is not None and (tu.task.done() or tu.task.cancelling() > 0)
        self.calls.append((name, op, flag, dead, self.closes, by))
        self.log(name, f'Track {flag}' if op == 'track' else f'Untrack {flag}')

    def sync(self, coro, what):
        """run a coroutine that must not suspend, between two loop iterations"""
        asyncio._set_running_loop(self.loop)
        try:
            coro.send(None)
        except StopIteration:
            pass
        else:
            coro.close()
            raise BrokenTie('correspondence:C15', f'{what} suspended')
        finally:
            asyncio._set_running_loop(None)

    def call(self, name, op, flag):
        from aioslsk.user.model import TrackingFlag
        self.sync((self.users.track_user if op == 'track' else self.users.untrack_user)(name, TrackingFlag(flag)), 'track_user/untrack_user')

    # ---- the transfer manager as a source of the TRANSFER reason
    def xfer_add(self, name, k):
        from aioslsk.transfer.model import Transfer, TransferDirection
        self.xfer_seq = getattr(self, 'xfer_seq', 0) + 1
        t = Transfer(name, f'@@x\\\\f{self.xfer_seq}.mp3', TransferDirection.DOWNLOAD)
        t = self.w.run(self.w.client.transfers.add(t))       # the manager's own object for this (user, path, direction)
        self.transfers_of.setdefault(name, []).append(t)
        self.flush()

    def xfer_abort(self, name):
        for t in self.transfers_of.get(name, []):
            if not t.is_finalized():
                from aioslsk.transfer.state import CompleteState
                t.state = CompleteState(t)          # the transfer finishes (its state is the input of the management cycle)
                break
        self.flush()

    def cycle(self):
        self.sync(self.w.client.transfers.manage_user_tracking(), 'manage_user_tracking')
        self.cycles_since_change = True

    def relogin(self):
        from aioslsk.protocol.messages import AddUser
        from aioslsk.protocol.primitives import UserStats
        self.w.run(self.w.client.network.connect_server())
        self.w.login()
        self.w.server_send(AddUser.Response('me', True, 2, UserStats(1, 2, 3, 4), 'BE'))
        self.w.settle(10)
        self.closed = False
        self.relogins += 1
        self.flush()

    def step(self):
        from aioslsk.protocol.messages import AddUser
        from aioslsk.protocol.primitives import UserStats
        for r in list(self.replies):
            r[0] -= 1
            if r[0] <= 0:
                self.replies.remove(r)
                if not self.closed:
                    if r[2]:
                        self.w.server.feed(AddUser.Response(r[1], True, 2, UserStats(1, 2, 3, 4), 'BE').serialize())
                    else:
                        self.w.server.feed(AddUser.Response(r[1], False).serialize())
        self.loop.run_ready(1)
        for name, tu in list(self.tm._tracked_users.items()):
            t = tu.task
            if name in USERS and t is not None and t.cancelled() and t not in self.cancel_logged:
                self.cancel_logged.add(t)          # cancelled before its first step: the coroutine body never ran
                self.log(name, 'WorkerStep', undead=True)
        self.flush()

    def close_server(self):
        self.closed = True
        self.w.server.feed_eof()

    def close(self):
        try:
            for obj, name, old, own in reversed(self.saved):
                if own:
                    setattr(obj, name, old)
                else:
                    delattr(obj, name)
        finally:
            try:
                # bounded: a worker that survives its cancellation would otherwise keep client.stop() waiting for ever
                self.w.loop.run_coro(self.w.client.stop(), timeout_virtual=30.0, max_iters=20000)
                self.w.close()
            except Exception:
                self.w.close()


def run_script(script):
    """script = {'policy': {user: [...]}, 'reply_delays': [[user, k, d], ...], 'ops': [...]}"""
    d = Driver(script.get('policy', {u: [] for u in USERS}) | {u: [] for u in USERS if u not in script.get('policy', {})},
               raising_listener=bool(script.get('raising_listener')))
    d.reply_delays = {(u, k): dl for u, k, dl in script.get('reply_delays', [])}
    try:
        for op in script['ops']:
            k = op[0]
            if k in ('track', 'untrack'):
                d.call(USERS[op[1]], k, op[2])
            elif k == 'step':
                for _ in range(op[1]):
                    d.step()
            elif k == 'adv':
                d.loop.advance(op[1])
            elif k == 'close':
                d.close_server()
            elif k == 'xfer_add':
                d.xfer_add(USERS[op[1]], len(d.calls) + len(d.transfers_of))
            elif k == 'xfer_abort':
                d.xfer_abort(USERS[op[1]])
            elif k == 'cycle':
                d.cycle()
            elif k == 'relogin':
                d.frames_before += [m_ for m_ in d.w.server_received()]
                d.relogin()
            else:
                raise ValueError(op)
        # settle: iterations without time passing, then two rounds of "let the pending 10 s timeouts / retries expire"
        def quiesce():
            for _ in range(80):
                d.step()
                if not d.loop._ready and not d.replies:
                    break
        quiesce()
        for _ in range(int(script.get('settle_rounds', 2))):
            d.loop.advance(10.5)
            quiesce()
        d.flush()
        res = {'users': {}}
        for u in USERS:
            snap = d.snapshot(u)
            res['users'][u] = {
                'events': list(d.events[u]), 'snaps': [list(s) for s in d.snaps[u]], 'outs': [list(o) for o in d.outs[u]],
                'final': list(snap), 'survived_close': d.survived_close[u], 'attempts': [list(a) for a in d.attempts[u]], 'retries': list(d.retries[u]),
            }
        res['calls'] = [list(c) for c in d.calls]
        res['glue'] = {u: {'unfinished': any(not t.is_finalized() for t in d.transfers_of.get(u, [])),
                           'has_transfers': bool(d.transfers_of.get(u)), 'session': d.w.client.session is not None,
                           'ended_with_cycle': bool(script['ops']) and script['ops'][-1][0] in ('cycle',)}
                       for u in USERS}
        res['closes'] = d.closes
        res['unhandled'] = [str(c.get('message')) + ':' + repr(c.get('exception')) for c in d.loop.unhandled]
        frames = []
        for m in d.frames_before + d.w.server_received():
            n = type(m).__qualname__
            if n in ('AddUser.Request', 'RemoveUser.Request') and getattr(m, 'username', None) in USERS:
                frames.append([m.username, 0 if n.startswith('Add') else 1])
        res['frames'] = frames
        return res
    finally:
        d.close()


# ---------------------------------------------------------------------------------------------
# monitor: property text against a reference count of reasons
# ---------------------------------------------------------------------------------------------
def monitor(script, tr):
    v = []
    for ui, u in enumerate(USERS):
        U = tr['users'][u]
        evs = U['events']
        # reference set of reasons: calls in call order, emptied at every server close
        R = 0
        trans = []          # 'A' (empty -> non-empty), 'R' (non-empty -> empty)
        calls_after_last_close = False
        lost_candidate = False
        nclose = 0
        for e in evs:
            if e.startswith('Track '):
                f = int(e.split()[1])
                if R == 0 and f:
                    trans.append('A')
                R |= f
                calls_after_last_close = True
            elif e.startswith('Untrack '):
                f = int(e.split()[1])
                if R and not (R & ~f):
                    trans.append('R')
                R &= ~f
                calls_after_last_close = True
            elif e == 'ServerClosed':
                R = 0
                calls_after_last_close = False
                nclose += 1
        dead_calls = [c for c in tr['calls'] if c[0] == u and c[1] == 'track' and c[3]]
        present, flags, state, qlen, alive, armed = U['final']
        frames = [k for (n, k) in tr['frames'] if n == u]
        n_add = sum(1 for k in frames if k == 0)
        n_rem = sum(1 for k in frames if k == 1)
        n_timer = sum(1 for e in evs if e == 'TimerFires')
        # (1a) the AddUser / RemoveUser requests reaching the network boundary are, in order, the changes of the reference set:
        # one RemoveUser per non-empty -> empty change, one AddUser (plus retries, which repeat it) per empty -> non-empty change.
        # Per stretch between server disconnects: what was sent is a prefix of what the trajectory asks for (the rest may still
        # be queued, or was dropped by the disconnect), and it is all of it once the queue has been worked off.
        seg_exp = {}
        Rr = 0
        seg = 0
        for e in evs:
            if e.startswith('Track '):
                f = int(e.split()[1])
                if Rr == 0 and f:
                    seg_exp.setdefault(seg, []).append(0)
                Rr |= f
            elif e.startswith('Untrack '):
                f = int(e.split()[1])
                if Rr and not (Rr & ~f):
                    seg_exp.setdefault(seg, []).append(1)
                Rr &= ~f
            elif e == 'ServerClosed':
                Rr = 0
                seg += 1
        seg_obs = {}
        for kind, ok, g, *_pos in U.get('attempts', []):
            lst = seg_obs.setdefault(g, [])
            if not (kind == 0 and lst and lst[-1] == 0):      # a repeated AddUser is a retry of the same change
                lst.append(kind)
        for g in sorted(set(seg_exp) | set(seg_obs)):
            exp, obs = seg_exp.get(g, []), seg_obs.get(g, [])
            last_seg = g == seg
            complete = last_seg and U['final'][3] == 0 and not U['survived_close'] and not dead_calls_any(tr, u)
            if obs != exp[:len(obs)] or (complete and len(obs) != len(exp)):
                names = {0: 'AddUser', 1: 'RemoveUser'}
                v.append(('requests-do-not-mirror-reason-changes',
                          f'{u}: the reason set changed {[("empty->non-empty" if k == 0 else "non-empty->empty") for k in exp]} '
                          f'but the server was sent {[names[k] for k in obs]}' + ('' if g == 0 else f' (after disconnect {g})'),
                          {'user': u, 'expected': exp, 'sent': obs}))
                break
        # (1) every frame is justified by a change of the set (or a retry expiry)
        n_flag0 = sum(1 for e in evs if e in ('Track 0', 'Untrack 0'))
        if n_flag0 and trans.count('A') + n_timer < n_add <= trans.count('A') + n_timer + n_flag0:
            v.append((F27, f'{u}: {n_add} AddUser frames for {trans.count("A")} empty->non-empty changes and {n_timer} retry expiries: '
                      f'{n_flag0} call(s) with an empty flag set were taken for retry expiries', {'user': u}))
        elif n_add > trans.count('A') + n_timer:
            v.append(('unjustified-adduser', f'{u}: {n_add} AddUser frames for {trans.count("A")} empty->non-empty changes and {n_timer} retry expiries', {'user': u}))
        if n_rem > trans.count('R'):
            v.append(('unjustified-removeuser', f'{u}: {n_rem} RemoveUser frames for {trans.count("R")} non-empty->empty changes', {'user': u}))
        survived = U['survived_close'] and nclose and not calls_after_last_close
        # (2) no call lost: once the queue has been worked off the flags are the reference set
        if not survived and qlen == 0 and (flags != R or (R and not present)):
            key = F18 if (dead_calls and R and flags != R) else 'call-lost'
            v.append((key, f'{u}: reasons by reference count = {R}, get_tracking_flags = {flags}, entry present = {present}'
                      + (' (a track call reached an entry whose worker had already finished / was being cancelled)' if key == F18 else ''),
                      {'user': u, 'reference': R, 'flags': flags}))
        # (3) everything is dropped when the server connection closes
        if nclose and not calls_after_last_close and (present or armed):
            key = F18B if U['survived_close'] else 'not-dropped-on-close'
            v.append((key, f'{u}: after the server connection closed the tracking entry is still there (flags {flags}, retry armed {armed})'
                      + (' — the worker was inside cancel_task when it was cancelled' if key == F18B else ''), {'user': u}))
        # (3b) ... and the cancelled worker does nothing any more (a worker that is no longer registered is still
        # seen by the wrappers around its sends / waits / retry timer)
        if nclose and not calls_after_last_close:
            last = max(i for i, e in enumerate(evs) if e == 'ServerClosed')
            busy = [e for e in evs[last + 1:] if e in ('SendFails', 'TimerFires') or e.startswith('ServerReply')]
            if busy and not (present or armed):
                key = F18B if U['survived_close'] else 'worker-active-after-close'
                v.append((key, f'{u}: after the server connection closed the tracking worker is still active ({busy[:3]})'
                          + (' — it was inside cancel_task when it was cancelled' if key == F18B else ''), {'user': u}))
        # (6) the transfer manager as a source of reasons: while a transfer of the user is unfinished and a session exists, TRANSFER
        # is among the user's reasons after the next management cycle (also after a disconnect and a new login); once all
        # transfers of the user are finalized it is not
        gl = tr.get('glue', {}).get(u)
        if gl and gl['has_transfers'] and gl['session'] and gl['ended_with_cycle'] and qlen == 0:
            if gl['unfinished'] and not (flags & 2):
                v.append(('transfer-reason-missing', f'{u}: an unfinished transfer exists, a session exists and a management cycle has run, '
                          f'but TRANSFER is not among the tracking flags ({flags}), entry present = {present}', {'user': u}))
            if not gl['unfinished'] and (flags & 2):
                v.append(('transfer-reason-stale', f'{u}: every transfer is finalized and a management cycle has run, but TRANSFER is still '
                          f'among the tracking flags ({flags})', {'user': u}))
        # (4) settled state: tracked implies a reason and a confirmation by the server
        confirmed = any(e == 'ServerReply RExists' for e in evs)
        if state == 1 and (R == 0 or not confirmed):
            v.append(('tracked-without-reason-or-confirmation', f'{u}: state TRACKED with reasons {R}, confirmed={confirmed}', {'user': u}))
        if R == 0 and state != 0 and not (present and alive):
            v.append(('state-not-untracked', f'{u}: no reasons but state {state}', {'user': u}))
        # (5b) a retry that expires while a reason remains re-sends AddUser: if the reference set is non-empty from the expiry
        # to the end (no disconnect) and the queue has been worked off, an AddUser request follows the expiry
        Rt = 0
        ok_from = None            # position since which the reference set has been non-empty without interruption
        for k_, e in enumerate(evs):
            if e.startswith('Track '):
                if Rt == 0 and int(e.split()[1]):
                    ok_from = k_
                Rt |= int(e.split()[1])
            elif e.startswith('Untrack '):
                Rt &= ~int(e.split()[1])
                if Rt == 0:
                    ok_from = None
            elif e == 'ServerClosed':
                Rt = 0
                ok_from = None
        if ok_from is not None and U['final'][3] == 0 and U['final'][0] and U['final'][2] != 1:      # (not needed once the server confirmed)
            fires = [k_ for k_, e in enumerate(evs) if e == 'TimerFires' and k_ > ok_from]
            if fires:
                t = fires[-1]
                if not any(a[0] == 0 and len(a) > 3 and a[3] > t for a in U.get('attempts', [])):
                    v.append(('retry-expired-without-resend', f'{u}: the retry timer expired (event {t}) while reasons remained, the queue is worked off, '
                              f'but no AddUser was sent again', {'user': u}))
        # (5a) a failed attempt is retried after the delay documented for that failure (user/manager.py: 10 s after a network
        # error or no answer, 600 s when the server says the user does not exist), not earlier
        for rec in U.get('retries', []):
            want = 600 if rec['after'] == 'ServerReply RNotExists' else 10 if rec['after'] in ('SendFails', 'ServerReply RSilence') else None
            if want is None:
                v.append(('retry-without-failure', f'{u}: a retry was scheduled after {rec["after"]}', {'user': u}))
            elif rec['delay'] != want:
                v.append(('retry-delay-not-documented', f'{u}: after {rec["after"]} the retry was scheduled in {rec["delay"]} s, documented: {want} s', {'user': u}))
            elif rec['fired_at'] is not None and rec['fired_at'] - rec['armed_at'] < want - 1e-6:
                v.append(('retry-too-early', f'{u}: retry after {rec["after"]} fired {rec["fired_at"] - rec["armed_at"]} s after the failure, documented: {want} s', {'user': u}))
        # (5) retries: documented delays only (10 s network error / no answer, 600 s unknown user), only with a reason
        for (c, val) in U['outs']:
            if c == 3 and val not in (10, 600):
                v.append(('retry-delay', f'{u}: retry scheduled after {val} s', {'user': u}))
    if tr['unhandled']:
        v.append(('unhandled-loop-error', f'event loop exception handler called: {tr["unhandled"][:2]}', {}))
    return v


def dead_calls_any(tr, u):
    return any(c[0] == u and c[3] for c in tr['calls'])


def retry_reason_check(tr):
    """retry only while a reason remains: replay (flags at dequeue) is done by the model comparison; here: an AddUser frame
    caused by a retry expiry is only legitimate when the reference set is non-empty at that time (checked through
    unjustified-adduser); additionally the armed flag never survives flags == 0 in any snapshot."""
    v = []
    for u in USERS:
        for s in tr['users'][u]['snaps']:
            present, flags, state, qlen, alive, armed = s
            if armed and flags == 0:
                v.append(('retry-armed-without-reason', f'{u}: retry timer armed while flags == 0', {'user': u}))
                break
    return v


# ---------------------------------------------------------------------------------------------
# model printer
# ---------------------------------------------------------------------------------------------
def coq_cases(items):
    """items: list of (events, snaps, outs)"""
    L = ['From Coq Require Import ZArith List Bool Arith.', 'From Slsk Require Import C15.Spec C15.Model.', 'Import ListNotations.',
         'Open Scope nat_scope.',
         'Definition eqs (a b : bool * nat * nat * nat * bool * bool) := match a, b with (p,f,s,q,l,r), (p2,f2,s2,q2,l2,r2) => '
         'Bool.eqb p p2 && Nat.eqb f f2 && Nat.eqb s s2 && Nat.eqb q q2 && Bool.eqb l l2 && Bool.eqb r r2 end.',
         'Definition eqo (a b : nat * Z) := Nat.eqb (fst a) (fst b) && Z.eqb (snd a) (snd b).',
         'Fixpoint eql {A} (f : A -> A -> bool) (a b : list A) := match a, b with [], [] => true | x :: a, y :: b => f x y && eql f a b | _, _ => false end.',
         'Definition agree (c : list event * (list (bool * nat * nat * nat * bool * bool) * list (nat * Z))) :=',
         '  let o := observe (fst c) in eql eqs (fst o) (fst (snd c)) && eql eqo (snd o) (snd (snd c)).',
         'Definition cases : list (nat * (list event * (list (bool * nat * nat * nat * bool * bool) * list (nat * Z)))) := [']
    rows = []
    b = lambda x: 'true' if x else 'false'
    for idx, (evs, snaps, outs) in enumerate(items):
        e = '[' + '; '.join(evs) + ']'
        s = '[' + '; '.join(f'({b(p)},{f},{st},{q},{b(l)},{b(r)})' for p, f, st, q, l, r in snaps) + ']'
        o = '[' + '; '.join(f'({c},{v}%Z)' for c, v in outs) + ']'
        rows.append(f' ({idx}, ({e}, ({s}, {o})))')
    L.append(';\n'.join(rows))
    L.append('].')
    L.append('Definition bad := map fst (filter (fun c => negb (agree (snd c))) cases).')
    L.append('Eval vm_compute in bad.')
    return '\n'.join(L) + '\n'


# ---------------------------------------------------------------------------------------------
# generators
# ---------------------------------------------------------------------------------------------
BEHAVIOURS = ['exists', 'exists', 'notexists', 'silence', 'sendfail']


def gen_script(rng, max_calls=8):
    nusers = rng.choice([1, 1, 2])
    policy = {USERS[i]: [rng.choice(BEHAVIOURS) for _ in range(rng.randrange(0, 4))] for i in range(nusers)}
    delays = [[USERS[i], k, rng.choice([0, 1, 2, 2, 3, 5])] for i in range(nusers) for k in range(4)]
    ops = []
    ncalls = rng.randrange(1, max_calls + 1)
    closed = False
    burst = 0
    for c in range(ncalls):
        u = rng.randrange(nusers)
        f = rng.choice([1, 1, 2, 4, 3, 5, 7])
        r = rng.random()
        if c == 0 or r < 0.5:
            ops.append(['track', u, f])
        else:
            ops.append(['untrack', u, f if rng.random() < 0.7 else 7])
        if burst == 0 and rng.random() < 0.3:
            burst = rng.choice([1, 2, 3])       # the next calls are issued in the same loop iteration (no step in between)
        if burst:
            burst -= 1
            continue
        r = rng.random()
        if r < 0.55:
            ops.append(['step', rng.choice([1, 1, 1, 2, 2, 3, 4, 5, 6, 8])])
        elif r < 0.65:
            ops.append(['step', rng.choice([1, 2, 3])])
            ops.append(['adv', rng.choice([10.5, 10.5, 601])])
            ops.append(['step', rng.choice([1, 2, 3, 5, 8])])
        if not closed and rng.random() < 0.07:
            ops.append(['close'])
            closed = True
            if rng.random() < 0.7:
                ops.append(['step', rng.choice([1, 2, 3, 4, 5, 6])])
    sc = {'policy': policy, 'reply_delays': delays, 'ops': ops, 'settle_rounds': rng.choice([0, 1, 2, 2])}
    if rng.random() < 0.15:
        sc['raising_listener'] = True        # an application listener of the tracking events that fails (EventBus.emit goes on)
    return sc


def gen_glue_script(rng):
    """transfers come and go, management cycles run, the server connection is lost and a new session is opened"""
    nusers = rng.choice([1, 2])
    ops = []
    have = [0] * nusers
    closed = False
    for _ in range(rng.randrange(3, 9)):
        r = rng.random()
        u = rng.randrange(nusers)
        if r < 0.3:
            ops.append(['xfer_add', u])
            have[u] += 1
        elif r < 0.45 and have[u]:
            ops.append(['xfer_abort', u])
            have[u] -= 1
        elif r < 0.6:
            ops.append(['track' if rng.random() < 0.6 else 'untrack', u, rng.choice([1, 4, 5])])
        elif r < 0.75 and not closed:
            ops += [['close'], ['step', rng.choice([6, 8, 10])], ['relogin']]
            closed = True
        else:
            ops.append(['cycle'])
        ops.append(['step', rng.choice([0, 1, 2, 4, 8])])
    ops.append(['cycle'])
    return {'policy': {USERS[i]: ['exists'] * 6 for i in range(nusers)}, 'ops': ops, 'settle_rounds': 1}


def directed_scripts(tier):
    """Every placement of a call / a close relative to the worker's progress for a few base scenarios."""
    out = []
    pol = {'bob': ['exists', 'exists', 'exists']}
    # F18 window: track, confirmed, untrack, then a new track k iterations later, k = 0..7
    for k in range(0, 9):
        out.append({'policy': pol, 'ops': [['track', 0, 1], ['step', 8], ['untrack', 0, 1], ['step', k], ['track', 0, 2], ['step', 6]], 'settle_rounds': 0})
        out.append({'policy': pol, 'ops': [['track', 0, 1], ['step', 8], ['untrack', 0, 1], ['step', k], ['untrack', 0, 1], ['step', 2], ['track', 0, 4]], 'settle_rounds': 0})
    # calls at every boundary of a first attempt with every server behaviour
    for beh in ('exists', 'notexists', 'silence', 'sendfail'):
        for k in range(0, 8):
            p = {'bob': [beh, 'exists'], 'carol': ['exists']}
            out.append({'policy': p, 'ops': [['track', 0, 1], ['step', k], ['untrack', 0, 1], ['step', 3], ['track', 1, 4]], 'settle_rounds': 2})
            out.append({'policy': p, 'ops': [['track', 0, 1], ['step', k], ['track', 0, 2], ['untrack', 0, 3]], 'settle_rounds': 1})
            out.append({'policy': p, 'ops': [['track', 0, 1], ['step', k], ['close'], ['step', 2], ['track', 0, 2]], 'settle_rounds': 1})
    # retry pending, then untrack (retry cancelled) with a close in every following iteration (F18b window)
    for j in range(0, 7):
        for k in range(0, 5):
            p = {'bob': ['notexists', 'exists']}
            out.append({'policy': p, 'ops': [['track', 0, 1], ['step', 9], ['close'], ['step', j], ['untrack', 0, 1], ['track', 0, 4], ['step', k]],
                        'settle_rounds': 2})
    # bursts: several requests enqueued in one iteration, so the queue is not empty when the worker handles n -> 0
    for k in (0, 1, 2, 4, 7):
        for second in (['track', 0, 2], ['untrack', 0, 2], ['track', 0, 1], ['untrack', 0, 1]):
            out.append({'policy': pol, 'ops': [['track', 0, 1], ['step', 8], ['untrack', 0, 1], second, ['step', k], ['track', 0, 4], ['step', 2]], 'settle_rounds': 1})
        out.append({'policy': pol, 'ops': [['track', 0, 4], ['track', 0, 2], ['step', 8], ['untrack', 0, 4], ['untrack', 0, 2], ['track', 0, 2], ['step', k], ['untrack', 0, 2]],
                    'settle_rounds': 1})
        out.append({'policy': pol, 'ops': [['track', 0, 1], ['untrack', 0, 1], ['track', 0, 1], ['untrack', 0, 1], ['step', k], ['track', 0, 2]], 'settle_rounds': 1})
    # the transfer manager's cycle as the source of the TRANSFER reason, across a disconnect and a new login
    for k in (1, 3, 8):
        out.append({'policy': pol, 'ops': [['xfer_add', 0], ['cycle'], ['step', 8], ['cycle'], ['step', 2], ['close'], ['step', 8], ['relogin'], ['step', k], ['cycle']],
                    'settle_rounds': 1})
        out.append({'policy': pol, 'ops': [['xfer_add', 0], ['cycle'], ['step', k], ['track', 0, 1], ['cycle'], ['step', 8], ['xfer_abort', 0], ['cycle'], ['step', 8],
                                            ['untrack', 0, 1], ['step', 4], ['cycle']], 'settle_rounds': 1})
        out.append({'policy': {'bob': ['exists'] * 4, 'carol': ['exists'] * 4},
                    'ops': [['xfer_add', 0], ['xfer_add', 1], ['cycle'], ['step', 8], ['close'], ['step', 8], ['relogin'], ['cycle'], ['step', k], ['xfer_abort', 1], ['cycle']],
                    'settle_rounds': 1})
    # helpers: a failing listener of UserTrackingStateChangedEvent must not disturb the worker (EventBus.emit swallows it)
    out.append({'policy': {'bob': ['notexists', 'exists']}, 'raising_listener': True,
                'ops': [['track', 0, 1], ['step', 9], ['track', 0, 4], ['step', 2], ['adv', 601], ['step', 9], ['untrack', 0, 5], ['step', 6]], 'settle_rounds': 1})
    out.append({'policy': pol, 'raising_listener': True, 'ops': [['xfer_add', 0], ['cycle'], ['step', 8], ['close'], ['step', 8], ['relogin'], ['cycle']], 'settle_rounds': 1})
    # an attempt fails twice in a row (the retry task of the first failure exists when RETRY_PENDING is entered again) and the
    # server connection is lost at every offset around the second failure (cancellation inside the helpers it calls)
    for beh in ('sendfail', 'notexists', 'silence'):
        for j in range(0, 12):
            out.append({'policy': {'bob': [beh, beh, beh, beh]},
                        'ops': [['track', 0, 1], ['step', 8], ['adv', 10.5 if beh != 'notexists' else 601], ['step', j], ['close'], ['step', 6]], 'settle_rounds': 2})
    # retry expiry with and without a remaining reason
    out.append({'policy': {'bob': ['silence', 'exists']}, 'ops': [['track', 0, 1], ['step', 5], ['adv', 10.5], ['step', 6], ['adv', 10.5], ['step', 8]], 'settle_rounds': 0})
    out.append({'policy': {'bob': ['sendfail', 'notexists', 'exists']}, 'ops': [['track', 0, 1], ['step', 5], ['adv', 10.5], ['step', 8], ['untrack', 0, 1], ['step', 5], ['adv', 601], ['step', 5]], 'settle_rounds': 1})
    out.append({'policy': {'bob': ['notexists']}, 'ops': [['track', 0, 1], ['step', 9], ['track', 0, 2], ['step', 2], ['untrack', 0, 1], ['step', 2], ['adv', 601], ['step', 9]], 'settle_rounds': 0})
    # the transfer manager's pattern: TRANSFER re-issued every cycle while FRIEND comes and goes
    out.append({'policy': pol, 'ops': [['track', 0, 2], ['step', 2], ['track', 0, 2], ['track', 0, 4], ['step', 6], ['track', 0, 2], ['untrack', 0, 4], ['step', 3],
                                        ['untrack', 0, 2], ['step', 7], ['track', 0, 2]], 'settle_rounds': 1})
    return out


# ---------------------------------------------------------------------------------------------
def _has(script, key):
    try:
        tr = run_script(script)
        return any(v[0] == key for v in monitor(script, tr) + retry_reason_check(tr))
    except Exception:
        return False


def run(run: Run):
    run.rule = ('scripts of <= 8 track/untrack calls with flag sets over {REQUESTED, TRANSFER, FRIEND} for 1-2 users, each call placed at a '
                'loop-iteration boundary chosen among all iterations of the worker\'s progress (run_ready(1) stepping), per-attempt server '
                'behaviour (exists / not exists / silence / send failure, reply after 0..5 iterations), virtual-time jumps over the 10 s and '
                '600 s delays, a server disconnect at any point; directed families enumerate every offset of a second call / a disconnect '
                'after an untrack; distinct = distinct observed per-user event list; non-trivial = at least one worker step and one call')
    run.trusted += ['observation points installed from outside (TrackedUser.add_flag/remove_flag, user.manager.cancel_task, '
                    'Network.send_server_messages / wait_for_server_message, UserTrackingManager._request_retry / _tracking_task / '
                    '_on_tracking_task_done / stop) and read-only access to UserTrackingManager._tracked_users for snapshots',
                    'send failures are injected at Network.send_server_messages (the fake network), not through the transport']
    run.assumptions += ['calls use non-empty flag sets (TrackingFlag(0) is reserved for the retry request)',
                        'event listeners of the tracking events do not suspend']
    proved = run.prove(['tr_retry', 'tr_tracking'])

    items = []
    meta = []

    def do(script, kind):
        try:
            tr = run_script(script)
        except BrokenTie:
            raise
        except Exception as e:
            run.add_broken('correspondence:C15 harness', f'{type(e).__name__}: {e} on {script}')
            return None
        for u in USERS:
            U = tr['users'][u]
            if not U['events']:
                continue
            if len(U['events']) != len(U['snaps']):
                run.add_broken('correspondence:C15 harness', f'snapshot bookkeeping: {len(U["events"])} events, {len(U["snaps"])} snapshots')
                continue
            nontriv = any(e == 'WorkerStep' for e in U['events']) and any(e.startswith(('Track', 'Untrack')) for e in U['events'])
            run.case(U['events'], nontrivial=nontriv, kind=kind)
            for e in U['events']:
                run.count('ev_' + e.split()[0])
            items.append((U['events'], U['snaps'], U['outs']))
            meta.append((script, u))
        for key, what, detail in monitor(script, tr) + retry_reason_check(tr):
            run.add_finding(Finding(key, what, {'script': script, 'detail': detail}, observed=detail))
        return tr

    for key, wit, is_fixed in run.known_witnesses():
        tr = do(wit['script'], 'known-witness')
        if tr is not None and not is_fixed and not any(v[0] == key for v in monitor(wit['script'], tr)):
            run.notes.append(f'listed finding {key} no longer reproduces with its stored witness')
    for s in directed_scripts(run.tier):
        do(s, 'directed')
    n = 250 if run.tier == "quick" else 1200
    if not proved:
        n *= 3          # a broken tie: search longer for a concrete failing input
    for _ in range(n):
        do(gen_script(run.rng), 'random')
    for _ in range(40 if run.tier == "quick" else 250):
        do(gen_glue_script(run.rng), 'transfer-glue')

    known = {k for k, _, f in run.known_witnesses() if not f}
    for f in run.findings:
        if f.key not in known:
            try:
                sc = f.witness['script']
                ops = shrink_list(sc['ops'], lambda o: _has(dict(sc, ops=o), f.key), max_steps=40)
                f.witness = {'script': dict(sc, ops=ops), 'detail': f.witness.get('detail')}
            except Exception:
                pass

    shard = 150
    texts = [coq_cases(items[i:i + shard]) for i in range(0, len(items), shard)]
    try:
        outs = coq_eval_many('c15', texts)
        nbad = 0
        for k, out in enumerate(outs):
            vals = parse_eval(out)
            if not vals:
                raise BrokenTie('correspondence:C15', f'no output from shard {k}')
            for b in parse_coq_list(vals[0]):
                nbad += 1
                evs, snaps, o = items[k * shard + int(b)]
                script, u = meta[k * shard + int(b)]
                if nbad <= 2:
                    run.add_broken('correspondence:C15 tracking-worker model vs UserTrackingManager',
                                   f'first diverging trace ({u}): events={evs} impl_snaps={snaps} impl_outs={o} script={script}')
        run.cov['traces_validated_against_impl'] = len(items) - nbad
    except BrokenTie as e:
        run.add_broken(e.obligation, e.detail)


def replay(rep) -> int:
    script = rep['witness']['script']
    tr = run_script(script)
    print('script:', script)
    for u in USERS:
        U = tr['users'][u]
        if U['events']:
            print(u, 'events:', U['events'])
            print(u, 'final (present, flags, state, queue, worker alive, retry armed):', U['final'])
    print('frames at the server:', tr['frames'])
    viol = monitor(script, tr) + retry_reason_check(tr)
    for v in viol:
        print('VIOLATION', v[0], v[1])
    return 1 if viol else 0
