"""C04 — COMPLETE means the whole file arrived intact; resuming never corrupts it.

L1  coq/theories/C04/Props.v: sessions as total functions over byte lists (Model.v); prefix
    invariant, soundness of COMPLETE (download honest/dishonest, upload), resume offset, chunking
    irrelevance, eventual completion (partial + refuted: F12), terminal states (partial + refuted:
    F13, F13b, F13c).
L2  correspondence: the REAL coroutines (TransferManager._on_peer_transfer_request ->
    _initialize_download -> _on_peer_initialized -> _download_file -> PeerConnection.receive_file;
    _initialize_upload -> _upload_file -> send_file -> receive_until_eof) over vlib.fakes transports
    under vlib.vloop and a temp dir, chains of attempts on one transfer; every observed attempt
    (state, offset, wire bytes, bytes_transfered, callback sizes, file bytes) is compared with
    download_session / upload_session evaluated by coqc (vm_compute).
L3  monitor = the property text on every observed attempt, and on runs of TWO real clients
    (checks/c04_harness.Pair) with cuts injected on the file connection.
"""
from __future__ import annotations

import re
import struct

from vlib.common import Run, Finding, BrokenTie, coq_eval_many, parse_eval

from checks import c04_harness as H
from checks.c04_harness import pat

SMALL = [0, 1, 127, 128, 129]
LARGE = [8191, 8192, 8193, 3 * 8192 + 5]
SIZES = SMALL + LARGE

K_F12 = 'F12-empty-remainder-waits-for-read-timeout'
K_F13 = 'F13-missing-filesize-wedges-DOWNLOADING'
K_F13B = 'F13b-offset-send-failure-wedges-INITIALIZING'
K_F13C = 'F13c-offset-ge-2^63-wedges-UPLOADING'
K_N1 = 'C04-N1-eof-cut-download-FAILED-Cancelled-never-retried'

DCODE = {'COMPLETE': 0, 'INCOMPLETE': 1}
TCODE = {'eof': 0, 'reset': 1, 'timeout': 2}


# ---------------------------------------------------------------------------------------------
# running one described case on the implementation
# ---------------------------------------------------------------------------------------------

def sl(spec) -> bytes:
    seed, tot, start, k = spec
    return pat(seed, tot)[start:start + k]


def split(stream: bytes, sizes):
    out = []
    i = 0
    pos = 0
    if not sizes:
        sizes = [max(1, len(stream))]
    while pos < len(stream):
        n = max(1, sizes[i % len(sizes)])
        out.append(stream[pos:pos + n])
        pos += n
        i += 1
    return out


def dstate_code(o) -> int:
    st = o['state']
    if st in DCODE:
        return DCODE[st]
    if st == 'FAILED' and o.get('fail_reason') == 'Cancelled':
        return 2
    if st == 'DOWNLOADING' and o.get('exc') not in (None, 'NOT-DONE'):
        return 3
    if st == 'INITIALIZING' and o.get('exc') is None:
        return 4
    if st == 'QUEUED' and o.get('exc') is None and not o.get('wire'):
        return 5 if o.get('reply_allowed') == [True] else (6 if o.get('reply_allowed') == [False] else 99)
    if o.get('reply_allowed') == [False] and not o.get('wire') and st in ('INCOMPLETE', 'FAILED') and o.get('exc') is None:
        return 6     # refused: the transfer is left as it was
    return 99


def run_dchain(side: H.Side, desc: dict):
    """desc: {'src': [seed, n] | None, 'local0': spec | None, 'sessions': [{a, ok, kbps, sender, segs}]}
    sender: ['honest', k | None, term] (bytes of src from the announced offset; k None = the whole
    remainder, then wait for the peer to close like the real uploader) or ['raw', spec, term].
    Returns (attempts, findings): attempts = list of dicts for the Coq comparison."""
    src = pat(*desc['src']) if desc.get('src') else None
    local0 = sl(desc['local0']) if desc.get('local0') is not None else None
    existing = [(nm, sl(sp)) for nm, sp in desc.get('existing', [])]
    tr = side.new_download(local0, desc.get('bt0'), desc.get('listener'), name=desc.get('name'), existing=existing)
    attempts = []
    findings = []
    lspecs = [list(desc['local0'])] if desc.get('local0') is not None else []
    try:
        for si, s in enumerate(desc['sessions']):
            a = s['a']
            announced = (len(src) if a == 'src' else a)
            snd = s['sender']
            holder = {}

            def sender(off, snd=snd, s=s, holder=holder):
                if snd[0] == 'honest':
                    k = snd[1]
                    seed, n = desc['src']
                    start = min(off, n)
                    kk = (n - start) if k is None else min(k, n - start)
                    spec = [seed, n, start, kk]
                else:
                    spec = list(snd[1])
                holder['spec'] = spec
                return split(sl(spec), s.get('segs') or []), snd[2]
            o = side.download_attempt(tr, announced, sender, kbps=s.get('kbps', 0), send_ok=s.get('ok', True))
            if not o['started']:
                attempts.append({'skipped': True, 'state': o['state']})
                break
            spec = holder.get('spec', [0, 0, 0, 0])
            before, after, stream = o['before'], o['after'], o['stream']
            honest = snd[0] == 'honest' and src is not None and a == 'src'
            fault_free = honest and snd[1] is None
            wit = {'kind': 'd', 'desc': desc, 'attempt': si}
            # ---- monitor: the property text on this attempt
            m = len(after) - len(before)
            if not (after[:len(before)] == before and 0 <= m <= len(stream) and after[len(before):] == stream[:m]):
                findings.append(Finding('file-not-previous-content-plus-received-prefix',
                                        f'attempt {si}: local file ({len(after)} B) is not the previous file ({len(before)} B) followed by a prefix of the received bytes',
                                        wit, observed=len(after), expected=f'{len(before)} + prefix of {len(stream)}'))
                m = max(0, min(m, len(stream)))
            if o['wire'] and o['wire'] != struct.pack('<Q', len(before)):
                findings.append(Finding('offset-not-local-file-size',
                                        f'attempt {si}: offset on the wire {o["wire"].hex()} but the local file has {len(before)} bytes',
                                        wit, observed=o['wire'].hex(), expected=struct.pack('<Q', len(before)).hex()))
            if o['state'] == 'COMPLETE':
                if honest and after != src:
                    findings.append(Finding('complete-but-file-differs', f'attempt {si}: COMPLETE but the local file differs from the remote file',
                                            wit, observed=len(after), expected=len(src)))
                if announced is not None and len(after) != announced:
                    findings.append(Finding('complete-but-size-not-announced', f'attempt {si}: COMPLETE with {len(after)} bytes, announced {announced}',
                                            wit, observed=len(after), expected=announced))
            elif o['state'] in ('INCOMPLETE', 'FAILED'):
                no_excess = announced is not None and len(stream) <= max(announced - len(before), 0)
                if no_excess and after != before + stream:
                    findings.append(Finding('received-bytes-not-kept', f'attempt {si}: {o["state"]} but {len(stream) - m} received bytes are not in the file',
                                            wit, observed=len(after), expected=len(before) + len(stream)))
            if fault_free and o['state'] != 'COMPLETE':
                if before == src and o['state'] == 'INCOMPLETE':
                    findings.append(Finding(K_F12, 'nothing left to receive (0-byte file or local file already complete): the downloader still waits for a '
                                            'first read, the uploader waits for EOF; the fault-free attempt ends INCOMPLETE by the 180 s read timeout',
                                            wit, observed='INCOMPLETE', expected='COMPLETE'))
                elif o['state'] not in ('DOWNLOADING', 'INITIALIZING'):
                    findings.append(Finding('fault-free-attempt-not-complete', f'attempt {si}: fault-free attempt with {len(src) - len(before)} bytes missing ended {o["state"]}',
                                            wit, observed=o['state'], expected='COMPLETE'))
            if o['state'] in ('DOWNLOADING', 'INITIALIZING'):
                if o['state'] == 'DOWNLOADING' and announced is None and o['exc'] == 'AioSlskException':
                    findings.append(Finding(K_F13, 'PeerTransferRequest without filesize: _download_file raises after the state became DOWNLOADING; '
                                            'the transfer stays DOWNLOADING with no task and ignores further requests', wit,
                                            observed='DOWNLOADING, task dead', expected='terminal state'))
                elif o['state'] == 'INITIALIZING' and not s.get('ok', True) and o['exc'] is None:
                    findings.append(Finding(K_F13B, 'sending the offset fails: the handler calls state.incomplete(), which INITIALIZING refuses; '
                                            'the transfer stays INITIALIZING with no task and ignores further requests', wit,
                                            observed='INITIALIZING, task finished', expected='INCOMPLETE'))
                else:
                    findings.append(Finding('download-left-in-processing-state', f'attempt {si}: ended in state {o["state"]} (exc={o["exc"]})', wit,
                                            observed=o['state'], expected='terminal state'))
            lspecs = lspecs + ([[spec[0], spec[1], spec[2], m]] if m else [])
            attempts.append({
                'a': announced, 'ok': s.get('ok', True), 'spec': spec, 'term': o['term'] if o['wire'] else snd[2],
                'grant': H.GRANT_UNLIMITED if s.get('kbps', 0) == 0 else H.GRANT_LIMITED, 'segs': o['segs'],
                'exp': (dstate_code(o), (struct.unpack('<Q', o['wire'])[0] if len(o['wire']) == 8 else None), o['wire'],
                        (-1 if dstate_code(o) == 6 else o['bt']), o['reads'], list(lspecs)),
                'state': o['state'],
            })
            if dstate_code(o) in (3, 4, 99):
                break
        for q, content in getattr(side, 'precreated', []):
            now = q.read_bytes() if q.exists() else None
            if now != content:
                findings.append(Finding('download-wrote-into-another-existing-file', f'the download changed {q.name}, a file that was already in the download '
                                        f'directory ({len(content)} -> {len(now) if now is not None else None} bytes)', {'kind': 'd', 'desc': desc},
                                        observed=len(now) if now is not None else None, expected=len(content)))
    finally:
        side.forget(tr)
    return attempts, findings


def run_dbl(side: H.Side, desc: dict):
    """A peer that negotiates the same download twice at once (two PeerTransferRequest back to back, a file
    connection per ticket, both serving honest bytes).  desc: {'src': [seed, n], 'local0': m | None, 'plan': {...}}.
    The property must hold whatever the peer does: the file stays a prefix of the remote file, COMPLETE only
    with the identical file; a second negotiation of the same transfer must not start."""
    seed, n = desc['src']
    src = pat(seed, n)
    l0 = desc.get('local0')
    tr = side.new_download(src[:l0] if l0 is not None else None, None, desc.get('listener'))
    findings = []
    wit = {'kind': 'dd', 'desc': desc}
    try:
        o = side.download_double(tr, src, desc.get('plan', {}))
    finally:
        side.forget(tr)
    after = o['after']
    if after != src[:len(after)]:
        findings.append(Finding('double-negotiation-file-not-prefix', f'two negotiations of one download at once: the local file ({len(after)} B) is not a prefix of the '
                                f'remote file ({n} B)', wit, observed=len(after), expected=f'prefix of {n}'))
    if o['state'] == 'COMPLETE' and after != src:
        findings.append(Finding('double-negotiation-complete-but-file-differs', f'two negotiations of one download at once: COMPLETE with a {len(after)} B file that differs from '
                                f'the remote file ({n} B)', wit, observed=len(after), expected=n))
    if o['state'] in ('DOWNLOADING', 'INITIALIZING') and not o['pending']:
        findings.append(Finding('double-negotiation-left-in-processing-state', f'ended {o["state"]} with no task', wit, observed=o['state'], expected='terminal state'))
    return o, findings


def ustate_code(o) -> int:
    st = o['state']
    if st == 'COMPLETE':
        return 0
    if st == 'FAILED' and o['fail_reason'] is None:
        return 1
    if st == 'QUEUED':
        return 2
    if st == 'UPLOADING' and o['stuck']:
        return 3
    if st == 'UPLOADING' and o['exc'] is not None:
        return 4
    if st == 'FAILED' and o['fail_reason'] == 'File read error.':
        return 5
    return 99


def run_ucase(side: H.Side, desc: dict):
    """desc: {'src': [seed, n], 'fsz': int | 'src', 'off': int | None | ['partial', nbytes], 'kbps', 'cut', 'pc': bool, 'close': 'eof'|'reset'}"""
    seed, n = desc['src']
    src = pat(seed, n)
    fsz = n if desc['fsz'] == 'src' else desc['fsz']
    off = desc['off']
    if off is None:
        ob = None
    elif isinstance(off, list):
        ob = struct.pack('<Q', 5)[:off[1]]
    else:
        ob = struct.pack('<Q', off)
    o = side.upload_attempt(src, fsz, ob, kbps=desc.get('kbps', 0), cut=desc.get('cut'), peer_closes=desc.get('pc', True),
                            close_kind=desc.get('close', 'eof'), osplit=desc.get('osplit'), msg_mode=desc.get('msg'),
                            backpressure=desc.get('bp'), cut_mode=desc.get('cut_mode', 'error'))
    findings = []
    wit = {'kind': 'u', 'desc': desc}
    o_int = off if isinstance(off, int) else None
    wire = o['wire']
    expect_tail = src[o_int:] if o_int is not None and o_int <= n else b''
    if wire != expect_tail[:len(wire)]:
        findings.append(Finding('upload-sent-bytes-not-from-offset', f'bytes on the wire are not the file content from offset {o_int}', wit,
                                observed=len(wire), expected=f'prefix of {len(expect_tail)} bytes from the offset'))
    if o['state'] == 'COMPLETE':
        if o_int is None or wire != expect_tail or not desc.get('pc', True) or o_int + len(wire) != fsz:
            findings.append(Finding('upload-complete-unsound', 'upload COMPLETE although not every byte from the offset was sent / peer did not close', wit,
                                    observed=len(wire), expected=len(expect_tail)))
    if o['state'] == 'UPLOADING' and o['failmsg']:
        findings.append(Finding('upload-UPLOADING-after-reported-failure', 'the file connection failed (PeerUploadFailed was attempted) but the upload is still UPLOADING: '
                                f'the notification {"raised" if o["exc"] else "is still pending"} and the state change never happened; the slot stays taken and '
                                're-queue requests of the downloader are ignored', wit, observed=f'UPLOADING (exc={o["exc"]}, task pending={o["stuck"]})', expected='FAILED'))
    elif o['state'] == 'UPLOADING' and not o['stuck']:
        if o_int is not None and o_int >= 2 ** 63 and o['exc'] == 'ValueError':
            findings.append(Finding(K_F13C, 'offset >= 2^63 from the downloader: seek raises ValueError (not OSError), the upload stays UPLOADING with no task '
                                    'and keeps its slot', wit, observed='UPLOADING, task dead', expected='FAILED'))
        else:
            findings.append(Finding('upload-left-in-processing-state', f'upload ended in UPLOADING (exc={o["exc"]})', wit, observed='UPLOADING', expected='terminal state'))
    m = len(wire)
    att = {'src': [seed, n], 'fsz': fsz, 'off': o_int, 'grant': H.GRANT_UNLIMITED if desc.get('kbps', 0) == 0 else H.GRANT_LIMITED,
           'cut': desc.get('cut'), 'pc': desc.get('pc', True), 'osp': desc.get('osplit'), 'msg_ok': desc.get('msg') is None,
           'exp': (ustate_code(o), [seed, n, min(o_int or 0, n), m], o['bt'], o['failmsg']), 'state': o['state']}
    return att, findings


# ---------------------------------------------------------------------------------------------
# two real clients
# ---------------------------------------------------------------------------------------------

def run_pair(desc: dict):
    """desc: {'src': [seed, n], 'faults': [[kind, k] | None ...], 'kbps_down', 'kbps_up', 'local0': m | None, 'horizon': seconds}
    Returns (snapshot, findings)."""
    seed, n = desc['src']
    src = pat(seed, n)
    local0 = src[:desc['local0']] if desc.get('local0') is not None else None
    faults = [tuple(f) if f else None for f in desc.get('faults', [])]
    P = H.Pair(src, faults, kbps_down=desc.get('kbps_down', 0), kbps_up=desc.get('kbps_up', 0), local0=local0,
               lat_p=desc.get('lat_p', 0.02), lat_f=desc.get('lat_f', 0.02), bp=desc.get('bp'))
    findings = []
    wit = {'kind': 'p', 'desc': desc}
    try:
        P.start()
        P.begin_download()
        if desc.get('script'):
            P.run_script(desc['script'], desc.get('horizon', 3000))
        else:
            P.run(desc.get('horizon', 3000))
        snap = P.snapshot()
        unhandled = [str(c.get('exception') or c.get('message'))[:200] for c in P.loop.unhandled]
    finally:
        P.close()
    f = snap['file']
    # safety
    if snap['dl'] == 'COMPLETE' and f != src:
        findings.append(Finding('pair-complete-but-file-differs', 'download COMPLETE but the local file differs from the source', wit,
                                observed=len(f), expected=n))
    if f != src[:len(f)]:
        findings.append(Finding('pair-file-not-prefix', 'the local file is not a prefix of the source file', wit, observed=len(f), expected=f'prefix of {n}'))
    # liveness: faults are finite, the horizon is long after the last one
    done = snap['dl'] == 'COMPLETE' and snap['up'] == 'COMPLETE'
    if not done:
        injected = P.breaks
        shape = (snap['dl'], snap['dl_reason'], snap['dl_rq'], snap['up'])
        start_len = len(local0) if local0 is not None else 0
        if f == src and snap['dl'] != 'COMPLETE' and snap['dl_reason'] is None:
            findings.append(Finding(K_F12, 'pair of real clients, nothing left to receive (0-byte file or local file already complete): every attempt ends by the '
                                    "downloader's 180 s read timeout; the pair repeats this forever and the download never becomes COMPLETE", wit,
                                    observed=shape + (snap['attempts'],), expected='both COMPLETE'))
        elif injected > 0 and snap['dl'] == 'FAILED' and snap['dl_reason'] == 'Cancelled' and any(fl and fl[0] == 'eof' for fl in faults):
            findings.append(Finding(K_N1, 'file connection closed (EOF) before the end: the download becomes FAILED/Cancelled and is never retried by either side '
                                    '(the upload is COMPLETE or FAILED); the pair does not finish without user action', wit,
                                    observed=shape, expected='both COMPLETE'))
        else:
            findings.append(Finding('pair-does-not-finish', f'after the faults stopped the pair did not finish: {shape}, file {len(f)}/{n} bytes', wit,
                                    observed=shape, expected='both COMPLETE'))
    snap['unhandled'] = unhandled
    snap['file'] = len(f)
    return snap, findings


# ---------------------------------------------------------------------------------------------
# Coq text
# ---------------------------------------------------------------------------------------------

def z_(x):
    return f'({x})' if x < 0 else str(x)


def spec_(sp):
    return '(' + ', '.join(z_(v) for v in sp) + ')'


def optz(x):
    return 'None' if x is None else f'(Some {z_(x)})'


def zlist(xs):
    return '[' + '; '.join(z_(x) for x in xs) + ']'


def rle(xs):
    out = []
    for x in xs:
        if out and out[-1][0] == x:
            out[-1][1] += 1
        else:
            out.append([x, 1])
    return '[' + '; '.join(f'({z_(v)}, {c})' for v, c in out) + ']'


HEADER = ('From Coq Require Import ZArith List Bool.\nFrom Slsk Require Import C04.Model.\n'
          'Import ListNotations.\nOpen Scope Z_scope.\n')


def coq_dcases(rows):
    """rows: list of (id, local0 spec | None, attempts); the most frequent (seed, total) pattern of a
    case is its main pattern (generated once on the Coq side).  Z numerals only."""
    out = [HEADER, 'Definition cases : list dcase := [']
    items = []
    for cid, l0, atts in rows:
        ss = []
        for a in atts:
            st, off, wire, bt, reads, lsp = a['exp']
            exp = f'({st}, {optz(off)}, ({len(wire)}, {int.from_bytes(wire, "little")}), {bt}, {rle(reads)}, [{"; ".join(spec_(x) for x in lsp)}])'
            ss.append(f'({optz(a["a"])}, {"true" if a["ok"] else "false"}, {spec_(a["spec"])}, {TCODE[a["term"]]}, {a["grant"]}, {zlist(a["segs"])}, {exp})')
        pats = [tuple(a['spec'][:2]) for a in atts] + ([tuple(l0[:2])] if l0 is not None else [])
        main = max(set(pats), key=lambda x: (pats.count(x), x[1]))
        items.append(f' ({cid}, ({main[0]}, {main[1]}), [{spec_(l0) if l0 is not None else ""}], [{"; ".join(ss)}])')
    out.append(';\n'.join(items))
    out.append('].\nEval vm_compute in (bad_d cases).\n')
    return '\n'.join(out)


def coq_ucases(rows):
    out = [HEADER, 'Definition cases : list ucase := [']
    items = []
    for cid, a in rows:
        st, wsp, bt, fm = a['exp']
        items.append(f' ({cid}, ({a["src"][0]}, {a["src"][1]}), {a["fsz"]}, {optz(a["off"])}, {a.get("osp") or 0}, {"true" if a.get("msg_ok", True) else "false"}, {a["grant"]}, {optz(a["cut"])}, '
                     f'{"true" if a["pc"] else "false"}, ({st}, {spec_(wsp)}, {bt}, {"true" if fm else "false"}))')
    out.append(';\n'.join(items))
    out.append('].\nEval vm_compute in (bad_u cases).\n')
    return '\n'.join(out)


def pair_row(cid, desc, snap):
    """The observed pair run as a case for Model.pair_run: the faults as the DOWNLOADER saw them
    (bytes that reached the file before each break = difference of successive offsets)."""
    offs = snap['offsets']
    if not offs or any(o is None for o in offs):
        return None
    n = desc['src'][1]
    l0 = desc.get('local0') or 0
    flen = snap['file']
    faults = []
    for i, o in enumerate(offs):
        nxt = offs[i + 1] if i + 1 < len(offs) else flen
        if snap['broken'][i]:
            faults.append((2 if snap['kinds'][i] == 'eof' else 1, nxt - o))
        elif i + 1 < len(offs):
            faults.append((1, nxt - o))      # an attempt that ended without an injected break and was retried
    st = {'COMPLETE': 0, 'INCOMPLETE': 1}.get(snap['dl'], 2 if (snap['dl'] == 'FAILED' and snap['dl_reason'] == 'Cancelled') else 99)
    return (cid, desc['src'], l0, faults, (flen, st, len(offs)))


def coq_pcases(rows):
    out = [HEADER, 'Definition cases : list pcase := [']
    items = []
    for cid, src, l0, faults, (flen, st, att) in rows:
        fl = '[' + '; '.join(f'({k}, {z_(c)})' for k, c in faults) + ']'
        items.append(f' ({cid}, ({src[0]}, {src[1]}), {l0}, {fl}, ({flen}, {st}, {att}))')
    out.append(';\n'.join(items))
    out.append('].\nEval vm_compute in (bad_p cases).\n')
    return '\n'.join(out)


def parse_bad(out):
    vals = parse_eval(out)
    if not vals:
        return None
    return [[int(x) for x in re.findall(r'-?\d+', grp)] for grp in re.findall(r'\[([0-9; ()\-]*)\]', vals[0].replace('%Z', '')) if grp.strip()]


# ---------------------------------------------------------------------------------------------
# generators
# ---------------------------------------------------------------------------------------------

def seg_style(rng, n, grant):
    r = rng.random()
    if n <= 1 or r < 0.2:
        return [max(n, 1)]
    if r < 0.35 and n <= 400:
        return [1]
    if r < 0.55:
        return [rng.choice([grant - 1, grant, grant + 1, 2 * grant + 1])]
    return [rng.randrange(1, max(2, min(n, 3 * grant))) for _ in range(rng.randrange(1, 6))]


def gen_kbps(rng):
    return rng.choice([0, 0, 0, 20, 100])


def honest_chain(rng, n, faults, local0_len=None, seed=None):
    seed = rng.randrange(0, 251) if seed is None else seed
    sessions = []
    for f in faults + [None]:
        kbps = gen_kbps(rng)
        grant = 8192 if kbps == 0 else 128
        if f is None:
            sender = ['honest', None, 'timeout']
        else:
            sender = ['honest', f[1], f[0]]
        sessions.append({'a': 'src', 'ok': True, 'kbps': kbps, 'sender': sender, 'segs': seg_style(rng, n, grant)})
    return {'src': [seed, n], 'local0': ([seed, n, 0, local0_len] if local0_len is not None else None), 'sessions': sessions}


def gen_dchains(run: Run):
    rng = run.rng
    chains = []
    # every cut point of the small sizes, both kinds, then a fault-free attempt
    for n in SMALL:
        for k in range(0, n + 1):
            for kind in ('reset', 'eof'):
                chains.append(('cut-all', honest_chain(rng, n, [(kind, k)])))
    # large sizes: boundary and random cuts, one or two faults
    ncut = 3 if run.tier == 'quick' else 40
    for n in LARGE:
        pool = [0, 1, 127, 128, 129, 8191, 8192, 8193, 16384, n - 1, n]
        for _ in range(ncut):
            faults = []
            for _ in range(rng.choice([1, 1, 2, 3])):
                k = rng.choice(pool) if rng.random() < 0.6 else rng.randrange(0, n + 1)
                faults.append((rng.choice(['reset', 'eof', 'reset']), min(k, n)))
            chains.append(('cut-large', honest_chain(rng, n, faults)))
    # repeated faults on small and medium sizes, resumed local files (also already complete ones)
    nrep = 30 if run.tier == 'quick' else 600
    for _ in range(nrep):
        n = rng.choice(SMALL + [300, 1000, 8191, 8193])
        faults = [(rng.choice(['reset', 'eof', 'timeout']), rng.randrange(0, n + 1)) for _ in range(rng.randrange(0, 5))]
        l0 = rng.choice([None, None, 0, n, rng.randrange(0, n + 1)])
        chains.append(('repeat', honest_chain(rng, n, faults, local0_len=l0)))
    # a progress counter that disagrees with the file on disk (cache written mid-transfer then a restart;
    # a chunk written while the task was being cancelled): the offset must still be the FILE size
    for n, l0, bt0 in [(129, 64, 10), (129, 64, 200), (8193, 8192, 128), (300, 300, 7), (300, 0, 5), (129, 100, 129)]:
        c = honest_chain(rng, n, [('reset', 20)], local0_len=l0)
        c['bt0'] = bt0
        chains.append(('stale-counter', c))
    for _ in range(6 if run.tier == 'quick' else 60):
        n = rng.choice([129, 300, 8193])
        l0 = rng.randrange(0, n + 1)
        c = honest_chain(rng, n, [(rng.choice(['reset', 'eof']), rng.randrange(0, n + 1))], local0_len=l0)
        c['bt0'] = rng.choice([1, l0 // 2 + 1, l0 + 1, n, n + 3])
        chains.append(('stale-counter', c))
    # surplus bytes in the SAME read as the last legitimate bytes (and in a later read)
    for n, l0n, extra, kbps in [(1, None, 1, 0), (128, None, 5, 20), (128, 100, 1, 0), (300, 0, 8192, 0), (8192, None, 1, 0), (200, 72, 3, 20),
                                (129, 1, 127, 20)]:
        k = n - (l0n or 0) + extra
        for segs in ([k], [n - (l0n or 0), extra]):
            chains.append(('dishonest-more', {'src': None, 'local0': ([11, max(l0n, 1), 0, l0n] if l0n is not None else None),
                                             'sessions': [{'a': n, 'ok': True, 'kbps': kbps, 'sender': ['raw', [29, k + 3, 1, k], 'timeout'], 'segs': segs}]}))
    # the name of the local file: remote names with glob / regex metacharacters, earlier downloads of equally named
    # files already in the download directory (the plain name and numbered copies): a fresh file must be chosen
    for name in ['song [live].mp3', 'a*b?.bin', 'x[1-3] (demo).dat', 'plain.mp3', 'dots...(1).x', 'x (1).mp3']:
        stem, ext = name.rsplit('.', 1)
        for ncopies in (0, 1, 2, 3):
            ex = ([[name, [9, 50, 0, 7]]] if ncopies else []) + [[f'{stem} ({i}).{ext}', [9, 50, i, 5 + i]] for i in range(1, ncopies)]
            c = honest_chain(rng, rng.choice([1, 129, 300]), [(rng.choice(['reset', 'eof']), rng.randrange(0, 100))] if rng.random() < 0.5 else [])
            c['name'] = name
            c['existing'] = ex
            chains.append(('naming', c))
    # helpers: a late registered state listener that suspends inside every transition
    for n, faults in [(129, [('reset', 64)]), (8193, [('eof', 8192), ('reset', 1)]), (300, []), (0, [])]:
        c = honest_chain(rng, n, faults)
        c['listener'] = 'suspend'
        chains.append(('slow-listener', c))
    # dishonest senders
    ndis = 50 if run.tier == 'quick' else 1200
    for _ in range(ndis):
        n = rng.choice([0, 1, 2, 127, 128, 129, 300, 8192, 8193])
        seed = rng.randrange(0, 251)
        l0n = rng.choice([None, 0, 1, n // 2, n, n + 1, n + 5])
        kind = rng.choice(['fewer', 'more', 'more', 'garbage-after-complete', 'nosize', 'nosend', 'huge'])
        kbps = gen_kbps(rng)
        grant = 8192 if kbps == 0 else 128
        base = (l0n or 0)
        rem = max(n - base, 0)
        a = n
        ok = True
        if kind == 'fewer':
            k = rng.randrange(0, rem + 1)
        elif kind == 'more':
            k = rem + rng.choice([1, 2, grant - 1, grant, grant + 1, 3 * grant])
        elif kind == 'garbage-after-complete':
            k = rng.choice([1, 5, grant + 1])
        elif kind == 'nosize':
            a, k = None, rng.choice([0, 5])
        elif kind == 'nosend':
            ok, k = False, 0
        else:
            a, k = rng.choice([2 ** 32, 2 ** 40 + 1, 2 ** 63, 2 ** 64 - 1]), rng.choice([0, 1, 300])
        s2 = (seed + 97) % 251
        sess = {'a': a, 'ok': ok, 'kbps': kbps, 'sender': ['raw', [s2, k + 3, 1, k], rng.choice(['eof', 'reset', 'timeout'])],
                'segs': seg_style(rng, max(k, 1), grant)}
        sessions = [sess]
        if rng.random() < 0.5 and kind in ('fewer', 'more'):
            # a second attempt by an honest-looking sender after the dishonest one
            sessions.append({'a': a, 'ok': True, 'kbps': 0, 'sender': ['raw', [s2, 40, 0, rng.randrange(0, 40)], 'timeout'], 'segs': [7]})
        chains.append(('dishonest-' + kind, {'src': None, 'local0': ([seed, max(l0n, 1), 0, l0n] if l0n is not None else None), 'sessions': sessions}))
    return chains


def gen_ucases(run: Run):
    rng = run.rng
    out = []
    for n in SIZES:
        offs = sorted({0, 1, n // 2, max(n - 1, 0), n, n + 1, n + 1000})
        for off in offs:
            out.append({'src': [rng.randrange(251), n], 'fsz': 'src', 'off': off, 'kbps': gen_kbps(rng), 'cut': None, 'pc': True,
                        'close': rng.choice(['eof', 'reset'])})
        cuts = [0, 1, 127, 128, 129, 8192, 8193, n]
        for cut in cuts:
            off = rng.choice([0, 0, n // 3])
            out.append({'src': [rng.randrange(251), n], 'fsz': 'src', 'off': off, 'kbps': gen_kbps(rng), 'cut': cut, 'pc': rng.random() < 0.8,
                        'close': 'eof'})
    # backpressure: the receiver is slow, the transport keeps what it could not send BY REFERENCE (as asyncio's
    # selector transport does) and sends it later; every chunk must still leave as it was read
    for n in [129, 8193, 3 * 8192 + 5]:
        for kbps, bp in [(0, 0.05), (20, 0.5), (100, 3.0), (0, 0.0)]:
            out.append({'src': [rng.randrange(251), n], 'fsz': 'src', 'off': rng.choice([0, 0, n // 3]), 'kbps': kbps, 'cut': None,
                        'pc': True, 'close': 'eof', 'bp': bp})
    # the connection is LOST near the end of the upload as asyncio reports it: write() drops the data silently, only
    # drain() / the reader raise; every cut position of the last chunks, small (limited) and large (unlimited) grants
    for n, kbps, grant in [(12 * 128, 20, 128), (20 * 128 + 5, 100, 128), (9 * 8192 + 3, 0, 8192)]:
        nch = -(-n // grant)
        for j in range(max(1, nch - 9), nch):
            out.append({'src': [rng.randrange(251), n], 'fsz': 'src', 'off': 0, 'kbps': kbps, 'cut': j * grant, 'pc': True, 'close': 'reset',
                        'cut_mode': 'lost'})
    # the file connection breaks AND the message connection is broken / slow / gone as well: the failure
    # notification itself fails
    for n, cut in [(20000, 8192), (20000, 0), (300, 0), (24581, 16384)]:
        for msg in ('raise', 'hang', 'peer-gone'):
            out.append({'src': [rng.randrange(251), n], 'fsz': 'src', 'off': rng.choice([0, 5]), 'kbps': rng.choice([0, 20]), 'cut': cut,
                        'pc': rng.random() < 0.5, 'close': 'eof', 'msg': msg})
    # the 8 offset bytes arrive in two segments: every split position, offsets with several non-zero bytes
    for n, off, sps in [(1000, 258, range(1, 8)), (1000, 513, (1, 4)), (66100, 66051, (1, 2, 3))]:
        for sp in sps:
            out.append({'src': [rng.randrange(251), n], 'fsz': 'src', 'off': off, 'kbps': 0, 'cut': None, 'pc': True, 'close': 'eof', 'osplit': sp})
    nrand = 30 if run.tier == 'quick' else 400
    for _ in range(nrand):
        n = rng.choice(SIZES + [300, 1000])
        kind = rng.choice(['nooffset', 'partial', 'bigoff', 'wrongsize', 'stuck', 'rand'])
        d = {'src': [rng.randrange(251), n], 'fsz': 'src', 'off': rng.randrange(0, n + 2), 'kbps': gen_kbps(rng),
             'cut': rng.choice([None, None, rng.randrange(0, n + 2)]), 'pc': True, 'close': rng.choice(['eof', 'reset'])}
        if kind == 'nooffset':
            d['off'] = None
        elif kind == 'partial':
            d['off'] = ['partial', rng.randrange(1, 8)]
        elif kind == 'bigoff':
            d['off'] = rng.choice([2 ** 32, 2 ** 40, 2 ** 63, 2 ** 63 + 5, 2 ** 64 - 1])
        elif kind == 'wrongsize':
            d['fsz'] = max(0, n + rng.choice([-1, 1, 100]))
        elif kind == 'stuck':
            d['pc'] = False
        out.append(d)
    return out


def gen_dbl(run: Run):
    rng = run.rng
    out = []
    for n in [1, 129, 300, 8193] + ([3 * 8192 + 5] if run.tier != 'quick' else []):
        for plan in ({'first': n // 3}, {'first': n // 3, 'open_b_first': True}, {'first': 0, 'order': 'BA'}, {'first': n, 'order': 'AB'},
                     {'first': rng.randrange(0, n + 1), 'order': rng.choice(['AB', 'BA']), 'open_b_first': rng.random() < 0.5}):
            out.append({'src': [rng.randrange(251), n], 'local0': rng.choice([None, None, 0, n // 2]), 'plan': plan})
    out.append({'src': [rng.randrange(251), 300], 'local0': None, 'plan': {'first': 100, 'open_b_first': True}, 'listener': 'suspend'})
    out.append({'src': [rng.randrange(251), 8193], 'local0': 10, 'plan': {'first': 0, 'order': 'BA'}, 'listener': 'suspend'})
    return out


def gen_pairs(run: Run):
    rng = run.rng
    out = []
    # fault-free, all sizes
    for n in (SIZES if run.tier != 'quick' else [0, 1, 129, 8192, 3 * 8192 + 5]):
        out.append({'src': [rng.randrange(251), n], 'faults': [], 'kbps_down': rng.choice([0, 0, 50]), 'kbps_up': rng.choice([0, 0, 50])})
    # resumed local file (as after a restart), also already complete
    for n in ([1, 129, 8193] if run.tier != 'quick' else [129]):
        for l0 in sorted({0, n // 2, n}):
            out.append({'src': [rng.randrange(251), n], 'faults': [], 'local0': l0})
    # slow receiver: the uploader's transport keeps unsent chunks by reference
    for n, kd, ku, bp in [(3 * 8192 + 5, 20, 0, 0.3), (70000, 0, 0, 0.05)] + ([(70000, 50, 100, 1.0)] if run.tier != 'quick' else []):
        out.append({'src': [rng.randrange(251), n], 'faults': [], 'kbps_down': kd, 'kbps_up': ku, 'bp': bp})
    # helpers: user calls that cancel the transfer task inside a helper (pause while a chunk is in flight, then
    # queue again), and limiter objects replaced as a whole while the transfer runs
    N4 = 3 * 8192 + 5
    scripts = [
        [[0.5, 'pause', None], [3.0, 'queue', None]],
        [[0.3, 'limit_down', 5], [1.0, 'limit_down', 0], [1.2, 'limit_up', 10], [2.0, 'limit_up', 0]],
        [[0.4, 'pause_up', None], [2.0, 'queue_up', None]],
        [[0.2, 'pause', None], [0.6, 'limit_down', 0], [2.0, 'queue', None], [2.3, 'pause', None], [5.0, 'queue', None]],
    ]
    for sc in (scripts if run.tier != 'quick' else scripts[:3]):
        out.append({'src': [rng.randrange(251), N4], 'faults': [], 'kbps_down': 20, 'kbps_up': 20, 'script': sc})
    # cuts
    ncut = 12 if run.tier == 'quick' else 200
    for _ in range(ncut):
        n = rng.choice([1, 129, 8193, 3 * 8192 + 5, 3 * 8192 + 5])
        nf = rng.choice([1, 1, 2, 3])
        kinds = ['reset'] if rng.random() < 0.7 else ['reset', 'eof']
        faults = []
        for _ in range(nf):
            faults.append([rng.choice(kinds), rng.choice([0, 1, 128, 8192, 8193, 16384, max(n - 1, 0), rng.randrange(0, n + 1)]) % (n + 1)])
        # different one-way delays of the message connection and the file connection: the control messages
        # (PeerUploadFailed, PeerTransferQueue, PeerTransferRequest) overtake / are overtaken by the break
        out.append({'src': [rng.randrange(251), n], 'faults': faults, 'kbps_down': rng.choice([0, 0, 100]), 'kbps_up': rng.choice([0, 0, 100]),
                    'lat_p': rng.choice([0.001, 0.02, 0.02, 0.3, 2.0]), 'lat_f': rng.choice([0.001, 0.02, 0.02, 0.3, 2.0])})
    return out


# ---------------------------------------------------------------------------------------------
# entry points
# ---------------------------------------------------------------------------------------------

KNOWN_KEYS = {K_F12, K_F13, K_F13B, K_F13C, K_N1}


def run_witness(side, wit):
    kind = wit.get('kind')
    if kind == 'd':
        return run_dchain(side, wit['desc'])[1]
    if kind == 'u':
        return run_ucase(side, wit['desc'])[1]
    if kind == 'dd':
        return run_dbl(side, wit['desc'])[1]
    if kind == 'p':
        import asyncio
        try:
            return run_pair(wit['desc'])[1]
        finally:
            asyncio.set_event_loop(side.loop)   # the pair ran on its own loop
    return []


def run(run: Run):
    run.rule = ('(a) download chains on one real transfer: file sizes {0,1,127,128,129,8191,8192,8193,3*8192+5}; every cut point k in 0..n '
                '(reset and EOF) for n <= 129, boundary + random cuts for the large sizes, 0-4 repeated faults before a fault-free attempt, '
                'resumed local files (empty / partial / already complete), delivery segmentations (one piece, byte by byte, grant-1/grant/grant+1, random), '
                'unlimited and limited (128-byte grants) downloads; dishonest senders (fewer/more bytes than announced, bytes after a complete local file, '
                'no size, huge size, offset not sendable); (b) upload attempts: offsets 0..n+1000 and >= 2^63, no/partial offset, write failures after k bytes, '
                'peer closing by EOF/reset/never, wrong announced size, the 8 offset bytes split at every position, the failure notification raising / hanging / peer gone, a slow receiver with a transport that keeps unsent chunks by reference; '
                '(b2) one download negotiated twice at once (two requests back to back, a file connection per ticket, overlapping receptions); (c) two real clients with cuts on the file connection. '
                'distinct = distinct case description; non-trivial = at least one fault/dishonesty or more than one read')
    run.trusted += ['aiofiles runs on the inline executor of vlib.vloop (no thread interleavings)',
                    'fake transport: a write is delivered at once and completely (infinite send buffer); write failures at chunk granularity']
    run.assumptions += ['the source file does not change between queueing and the end of the upload',
                        'only this client writes the local download file',
                        'offsets in [2^44, 2^63) (beyond the file system limit, where read() fails with OSError) are not modelled',
                        'the order of control messages vs. the file connection is explored by the pair runs only (partial for that quantifier)']
    import asyncio
    import threading
    import time as _time
    from vlib.common import log
    _t0 = _time.time()
    # the Coq build runs beside the implementation runs (both only wait for each other at the join)
    # Stage 1 (beside the single-side runs): regenerate gen/C04Gen.v and build Props.vo, so that the
    # model can be evaluated.  Stage 2 (beside the evaluation and the pair runs): run.prove = the same
    # build again (no-op) + lint + Print Assumptions, which records the obligations.
    def build_first():
        try:
            from vlib import common as _c
            _c.build(['tr_c04'], ['theories/C04/Props.vo'])
        except BrokenTie:
            pass                      # reported by run.prove below
        except Exception as e:        # never fail open
            run.add_broken('build crashed', f'{type(e).__name__}: {e}')

    def prove():
        try:
            run.prove(['tr_c04'])
        except Exception as e:        # never fail open
            run.add_broken('prove crashed', f'{type(e).__name__}: {e}')

    # Is the tie intact?  (pure Python, milliseconds.)  When the translator refuses or a pinned function /
    # helper changed, the directed search is the LONG one: thorough-size generators (more cuts, segmentations,
    # dishonest senders, pair runs with cuts, scripts and delays), whatever tier was asked for.
    try:
        from translate import tr_c04
        from vlib.common import SRC as _SRC
        gen_text = tr_c04.translate(_SRC)['C04Gen.v']
        gu = int(re.search(r'grant_unlimited : Z := (\d+)', gen_text).group(1))
        gl = int(re.search(r'grant_limited : Z := (\d+)', gen_text).group(1))
        if (gu, gl) != (H.GRANT_UNLIMITED, H.GRANT_LIMITED):
            raise BrokenTie('harness constants', f'rate limiter grants {gu}/{gl} differ from the harness constants')
        tie_ok = True
    except Exception as e:
        tie_ok = False
        log(f'[C04] tie broken ({type(e).__name__}: {str(e)[:200]}): running the long directed search')
        run.notes.append('tie broken: long directed search (thorough-size generators) was run')
    asked_tier = run.tier
    if not tie_ok:
        run.tier = 'thorough'
    builder = threading.Thread(target=build_first)
    builder.start()

    side = H.Side()
    try:
        # 1. listed findings are replayed first (deterministic KNOWN-FINDING lines)
        for key, wits, fixed in run.known_witnesses():
            for wit in (wits if isinstance(wits, list) else [wits]):
                try:
                    fs = run_witness(side, wit)
                except Exception as e:      # the implementation (or the harness) crashed on a stored witness
                    fs = [Finding('witness-replay-exception', f'{key}: {type(e).__name__}: {e}', wit)]
                run.case({'corpus': key, 'w': wit}, kind='known-witness')
                for f in fs:
                    run.add_finding(f)

        # 2. downloads
        chains = gen_dchains(run)
        drows = []
        for cid, (kind, desc) in enumerate(chains):
            try:
                atts, fs = run_dchain(side, desc)
            except Exception as e:  # harness or implementation crashed on this input
                run.add_finding(Finding('download-harness-exception', f'{type(e).__name__}: {e}', {'kind': 'd', 'desc': desc}))
                continue
            for f in fs:
                run.add_finding(f)
            atts = [a for a in atts if not a.get('skipped')]
            nontrivial = kind.startswith('dishonest') or sum(len(a['exp'][4]) for a in atts) > 0
            run.case(desc, nontrivial=bool(nontrivial), kind='d:' + kind)
            run.count('download-attempts', len(atts))
            if atts:
                drows.append((cid, desc.get('local0'), atts))

        # 3. uploads
        ucases = gen_ucases(run)
        urows = []
        for cid, desc in enumerate(ucases):
            try:
                att, fs = run_ucase(side, desc)
            except Exception as e:
                run.add_finding(Finding('upload-harness-exception', f'{type(e).__name__}: {e}', {'kind': 'u', 'desc': desc}))
                continue
            for f in fs:
                run.add_finding(f)
            run.case(desc, kind='u')
            urows.append((cid, att))

        # 3b. one download negotiated twice at once
        for desc in gen_dbl(run):
            try:
                _, fs = run_dbl(side, desc)
            except Exception as e:
                run.add_finding(Finding('double-negotiation-harness-exception', f'{type(e).__name__}: {e}', {'kind': 'dd', 'desc': desc}))
                continue
            for f in fs:
                run.add_finding(f)
            run.case(desc, kind='dd')
        unhandled = [str(c.get('exception') or c.get('message'))[:160] for c in side.loop.unhandled]
    finally:
        side.close()

    log(f'[C04] single-side runs done {_time.time()-_t0:.1f}s')
    builder.join()
    log(f'[C04] build done {_time.time()-_t0:.1f}s')
    prover = threading.Thread(target=prove)
    prover.start()
    # 4. model vs implementation
    # few, large shards: every coqc process pays the start-up of the standard library once
    texts, index = [], []

    def shards(rows, render, weight, limit=70000, maxn=400):
        cur, size = [], 0
        for r in rows:
            w = weight(r)
            if cur and (size + w > limit or len(cur) >= maxn):
                yield render(cur)
                cur, size = [], 0
            cur.append(r)
            size += w
        if cur:
            yield render(cur)

    big = lambda n: 4000 if n > 2000 else 0   # evaluation cost of long byte lists counted as text
    for t in shards(drows, coq_dcases, lambda r: len(coq_dcases([r])) - 150 + sum(big(a['spec'][1]) for a in r[2])):
        texts.append(t)
        index.append('d')
    for t in shards(urows, coq_ucases, lambda r: len(coq_ucases([r])) - 150 + big(r[1]['src'][1])):
        texts.append(t)
        index.append('u')
    run.cov['coq_case_files'] = len(texts)
    def evaluate():
        nbad = 0
        try:
            outs = coq_eval_many('c04', texts, timeout=600)
            for kind, out in zip(index, outs):
                bad = parse_bad(out)
                if bad is None:
                    raise BrokenTie('correspondence:C04', 'no output from a shard')
                for b in bad:
                    nbad += 1
                    if nbad <= 3:
                        if kind == 'd':
                            cid, k = b[0], b[1]
                            row = next(r for r in drows if r[0] == cid)
                            att = row[2][k]
                            run.add_broken('correspondence:C04 download_session vs _initialize_download/_download_file/receive_file',
                                           f'case {chains[cid][0]} {chains[cid][1]} attempt {k}: impl (state,offset,wire,bt,reads,file)={att["exp"][0:2] + att["exp"][3:5]} '
                                           f'model (state,bt,len)={b[2:]}')
                        else:
                            cid = b[0]
                            att = next(r for r in urows if r[0] == cid)[1]
                            run.add_broken('correspondence:C04 upload_session vs _initialize_upload/_upload_file/send_file',
                                           f'case {ucases[cid]}: impl (state,wire,bt,failmsg)={att["exp"]} model (state,bt,len)={b[1:]}')
            run.cov['traces_validated_against_impl'] = sum(len(r[2]) for r in drows) + len(urows) - nbad
        except BrokenTie as e:
            run.add_broken(e.obligation, e.detail)
        except Exception as e:   # never fail open
            run.add_broken('correspondence:C04 evaluation crashed', f'{type(e).__name__}: {e}')

    evaluator = threading.Thread(target=evaluate)
    evaluator.start()

    # 5. two real clients
    pdescs = gen_pairs(run)
    prows = []
    for pid, desc in enumerate(pdescs):
        try:
            snap, fs = run_pair(desc)
        except Exception as e:
            run.add_finding(Finding('pair-harness-exception', f'{type(e).__name__}: {e}', {'kind': 'p', 'desc': desc}))
            continue
        for f in fs:
            run.add_finding(f)
        run.case(desc, nontrivial=bool(desc.get('faults')) or desc['src'][1] > 8192, kind='pair')
        run.count('pair:' + snap['dl'] + '/' + str(snap['up']))
        row = pair_row(pid, desc, snap)
        if row is not None:
            prows.append(row)
    # the pair runs against Model.pair_run (retry policy): file length and bytes, final state, number of attempts
    try:
        bad = parse_bad(coq_eval_many('c04p', [coq_pcases(prows)], timeout=600)[0]) if prows else []
        if bad is None:
            raise BrokenTie('correspondence:C04 pair_run', 'no output')
        for b in bad[:3]:
            row = next(r for r in prows if r[0] == b[0])
            run.add_broken('correspondence:C04 pair_run vs two real clients',
                           f'{pdescs[b[0]]}: impl faults-as-seen={row[3]} (file length, state, attempts)={row[4]} model={b[1:]}')
        run.cov['pair_runs_validated_against_model'] = len(prows) - len(bad)
    except BrokenTie as e:
        run.add_broken(e.obligation, e.detail)
    evaluator.join()
    prover.join()
    run.tier = asked_tier
    log(f'[C04] coq evaluation joined {_time.time()-_t0:.1f}s')
    if unhandled:
        run.notes.append('unhandled task exceptions seen by the loop (single side): ' + '; '.join(sorted(set(unhandled))[:5]))


def replay(rep) -> int:
    wit = rep['witness']
    side = H.Side()
    try:
        fs = run_witness(side, wit)
    finally:
        side.close()
    print('witness:', wit)
    for f in fs:
        print(f'FAILS {f.key}: {f.what} observed={f.observed} expected={f.expected}')
    return 1 if fs else 0
