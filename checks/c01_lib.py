"""Shared helpers of the C01 / C02 checks: layout access, value generators over the wire domain,
conversions Python object <-> JSON value <-> Coq literal, the pinned-layout reference encoder
(an independent, 60-line Python encoder driven only by pinned/layout.json), real-class lookup.

JSON form of a value (used in replay files and findings):
  int -> int, bool -> bool, str -> str, bytes -> {"hex": "..."}, ip -> str, None -> null,
  array -> list, record -> {"rec": [field values in declaration order]}
"""
from __future__ import annotations

import json
import struct
from pathlib import Path

from vlib import common

PINNED_FILE = common.VERIF / 'pinned' / 'layout.json'


def load_pinned() -> dict:
    return json.loads(PINNED_FILE.read_text())


# ----------------------------------------------------------------------------------------
# layout helpers (a layout = the dict produced by translate.tr_messages.layout)

def kind_of(lay: dict, t):
    """('int', w, signed) | ('bool',) | ('str',) | ('bytes',) | ('ip',) | ('ticket',) |
    ('array', elem_type) | ('rec', name)"""
    if isinstance(t, dict):
        return ('array', t['array'])
    if t in lay['primitives']:
        return tuple(lay['primitives'][t])
    if t in lay['records']:
        return ('rec', t)
    raise KeyError(t)


def msg_by_name(lay: dict) -> dict:
    return {m['name']: m for m in lay['messages']}


# ----------------------------------------------------------------------------------------
# pinned-layout reference encoder (independent of aioslsk and of the Coq model)

class OutOfDomain(Exception):
    pass


def ref_enc_type(lay: dict, t, v) -> bytes:
    k = kind_of(lay, t)
    if k[0] == 'int':
        w, sg = k[1], k[2]
        if isinstance(v, bool):
            v = int(v)
        lo, hi = (-(1 << (8 * w - 1)), (1 << (8 * w - 1))) if sg else (0, 1 << (8 * w))
        if not (lo <= v < hi):
            raise OutOfDomain(f'{v} not in {t}')
        return (v % (1 << (8 * w))).to_bytes(w, 'little')
    if k[0] == 'bool':
        return b'\x01' if v else b'\x00'
    if k[0] == 'str':
        b = v.encode('utf-8')
        return len(b).to_bytes(4, 'little') + b
    if k[0] == 'bytes':
        raw = bytes.fromhex(v['hex'])
        return len(raw).to_bytes(4, 'little') + raw
    if k[0] == 'ip':
        parts = [int(x) for x in v.split('.')]
        if len(parts) != 4 or not all(0 <= p < 256 for p in parts):
            raise OutOfDomain(v)
        return bytes(reversed(parts))
    if k[0] == 'ticket':
        return int(v).to_bytes(4, 'little')
    if k[0] == 'array':
        return len(v).to_bytes(4, 'little') + b''.join(ref_enc_type(lay, k[1], x) for x in v)
    if k[0] == 'rec':
        fs = lay['records'][k[1]]
        return b''.join(ref_enc_type(lay, ft, x) for (_, ft), x in zip(fs, v['rec']))
    raise AssertionError(k)


def ref_enc_msg(lay: dict, m: dict, vals: list, compress=None) -> bytes:
    """vals: JSON values in field order. Mirrors the documented layout: conditional fields only
    when their condition holds, None never sent, length + id header."""
    body = b''
    for f, v in zip(m['fields'], vals):
        if v is None:
            continue
        if f['cond'] is not None:
            ref = vals[f['cond'][0]]
            if bool(ref) != f['cond'][1]:
                continue
        body += ref_enc_type(lay, f['type'], v)
    if m['compressed']:
        body = compress(body)
    idb = m['id'].to_bytes(m['id_width'], 'little')
    return struct.pack('<I', len(idb) + len(body)) + idb + body


# ----------------------------------------------------------------------------------------
# generators

INT_EDGE = [0, 1, 2, 127, 128, 255, 256, 65535, 65536, (1 << 31) - 1, 1 << 31, (1 << 32) - 1, 1 << 32, (1 << 63), (1 << 64) - 1]
STR_POOL = ['\ufeffbom first', '\ufeff', 'x\ufeffy', '', 'a', 'test', 'Hello World', 'café', 'ü€\U0001d11e', '日本語', 'music\\album\\01 - song.mp3',
            '@@abc\\dir', '\x00', '\x7f\u0080߿ࠀ￿\U00010000\U0010ffff', 'x' * 127, 'y' * 128, ' ', '™Œ']


NONASCII_POOL = ['\ufeffÜber', 'é', 'café', 'ü€\U0001d11e', '日本語', 'Motörhead\\Ace of Spades\\01 - Ünïcode.mp3', '™Œ', 'Ж', '中' * 43]


def gen_value(rng, lay: dict, t, depth=0, edge=False, nonascii=False):
    k = kind_of(lay, t)
    if k[0] in ('int', 'ticket'):
        w, sg = (k[1], k[2]) if k[0] == 'int' else (4, False)
        lo, hi = (-(1 << (8 * w - 1)), (1 << (8 * w - 1)) - 1) if sg else (0, (1 << (8 * w)) - 1)
        r = rng.random()
        if edge or r < 0.5:
            pool = [x for x in INT_EDGE if lo <= x <= hi] + [hi, hi - 1, lo, lo + 1, hi // 2, hi // 2 + 1]
            if sg:
                pool += [-1, -2, -128, -129]
            return rng.choice(pool)
        return rng.randint(lo, hi)
    if k[0] == 'bool':
        return rng.random() < 0.5
    if k[0] == 'str':
        if nonascii:
            return rng.choice(NONASCII_POOL)
        if rng.random() < 0.7:
            return rng.choice(STR_POOL)
        n = rng.choice([1, 2, 5, 20, 60])
        return ''.join(rng.choice('abcXYZ 019_-.\\/éøЖ中') for _ in range(n))
    if k[0] == 'bytes':
        n = rng.choice([0, 1, 2, 16, 16, 40, 255, 256])
        return {'hex': bytes(rng.randrange(256) for _ in range(n)).hex()}
    if k[0] == 'ip':
        return rng.choice(['0.0.0.0', '255.255.255.255', '1.2.3.4', '127.0.0.1', '10.0.255.1',
                           '.'.join(str(rng.randrange(256)) for _ in range(4))])
    if k[0] == 'array':
        choices = [0, 1, 2, 3] if depth else [0, 0, 1, 1, 2, 3, 5, 9]
        n = rng.choice(choices)
        if nonascii:
            n = rng.choice([1, 2])
        return [gen_value(rng, lay, k[1], depth + 1, nonascii=nonascii) for _ in range(n)]
    if k[0] == 'rec':
        return {'rec': [gen_value(rng, lay, ft, depth + 1, nonascii=nonascii) for _, ft in lay['records'][k[1]]]}
    raise AssertionError(k)


def default_json(f: dict):
    d = f['default']
    if d == 'required':
        return 'required'
    return None if d == 'None' else d


def gen_message(rng, lay: dict, m: dict, mode='mixed'):
    """In-domain (canonical) field values of message m, JSON form, in field order.
    mode: 'full' every optional present | 'none' no optional present | 'mixed' random prefix"""
    fs = m['fields']
    vals = [None] * len(fs)
    # first pass: unconditional fields (conditions refer to earlier boolean fields)
    enabled = []
    for i, f in enumerate(fs):
        if f['cond'] is None:
            en = True
        else:
            en = bool(vals[f['cond'][0]]) == f['cond'][1]
        enabled.append(en)
        if not en:
            d = default_json(f)
            vals[i] = None if d == 'required' else d
            continue
        vals[i] = gen_value(rng, lay, f['type'], edge=(mode == 'edge'), nonascii=(mode == 'nonascii'))
    # optionals: choose how many of the enabled optional fields are present (a prefix of them)
    opt_idx = [i for i, f in enumerate(fs) if f['optional'] and enabled[i]]
    if opt_idx:
        if mode in ('full', 'edge', 'nonascii'):
            keep = len(opt_idx)
        elif mode == 'none':
            keep = 0
        else:
            keep = rng.randrange(len(opt_idx) + 1)
        for j, i in enumerate(opt_idx):
            if j >= keep:
                d = default_json(fs[i])
                if d is None:
                    vals[i] = None
                else:
                    # an absent optional with a non-None default is not expressible by an in-domain
                    # object (None would round-trip to the default): keep it and all before it present
                    for i2 in opt_idx[:j + 1]:
                        if vals[i2] is None:
                            vals[i2] = gen_value(rng, lay, fs[i2]['type'])
    return vals


# ----------------------------------------------------------------------------------------
# Python objects of the implementation

def impl_class(name: str):
    import aioslsk.protocol.messages as M
    outer, inner = name.split('.')
    return getattr(getattr(M, outer), inner)


def to_py(lay: dict, t, v):
    """JSON value -> the Python value the real dataclass holds."""
    if v is None:
        return None
    k = kind_of(lay, t)
    if k[0] == 'bytes':
        return bytes.fromhex(v['hex'])
    if k[0] == 'array':
        return [to_py(lay, k[1], x) for x in v]
    if k[0] == 'rec':
        import aioslsk.protocol.primitives as P
        cls = getattr(P, k[1])
        fs = lay['records'][k[1]]
        return cls(**{fn: to_py(lay, ft, x) for (fn, ft), x in zip(fs, v['rec'])})
    return v


def from_py(lay: dict, t, v):
    """Python value held by a real object -> JSON value (by wire type)."""
    if v is None:
        return None
    k = kind_of(lay, t)
    if k[0] in ('int', 'ticket'):
        return int(v)
    if k[0] == 'bool':
        return bool(v) if isinstance(v, (bool, int)) else v
    if k[0] == 'bytes':
        return {'hex': bytes(v).hex()}
    if k[0] == 'array':
        return [from_py(lay, k[1], x) for x in v]
    if k[0] == 'rec':
        return {'rec': [from_py(lay, ft, getattr(v, fn)) for fn, ft in lay['records'][k[1]]]}
    return v


def make_obj(lay: dict, m: dict, vals: list):
    cls = impl_class(m['name'])
    kw = {f['name']: to_py(lay, f['type'], v) for f, v in zip(m['fields'], vals)}
    return cls(**kw)


def obj_vals(lay: dict, m: dict, obj) -> list:
    return [from_py(lay, f['type'], getattr(obj, f['name'])) for f in m['fields']]


# ----------------------------------------------------------------------------------------
# Coq literals

def coq_bytes(b: bytes) -> str:
    # long flat list literals are slow to parse/type-check: chunk them
    if len(b) > 96:
        return '(' + ' ++ '.join('[' + ';'.join(str(x) for x in b[i:i + 64]) + ']' for i in range(0, len(b), 64)) + ')'
    return '[' + ';'.join(str(x) for x in b) + ']'


def coq_value(lay: dict, t, v) -> str:
    if v is None:
        return 'VNone'
    k = kind_of(lay, t)
    if k[0] in ('int', 'ticket'):
        if isinstance(v, bool):
            v = int(v)
        return f'(VInt ({v})%Z)'
    if k[0] == 'bool':
        if not isinstance(v, bool):
            return f'(VInt ({int(v)})%Z)'
        return f'(VBool {"true" if v else "false"})'
    if k[0] == 'str':
        return f'(VStr {coq_bytes(v.encode("utf-8"))})'
    if k[0] == 'bytes':
        return f'(VBytes {coq_bytes(bytes.fromhex(v["hex"]))})'
    if k[0] == 'ip':
        return f'(VIp {coq_bytes(bytes(int(x) for x in v.split(".")))})'
    if k[0] == 'array':
        return '(VArr [' + ';'.join(coq_value(lay, k[1], x) for x in v) + '])'
    if k[0] == 'rec':
        fs = lay['records'][k[1]]
        return '(VRec [' + ';'.join(coq_value(lay, ft, x) for (_, ft), x in zip(fs, v['rec'])) + '])'
    raise AssertionError(k)


def coq_msg(lay: dict, m: dict, vals: list) -> str:
    return '[' + ';'.join(coq_value(lay, f['type'], v) for f, v in zip(m['fields'], vals)) + ']'


def coq_opt(x) -> str:
    return 'None' if x is None else f'(Some {x})'


def coq_table(pairs, none_ok=False) -> str:
    """[(bytes, bytes|None)] -> association list literal"""
    rows = []
    for a, b in pairs:
        if none_ok:
            rows.append(f'({coq_bytes(a)}, {coq_opt(None if b is None else coq_bytes(b))})')
        else:
            rows.append(f'({coq_bytes(a)}, {coq_bytes(b)})')
    return '[' + ';\n '.join(rows) + ']'


CASES_PRELUDE = '''From Coq Require Import ZArith List Bool String.
From Slsk Require Import C01.Types C01.Model C01.Eval.
From SlskGen Require Import ObfGen PrimGen SchemaGen.
Import ListNotations.
Open Scope N_scope.
'''

FAMILY_COQ = {'server': 'FServer', 'peer_init': 'FPeerInit', 'peer': 'FPeer', 'distributed': 'FDistributed'}


def ident(name: str) -> str:
    return 's_' + name.replace('.', '_')


def exc_name(e: BaseException) -> str:
    return type(e).__name__
